"""./check driver: runs one property's bounded symbolic check against /repo's current working tree."""
import sys, os, time, json, argparse, importlib, traceback
sys.path.insert(0, os.path.dirname(os.path.abspath(__file__)))

def main():
    ap = argparse.ArgumentParser()
    ap.add_argument('prop')
    ap.add_argument('--tier', default=os.environ.get('VERIF_TIER', 'quick'))
    ap.add_argument('--replay')
    ap.add_argument('--jobs', type=int, default=0)
    a = ap.parse_args()
    prop = a.prop.upper()
    tier = a.tier if a.tier in ('quick', 'thorough') else 'quick'
    seed = int(os.environ.get('VERIF_SEED', '0') or 0)
    if a.jobs:
        os.environ['VERIF_JOBS'] = str(a.jobs)
    t0 = time.time()
    import engine
    from values import Unsupported, InternalError
    from props import common
    try:
        mod = importlib.import_module('props.' + prop.lower())
    except ImportError as e:
        print('no check for %s: %s' % (prop, e)); return 2
    if a.replay:
        rec = json.load(open(a.replay))
        common.replay_bin()
        rep, detail = mod.replay(rec)
        print('replay of %s: %s (%s)' % (a.replay, 'REPRODUCES' if rep else 'does not reproduce', detail))
        if rep:
            print('VIOLATION property=%s replay=%s' % (prop, a.replay))
        return 1 if rep else 0
    try:
        engine.load_program()
    except Exception as e:
        print('INCONCLUSIVE: cannot obtain the MIR of the current tree: %s' % e)
        return 2
    insts = mod.instances(tier, seed)
    try:
        common.replay_bin()          # built before the workers fork: path witnesses are cross-validated natively inside them
        if prop in ('C02', 'C03', 'C09', 'C10', 'C13', 'C18'):
            common.replay_bin(small=True)
        if prop == 'C12':
            common.replay_bin(chrono=True)
            engine.load_program(variant='chrono')          # second program: mpd_client with its optional chrono feature
    except engine.Inconclusive as e:
        print('INCONCLUSIVE: %s' % e)
        return 2
    import random
    random.Random(seed).shuffle(insts)
    results = engine.pmap('props.' + prop.lower(), 'run_instance', insts)
    bad = [(i, r) for i, r in zip(insts, results) if r[0] != 'ok']
    def report_bad():
        for i, r in bad[:5]:
            print('INCONCLUSIVE instance %s: %s' % (json.dumps(i, default=str)[:200], r[1]))
        print('INCONCLUSIVE: %d of %d instances could not be decided (not a verdict about the repository)' % (len(bad), len(insts)))
    if bad and not any(r[0] == 'ok' and r[1]['violations'] for r in results):
        report_bad()
        return 2
    # (some instances undecided, others found counterexamples: a natively reproduced counterexample stands on its own)
    tot = common.merge([r[1] for r in results if r[0] == 'ok'])
    rc = 0
    lines = []
    try:
        common.replay_bin()
        # known findings: re-confirmed natively, reported, never an alarm
        for k in sorted(tot.known):
            rep, detail = mod.replay(tot.known[k])
            if not rep:
                print('INCONCLUSIVE: witness of known finding %s does not reproduce natively (%s)' % (k, detail))
                return 2
            lines.append('KNOWN-FINDING: property=%s %s: %s [witness %s]' % (prop, k, mod.DESCR.get(k, ''), json.dumps(tot.known[k], default=str)[:160]))
        confirmed = []
        unconfirmed = []
        seen = set()
        for v in tot.violations:
            key = json.dumps(v.get('input'), sort_keys=True, default=str)
            if key in seen:
                continue
            seen.add(key)
            if v.get('input') is None:
                unconfirmed.append((v, 'no concrete input')); continue
            rep, detail = mod.replay(v)
            (confirmed if rep else unconfirmed).append((v, detail))
            if len(confirmed) >= 5:
                break
    except (engine.Inconclusive, Unsupported, InternalError) as e:
        print('INCONCLUSIVE: %s' % e)
        return 2
    missing = [c for c in getattr(mod, 'REQUIRED_CLASSES', []) if not any(k == c or k.startswith(c) for k in tot.classes)]
    wall = time.time() - t0
    common.write_evidence(prop, tier, seed, tot, wall, mod.bounds(tier), mod.EXPLANATION, mod.ASSUMPTIONS, mod.RULE,
                          len(confirmed), getattr(mod, 'extra_evidence', lambda t: None)(tot))
    for l in lines:
        print(l)
    print('%s %s: %d instances, %d feasible paths (%d non-trivial), %d solver queries in %.1fs, wall %.1fs; classes %s' % (
        prop, tier, len(insts), tot.paths, tot.nontrivial, tot.queries, tot.solver_s, wall, json.dumps(tot.classes)))
    if confirmed:
        # a natively reproduced counterexample stands on its own, whatever else the run did or did not reach
        for v, detail in confirmed:
            p = common.save_replay(prop, v)
            print('counterexample: %s; %s' % (v['what'], detail))
            print('VIOLATION property=%s replay=%s' % (prop, p))
        return 1
    if bad:
        report_bad()
        return 2
    if missing:
        print('INCONCLUSIVE: vacuity witness missing - no feasible path reached oracle class(es) %s' % missing)
        return 2
    if unconfirmed:
        for v, detail in unconfirmed[:5]:
            print('INCONCLUSIVE: symbolic counterexample does not reproduce natively: %s (%s) input=%s' % (v['what'], detail, json.dumps(v.get('input'))[:200]))
        return 2
    return 0

if __name__ == '__main__':
    try:
        rc = main()
    except Exception:
        traceback.print_exc()
        print('INCONCLUSIVE: internal error of the checker')
        rc = 2
    sys.exit(rc)
