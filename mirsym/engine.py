"""Path exploration driver: DFS over decision traces by re-execution; optional process-level parallelism."""
import os, sys, time, json, traceback, multiprocessing
import z3
from values import *
import interp
from interp import Ctx, Interp, Stats
import program

# library models register themselves on import
import models_core, models_iter, models_fmt, models_coll
for _m in ('models_nom', 'models_io', 'models_tokio', 'models_misc', 'models_more'):
    try:
        __import__(_m)
    except ImportError:
        pass

_PROG = None

def scratch_dir():
    d = os.environ.get('VERIF_SCRATCH')
    if not d:
        d = os.path.join(os.path.dirname(os.path.dirname(os.path.abspath(__file__))), '.scratch')
    os.makedirs(d, exist_ok=True)
    return d

_VARIANTS = {}
def load_program(dump=True, variant=None):
    """dump the MIR of /repo's current working tree (unless VERIF_MIR_DIR points at an existing dump) and index it.
    variant='chrono': mpd_client built with its optional `chrono` feature (a second program, used by C12 only)"""
    global _PROG
    if variant:
        if variant not in _VARIANTS:
            import tempfile, shutil
            P = program.Program()
            P.features = [variant]
            tmp = tempfile.mkdtemp(prefix='mir-%s-' % variant, dir=scratch_dir())
            try:
                P.dump_mir(tmp, target=os.path.join(scratch_dir(), 'ws-target'))
                P.load(tmp)
            finally:
                shutil.rmtree(tmp, ignore_errors=True)
            _VARIANTS[variant] = P
        return _VARIANTS[variant]
    if _PROG is not None:
        return _PROG
    P = program.Program()
    d = os.environ.get('VERIF_MIR_DIR')
    if d and os.path.exists(os.path.join(d, 'mpd_client.mir')):
        P.mir_files = {c: os.path.join(d, c + '.mir') for c in ('mpd_protocol', 'mpd_client')}
        P.load(scratch_dir())
    else:
        # each run dumps into its own directory: concurrent checks must not read each other's half-written dumps
        import tempfile, shutil
        tmp = tempfile.mkdtemp(prefix='mir-', dir=scratch_dir())
        try:
            P.dump_mir(tmp, target=os.path.join(scratch_dir(), 'ws-target'))
            P.load(tmp)
            for c, f in list(P.mir_files.items()):          # keep the latest dump for inspection
                dst = os.path.join(scratch_dir(), c + '.mir')
                os.replace(f, dst)
                P.mir_files[c] = dst
        finally:
            shutil.rmtree(tmp, ignore_errors=True)
    _PROG = P
    return P

class PathResult:
    __slots__ = ('kind', 'value', 'ctx', 'interp', 'error')
    def __init__(self, kind, value, ctx, interp_, error=None):
        self.kind = kind; self.value = value; self.ctx = ctx; self.interp = interp_; self.error = error

class Inconclusive(Exception):
    pass

def explore(prog, harness, base=(), max_paths=200000, stats=None, prefix=None, setup=None, order_seed=0):
    """yield one PathResult per feasible path of `harness(I)`.
    kind: 'ok' (value = harness result), 'panic' (error = Panic), 'infeasible' is skipped."""
    stats = stats or Stats()
    work = [list(prefix) if prefix else []]
    n = 0
    while work:
        trace = work.pop()
        interp.reset_path_state()
        ctx = Ctx(trace, base, stats)
        I = Interp(prog, ctx)
        if setup is not None:
            setup(I)
        try:
            v = harness(I)
            res = PathResult('ok', v, ctx, I)
        except Panic as p:
            res = PathResult('panic', None, ctx, I, p)
        except PathInfeasible:
            res = None
        if res is not None:
            n += 1
            if n > max_paths:
                raise Inconclusive('path cap %d exceeded' % max_paths)
            yield res          # the consumer may take further decisions on this path (oracles): collect afterwards
        work.extend(ctx.pending)

def model_bytes(m, items):
    """concrete bytes of a list of int / BitVec elements under model m"""
    out = []
    for b in items:
        if isinstance(b, int):
            out.append(b)
        elif isinstance(b, WChar):
            cp = m.eval(b.cp, model_completion=True).as_long()
            out.extend(chr(cp).encode('utf-8'))
        elif is_sym(b):
            out.append(m.eval(b, model_completion=True).as_long())
        else:
            raise ValueError('element %r' % (b,))
    return bytes(out)

def model_int(m, v):
    if is_sym(v):
        r = m.eval(v, model_completion=True)
        if z3.is_bool(r):
            return z3.is_true(r)
        return r.as_long()
    return v

# ---------------------------------------------------------------------------- parallel map over instances
def _worker(args):
    fn_mod, fn_name, payload = args
    try:
        import importlib
        mod = importlib.import_module(fn_mod)
        fn = getattr(mod, fn_name)
        load_program()
        return ('ok', fn(payload))
    except (Unsupported, InternalError, Inconclusive) as e:
        return ('inconclusive', '%s: %s\n%s' % (type(e).__name__, e, traceback.format_exc()[-1500:]))
    except Exception as e:
        return ('error', '%s: %s\n%s' % (type(e).__name__, e, traceback.format_exc()[-3000:]))

def pmap(fn_mod, fn_name, payloads, jobs=None):
    """run module-level function fn(payload) for each payload in worker processes (fork: the parsed program is shared)"""
    jobs = jobs or int(os.environ.get('VERIF_JOBS', '0')) or min(16, os.cpu_count() or 4)
    payloads = list(payloads)
    if jobs <= 1 or len(payloads) <= 1:
        return [_worker((fn_mod, fn_name, p)) for p in payloads]
    load_program()
    ctxm = multiprocessing.get_context('fork')
    with ctxm.Pool(min(jobs, len(payloads))) as pool:
        return pool.map(_worker, [(fn_mod, fn_name, p) for p in payloads], chunksize=1)
