"""Symbolic interpreter for the MIR of /repo's crates.

One `Interp` executes one path.  Branches on symbolic conditions go through `Ctx.decide`, which
replays a recorded decision trace and asks z3 which sides are feasible at new decision points; the
driver (`explore`) re-executes the harness once per feasible path (DFS over decision traces).
"""
import re, sys, time
import z3
from values import *
import rtypes
from rtypes import parse_type, parse_callee, base_name, subst, unify, type_str, int_info, strip_lifetimes
from mirparse import split_top, match_close

sys.setrecursionlimit(20000)

# ============================================================================ path context
class Stats:
    def __init__(self):
        self.queries = 0
        self.solver_s = 0.0
        self.steps = 0
        self.calls = 0
        self.funcs = {}          # repo function name -> times entered
        self.models = {}         # library model key -> times used

class Ctx:
    """decision trace + path condition of the current path"""
    def __init__(self, trace, base=(), stats=None, seed=0):
        self.trace = list(trace)
        self.pos = 0
        self.solver = z3.Solver()
        self.base = list(base)
        for b in base:
            self.solver.add(b)
        self.pending = []
        self.stats = stats or Stats()
        self.notes = []          # harness/model notes attached to the path (witness classes etc.)
        self.nfresh = 0
        self.max_decisions = 100000

    def fresh_bv(self, name, bits):
        self.nfresh += 1
        return z3.BitVec('%s!%d' % (name, self.nfresh), bits)

    def fresh_bool(self, name):
        self.nfresh += 1
        return z3.Bool('%s!%d' % (name, self.nfresh))

    def assume(self, cond):
        if isinstance(cond, bool):
            if not cond:
                raise PathInfeasible()
            return
        self.solver.add(cond)

    def check(self, *extra):
        t = time.time()
        self.stats.queries += 1
        if extra:
            self.solver.push()
            for e in extra:
                self.solver.add(e)
            r = self.solver.check()
            self.solver.pop()
        else:
            r = self.solver.check()
        self.stats.solver_s += time.time() - t
        if r == z3.unknown:
            raise Unsupported('solver returned unknown: ' + self.solver.reason_unknown())
        return r == z3.sat

    def model(self, *extra):
        """a model of path condition (+extra) or None"""
        self.solver.push()
        for e in extra:
            self.solver.add(e)
        t = time.time()
        self.stats.queries += 1
        r = self.solver.check()
        self.stats.solver_s += time.time() - t
        m = self.solver.model() if r == z3.sat else None
        self.solver.pop()
        if r == z3.unknown:
            raise Unsupported('solver returned unknown')
        return m

    def decide(self, cond):
        """branch on cond (python bool or z3 Bool); returns the python bool taken on this path"""
        if isinstance(cond, bool):
            return cond
        if not z3.is_bool(cond):
            cond = cond != 0
        cond = z3.simplify(cond)
        if z3.is_true(cond):
            return True
        if z3.is_false(cond):
            return False
        if self.pos < len(self.trace):
            d = self.trace[self.pos]
            self.pos += 1
            self.solver.add(cond if d else z3.Not(cond))
            return d
        if self.pos >= self.max_decisions:
            raise Unsupported('decision limit reached')
        t = self.check(cond)
        f = self.check(z3.Not(cond))
        if t and f:
            self.pending.append(self.trace[:self.pos] + [False])
            d = True
        elif t:
            d = True
        elif f:
            d = False
        else:
            raise PathInfeasible()
        self.trace = self.trace[:self.pos] + [d]
        self.pos += 1
        self.solver.add(cond if d else z3.Not(cond))
        return d

    def choose(self, n, name='choice'):
        """nondeterministic concrete choice in range(n): forks n ways"""
        for i in range(n - 1):
            b = self.fresh_bool('%s=%d' % (name, i))
            if self.decide(b):
                return i
        return n - 1

    def must(self, cond):
        """True iff cond holds for every model of the path condition"""
        if isinstance(cond, bool):
            return cond
        cond = z3.simplify(cond)
        if z3.is_true(cond):
            return True
        if z3.is_false(cond):
            return False
        return not self.check(z3.Not(cond))

    def concretize(self, v, name='value'):
        """fork until the symbolic scalar v has a single value (only for tiny domains)"""
        if not is_sym(v):
            return v
        m = self.model()
        val = m.eval(v, model_completion=True)
        if z3.is_bool(v):
            return self.decide(v)
        while True:
            c = val.as_long()
            if self.decide(v == c):
                return c
            m = self.model()
            val = m.eval(v, model_completion=True)

# ============================================================================ model registry
MODELS = {}          # key -> python function(I, callee, args, frame)

def model(*keys):
    def deco(f):
        for k in keys:
            MODELS[k] = f
        return f
    return deco

def callee_keys(c):
    """candidate registry keys for a library callee, most specific first"""
    keys = []
    if c.trait is not None:
        tname = c.trait[0].split('::')[-1]
        st = c.qself
        keys.append('<%s as %s>::%s' % (norm_self(st), tname, c.name))
        keys.append('%s::%s' % (tname, c.name))
        return keys
    names = []
    for nm, ta in c.segs:
        if nm == '<impl>':
            names.append(norm_self(ta[0]))
        else:
            names.append(nm)
    if c.qself is not None:
        names = [norm_self(c.qself)] + names
    for i in range(len(names)):
        keys.append('::'.join(names[i:]))
    return keys

def norm_self(t):
    k = t[0]
    if k == 'path':
        return base_name(t)
    if k == 'ref':
        return '&' + norm_self(t[2])
    if k == 'slice':
        return 'slice'
    if k == 'array':
        return 'array'
    if k == 'tuple':
        return 'tuple'
    if k == 'ptr':
        return 'ptr'
    if k == 'opaque':
        if t[1].startswith('{closure@'):
            return '{closure}'
        if t[1].startswith('{async'):
            return '{async}'
        if t[1].startswith('dyn '):
            return 'dyn'
        return 'opaque'
    return k

# ============================================================================ frames
class Frame:
    __slots__ = ('func', 'locals', 'env', 'ltypes', 'crate')
    def __init__(self, func, env, crate=None):
        self.func = func
        self.locals = {}
        self.env = env
        self.crate = crate if crate is not None else (getattr(func, 'crate', None) if func is not None else None)

class LocalLoc(Loc):
    __slots__ = ('fr', 'k')
    def __init__(self, fr, k): self.fr = fr; self.k = k
    def get(self):
        try:
            return self.fr.locals[self.k]
        except KeyError:
            raise InternalError('read of unassigned local %s in %s' % (self.k, self.fr.func.name))
    def set(self, v): self.fr.locals[self.k] = v

class FieldLoc(Loc):
    """field `i` of aggregate object `o`"""
    __slots__ = ('o', 'i')
    def __init__(self, o, i): self.o = o; self.i = i
    def get(self): return get_field(self.o, self.i)
    def set(self, v): set_field(self.o, self.i, v)

class Wrapper:
    """transparent single-field wrappers of std (MaybeUninit/ManuallyDrop/Unique/NonNull/...): every field index
    leads to the same payload"""
    __slots__ = ('v',)
    def __init__(self, v=UNINIT): self.v = v

def get_field(o, i):
    if isinstance(o, Adt):
        try:
            return o.fields[i]
        except IndexError:
            raise InternalError('field %d of %r' % (i, o))
    if isinstance(o, Tup):
        return o.items[i]
    if isinstance(o, Closure):
        return o.upvars[i]
    if isinstance(o, Coroutine):
        return o.upvars[i]
    if isinstance(o, CoroView):
        try:
            return o.co.saved[(o.variant, i)]
        except KeyError:
            raise InternalError('read of unset coroutine slot %s.%d in %s' % (o.variant, i, o.co.fn.name))
    if isinstance(o, Pin):
        return o.ptr
    if isinstance(o, Wrapper):
        return o if isinstance(o.v, Uninit) or True else o.v
    if isinstance(o, (BoxObj, StrBuf, ByteBuf, VecObj)):
        return o        # (box.0: Unique<T>).0: NonNull<T> ... as *const T  -> the box itself acts as the pointer
    if isinstance(o, Array):
        return o.items[i]
    raise Unsupported('field %d of %s' % (i, type(o).__name__))

def set_field(o, i, v):
    if isinstance(o, Adt):
        while len(o.fields) <= i:
            o.fields.append(UNINIT)
        o.fields[i] = v
    elif isinstance(o, Tup):
        while len(o.items) <= i:
            o.items.append(UNINIT)
        o.items[i] = v
    elif isinstance(o, Closure):
        o.upvars[i] = v
    elif isinstance(o, Coroutine):
        o.upvars[i] = v
    elif isinstance(o, CoroView):
        o.co.saved[(o.variant, i)] = v
    elif isinstance(o, Pin):
        o.ptr = v
    elif isinstance(o, Wrapper):
        o.v = v
    elif isinstance(o, Array):
        o.items[i] = v
    else:
        raise Unsupported('set field %d of %s' % (i, type(o).__name__))

def deref_value(v):
    """target location of a pointer-like value"""
    if isinstance(v, Ref):
        return v.loc
    if isinstance(v, BoxObj):
        return AttrLoc(v, 'v')
    if isinstance(v, Pin):
        return deref_value(v.ptr)
    if isinstance(v, SliceRef):
        return ValLoc(v)        # `*slice_ref` as a place: the unsized slice itself (used with PtrMetadata / index)
    if isinstance(v, (StrBuf, ByteBuf)):
        return ValLoc(v)
    raise Unsupported('deref of %s' % type(v).__name__)

# ============================================================================ interpreter
class Interp:
    def __init__(self, prog, ctx):
        self.prog = prog
        self.ctx = ctx
        self.stats = ctx.stats
        self.depth = 0
        self.max_steps = 5_000_000
        self.harness_fns = {}        # callee text -> python function (harness-provided trait impls etc.)
        self.world = None            # harness state reachable from models (transport, scheduler ...)
        self.const_cache = {}
        self.trace_calls = False
        self.merge_enabled = True

    # ------------------------------------------------------------------ constants
    def const(self, txt, fr):
        c = txt
        if c == '()':
            return UNIT
        if c == 'true':
            return True
        if c == 'false':
            return False
        ch0 = c[0]
        if ch0.isdigit() or ch0 == '-':
            m = re.match(r'^(-?\d+)_(\w+)$', c)
            if m:
                v = int(m.group(1))
                info = int_info(m.group(2))
                if info and v < 0:
                    v += 1 << info[0]
                return v
            m = re.match(r'^(-?[\d.eE+-]+)(f32|f64)$', c)
            if m:
                return float(m.group(1))
            raise Unsupported('const ' + c)
        if ch0 == '"':
            return str_ref(parse_str_lit(c))
        if ch0 == 'b' and c[1:2] == '"':
            k = c.rindex('"')
            data = parse_str_lit(c[1:k+1])
            return bytes_ref(data)
        if ch0 == "'":
            return ord(parse_char_lit(c))
        if ch0 == '{' and c.startswith('{alloc'):
            # a reference to a static: evaluated once from the static's own MIR body, shared by every user
            m = re.match(r'^\{(alloc\d+): ', c)
            crate = getattr(fr, 'crate', None) if fr is not None else None
            name = getattr(self.prog, 'alloc_static', {}).get((crate, m.group(1))) if m else None
            if name is None and m:
                cands = {v for (cr, a), v in getattr(self.prog, 'alloc_static', {}).items() if a == m.group(1)}
                name = cands.pop() if len(cands) == 1 else None
            if name is not None:
                cache = self.prog.__dict__.setdefault('static_cells', {})
                key = (crate, name)
                if key not in cache:
                    f = self.prog.funcs.get(name) or self.prog.funcs.get('%s::%s' % (crate, name))
                    if f is None:
                        f = next((g for g in self.prog.all_funcs() if g.name.split('::')[-1] == name.split('::')[-1] and g.raw_header.startswith('static ')), None)
                    if f is None:
                        raise Unsupported('static ' + name)
                    cache[key] = ValLoc(self.run(f, [], {}))
                return Ref(cache[key])
        if c == '!missing-capture':
            raise Unsupported('closure captures that rustc\'s MIR printer omits could not be reconstructed')
        if c.startswith('ZeroSized: '):
            return self.zst(c[11:], fr)
        if c.startswith('b\''):
            return ord(parse_char_lit(c[1:]))
        return self.named_const(c, fr)

    def zst(self, ty, fr):
        ty = ty.strip()
        if ty.startswith('{closure@'):
            loc = ty[9:ty.index('}')]
            f = self.prog.closure_fn(loc)
            if f is not None:
                return set_closure_env(Closure(f, [], [], loc), dict(fr.env) if fr is not None and fr.env else {})
            return Zst(type_str(subst(parse_type(ty), fr.env)) if fr is not None and fr.env else ty)
        if ty.startswith('fn(') or ty.startswith('for<') or ty.startswith('unsafe fn('):
            # fn item type:  fn(A) -> B {path}
            k = ty.rindex('{')
            return FnItem(ty[k+1:-1], dict(fr.env) if fr is not None else {}, getattr(fr, 'crate', None) if fr is not None else None)
        return Zst(ty)

    def variant_const(self, c, fr):
        """constant enum values printed as expressions: `Result::<Infallible, ()>::Err(())`, `Option::<u8>::None`, `E::V(const 1_u8)`"""
        txt = strip_lifetimes(c.strip())
        # split off a trailing argument list `( ... )` that is not part of the generic arguments
        head, args = txt, None
        if txt.endswith(')'):
            depth = 0
            for i in range(len(txt) - 1, -1, -1):
                ch = txt[i]
                if ch == ')': depth += 1
                elif ch == '(':
                    depth -= 1
                    if depth == 0:
                        if i > 0 and (txt[i - 1].isalnum() or txt[i - 1] == '_'):
                            head, args = txt[:i], txt[i + 1:-1]
                        break
        head = strip_generics_text(head)
        segs = head.split('::')
        if len(segs) < 2:
            return None
        ty, var = segs[-2], segs[-1]
        std = {('Result', 'Ok'): 0, ('Result', 'Err'): 1, ('Option', 'None'): 0, ('Option', 'Some'): 1}
        vi = std.get((ty, var))
        if vi is None:
            vi = self.prog.variant_index(ty, var)
        if vi is None:
            return None
        vals = []
        if args is not None and args.strip() != '':
            from mirparse import split_top as _st
            for a in _st(args):
                a = a.strip()
                vals.append(UNIT if a == '()' else self.const(a[6:] if a.startswith('const ') else a, fr))
        return Adt(ty, var, vi, vals)

    def named_const(self, c, fr):
        # casts such as `const str (Transmute)` never reach here (rvalue handles them)
        m = re.match(r'^(.*?)(?:: (.*))?$', c)
        name = c
        # `path::promoted[0]: &T` or `NAME: T`
        k = rtypes.find_top(c, ': ') if hasattr(rtypes, 'find_top') else -1
        if k >= 0:
            name = c[:k]
        mnum = re.match(r'^(?:(?:core|std)::num::<impl ([ui](?:8|16|32|64|128|size))>|([ui](?:8|16|32|64|128|size)))::(MAX|MIN|BITS)$', name.strip())
        if mnum:
            class _M:
                def __init__(s, a, b): s.a = a; s.b = b
                def group(s, i): return s.a if i == 1 else s.b
            mnum = _M(mnum.group(1) or mnum.group(2), mnum.group(3))
        if mnum:
            bits = {'size': 64}.get(mnum.group(1)[1:]) or int(mnum.group(1)[1:])
            signed = mnum.group(1)[0] == 'i'
            if mnum.group(2) == 'BITS':
                return bits
            if mnum.group(2) == 'MAX':
                return (1 << (bits - 1)) - 1 if signed else (1 << bits) - 1
            return ((1 << (bits - 1)) if signed else 0)          # MIN of a signed type in two's complement representation
        name = strip_generics_text(name)
        ov = getattr(self, 'const_override', None)
        if ov and name.split('::')[-1] in ov:
            return ov[name.split('::')[-1]]
        if name == '[]':
            return Array([])
        if fr is not None and fr.env and name in fr.env:
            t = fr.env[name]
            if t[0] == 'path' and t[1].isdigit():
                return int(t[1])
        if 'promoted[' in name and fr is not None and fr.func is not None:
            key = fr.func.name + '::' + name.split('::')[-1]
            f = self.prog.consts.get(key)
            if f is not None:
                ck = (key,)
                if ck in self.const_cache:
                    return copy_value(self.const_cache[ck])
                v = self.const(f.const_value[6:], fr) if f.const_value is not None else self.run(f, [], dict(fr.env))
                self.const_cache[ck] = v
                return copy_value(v)
        if name in self.const_cache:
            return copy_value(self.const_cache[name])
        f = self.lookup_const(name, fr)
        if f is not None and len(self.prog.const_multi.get(f.name, ())) > 1 and fr is not None and fr.func is not None and 'promoted' not in name:
            # several items of this name (macro-generated impls): a function-local const is printed right after the function using it
            cands = sorted(self.prog.const_multi[f.name], key=lambda g: g.order)
            after = [g for g in cands if g.order > fr.func.order]
            if not after:
                raise Unsupported('ambiguous constant %s' % name)
            f = after[0]
            v = self.const(f.const_value[6:] if f.const_value.startswith('const ') else f.const_value, fr) if f.const_value is not None else self.run(f, [], {})
            return copy_value(v)
        if f is None:
            v = builtin_const(name)
            if v is None:
                # unit-like struct / enum variant used as a constant
                v = self.unit_adt(name)
            if v is None:
                v = self.variant_const(c, fr)
            if v is None:
                raise Unsupported('constant %s in %s env %s' % (c, fr.func.name if fr is not None and fr.func else None, fr.env if fr is not None else None))
            return v
        if f.const_value is not None:
            v = self.const(f.const_value[6:] if f.const_value.startswith('const ') else f.const_value, fr)
        else:
            v = self.run(f, [], {})
        self.const_cache[name] = v
        return copy_value(v)

    def unit_adt(self, name):
        segs = name.split('::')
        last = segs[-1]
        if len(segs) >= 2 and self.prog.is_variant(segs[-2], last):
            return Adt(segs[-2], last, self.prog.variant_index(segs[-2], last), [])
        if last in self.prog.structs:
            return Adt(last, None, 0, [])
        return None

    def lookup_const(self, name, fr):
        P = self.prog.consts
        if name in P:
            return P[name]
        # promoted of the current function: `fname::promoted[N]`
        segs = [x for x in name.split('::') if x]
        if not segs:
            return None
        hits = []
        for k, f in P.items():
            ks = strip_generics_text(k).split('::')
            n = min(len(ks), len(segs))
            if ks[-n:] == segs[-n:] and n >= 1:
                # the remaining prefix of one must be a module path prefix
                hits.append((n, k, f))
        if not hits:
            return None
        hits.sort(key=lambda x: -x[0])
        best = [h for h in hits if h[0] == hits[0][0]]
        if len(best) > 1 and fr is not None and 'promoted' in name:
            cur = strip_generics_text(fr.func.name)
            for n, k, f in best:
                if strip_generics_text(k).rsplit('::promoted', 1)[0] == cur:
                    return f
            # impl-qualified current function
            for n, k, f in best:
                if k.rsplit('::promoted', 1)[0] == fr.func.name:
                    return f
        return best[0][2]

    # ------------------------------------------------------------------ places
    def place_loc(self, fr, pl):
        base, projs = pl
        loc = LocalLoc(fr, base)
        for p in projs:
            k = p[0]
            if k == 'deref':
                loc = deref_value(loc.get())
            elif k == 'field':
                loc = FieldLoc(loc.get(), p[1])
            elif k == 'downcast':
                o = loc.get()
                if isinstance(o, Coroutine):
                    loc = ValLoc(CoroView(o, p[1]))
                elif isinstance(o, Adt):
                    if o.variant != p[1] and not p[1].startswith('variant#'):
                        raise InternalError('downcast of %r to %s in %s' % (o, p[1], fr.func.name))
                else:
                    raise Unsupported('downcast of %s' % type(o).__name__)
            elif k == 'index':
                o = loc.get()
                i = fr.locals[p[1]]
                loc = self.index_loc(o, i)
            elif k == 'constindex':
                o = loc.get()
                n = seq_len(o)
                i = n - p[1] if p[2] else p[1]
                loc = self.index_loc(o, i)
            else:
                raise Unsupported('projection ' + k)
        return loc

    def index_loc(self, o, i):
        if is_sym(i):
            raise Unsupported('symbolic index')
        if isinstance(o, SliceRef):
            if not 0 <= i < len(o):
                raise Panic('index out of bounds')
            return ListLoc(o.back, o.lo + i)
        if isinstance(o, Array):
            return ListLoc(o.items, i)
        if isinstance(o, VecObj):
            return ListLoc(o.v, i)
        if isinstance(o, (StrBuf, ByteBuf)):
            return ListLoc(o.b, i)
        raise Unsupported('index into %s' % type(o).__name__)

    def read(self, fr, pl):
        base, projs = pl
        if not projs:
            try:
                return fr.locals[base]
            except KeyError:
                raise InternalError('read of unassigned local %s in %s' % (base, fr.func.name))
        return self.place_loc(fr, pl).get()

    def write(self, fr, pl, v):
        base, projs = pl
        if not projs:
            fr.locals[base] = v
            return
        self.place_loc(fr, pl).set(v)

    def operand(self, fr, op):
        k = op[0]
        if k == 'move':
            return self.read(fr, op[1])
        if k == 'copy':
            v = self.read(fr, op[1])
            if isinstance(v, (Tup, Adt, Array)):
                return copy_value(v)
            return v
        if k == 'const':
            return self.const(op[1], fr)
        if k == 'fnitem':
            return FnItem(op[1], dict(fr.env), getattr(fr, 'crate', None))
        raise InternalError('operand ' + repr(op))

    # ------------------------------------------------------------------ types of operands
    def place_type(self, fr, pl):
        base, projs = pl
        t = fr.func.locals.get(base)
        if t is None:
            return None
        for p in projs:
            if p[0] == 'field':
                t = p[2]
            elif p[0] == 'deref':
                t = strip_lifetimes(t).strip()
                if t.startswith('&mut '):
                    t = t[5:]
                elif t.startswith('&'):
                    t = t[1:]
                elif t.startswith('*const '):
                    t = t[7:]
                elif t.startswith('*mut '):
                    t = t[5:]
                elif t.startswith(('Box<', 'std::boxed::Box<')):
                    t = t[t.index('<')+1:-1]
                else:
                    return None
            elif p[0] in ('index', 'constindex'):
                t = t.strip()
                if t.startswith('['):
                    inner = t[1:-1]
                    semi = inner.rfind('; ')
                    t = inner[:semi] if semi >= 0 else inner
                else:
                    return None
            elif p[0] == 'downcast':
                pass
        return t

    def operand_type(self, fr, op):
        if op[0] in ('copy', 'move'):
            t = self.place_type(fr, op[1])
            if t is not None and fr.env:
                t = type_str(subst(parse_type(t), fr.env))
            return t
        if op[0] == 'const':
            m = re.match(r'^-?\d+_(\w+)$', op[1])
            if m:
                return m.group(1)
            if op[1] in ('true', 'false'):
                return 'bool'
            if op[1].startswith("'"):
                return 'char'
        return None

    # ------------------------------------------------------------------ rvalues
    def rvalue(self, fr, rv, dest=None):
        k = rv[0]
        if k == 'use':
            return self.operand(fr, rv[1])
        if k == 'ref':
            pl = rv[2]
            return self.make_ref(fr, pl)
        if k == 'binop':
            return self.binop(fr, rv[1], rv[2], rv[3])
        if k == 'unop':
            return self.unop(fr, rv[1], rv[2])
        if k == 'discriminant':
            v = self.read(fr, rv[1])
            if isinstance(v, Coroutine):
                return v.state
            if isinstance(v, Adt):
                d = v.vidx
                if d < 0:
                    return d + (1 << 8)         # Ordering: i8
                return d
            raise Unsupported('discriminant of %s' % type(v).__name__)
        if k == 'cast':
            return self.cast(fr, rv[1], rv[2], rv[3])
        if k == 'tuple':
            return Tup([self.operand(fr, o) for o in rv[1]])
        if k == 'array':
            return Array([self.operand(fr, o) for o in rv[1]])
        if k == 'repeat':
            n = rv[2]
            if not n.isdigit():
                cv = self.const(n.replace('const ', ''), fr)
                n = cv
            v = self.operand(fr, rv[1])
            return Array([copy_value(v) for _ in range(int(n))])
        if k == 'adt':
            return self.aggregate(fr, rv[1], rv[2], rv[3])
        if k == 'closure':
            loc = rv[1][9:rv[1].index('}')]
            f = self.prog.closure_fn(loc)
            ups = [self.operand(fr, o) for _, o in rv[2]]
            if f is None:
                raise Unsupported('closure body not found: ' + loc)
            c = Closure(f, ups, [n for n, _ in rv[2]], loc)
            c_env = dict(fr.env)
            return ClosureWithEnv(c, c_env) if False else set_closure_env(c, c_env)
        if k == 'coroutine':
            loc = rv[1][rv[1].index('@') + 1:-1].replace(' (#0)', '')
            body = getattr(self.prog, 'body_by_loc', {}).get(loc) or self.coroutine_body(fr.func)
            ups = [self.operand(fr, o) for _, o in rv[2]]
            return Coroutine(body, ups, [n for n, _ in rv[2]], dict(fr.env))
        if k == 'len':
            return seq_len(self.read(fr, rv[1]))
        raise Unsupported('rvalue ' + k)

    def coroutine_body(self, func):
        name = func.name + '::{closure#0}'
        f = self.prog.funcs.get(name) or self.prog.funcs.get((func.crate or '') + '::' + name)
        if f is None:
            for lst in self.prog.multi.values():
                for g in lst:
                    if g.name == name:
                        return g
            raise Unsupported('coroutine body of ' + func.name)
        return f

    def make_ref(self, fr, pl):
        base, projs = pl
        # `&(*_x)` reborrow of a fat pointer or plain ref: same pointer
        if projs and projs[-1][0] == 'deref':
            inner = self.read(fr, (base, projs[:-1]))
            if isinstance(inner, (SliceRef, Ref)):
                return inner
            if isinstance(inner, Pin):
                return inner.ptr
            if isinstance(inner, (StrBuf, ByteBuf)):
                return inner.as_ref()
            if isinstance(inner, BoxObj):
                if isinstance(inner.v, (StrBuf,)) :
                    return inner.v.as_ref()
                return Ref(AttrLoc(inner, 'v'))
        loc = self.place_loc(fr, pl)
        if isinstance(loc, ValLoc) and isinstance(loc.v, SliceRef):
            return loc.v
        return Ref(loc)

    def aggregate(self, fr, path, names, ops):
        vals = [self.operand(fr, o) for o in ops]
        p = strip_generics_text(strip_lifetimes(path))
        segs = p.split('::')
        last = segs[-1]
        if len(segs) >= 2:
            vi = self.prog.variant_index(segs[-2], last)
            if vi is not None:
                ty = segs[-2]
                if ty in rtypes.AMBIG and len(segs) >= 3:
                    ty = segs[-3] + '::' + ty
                return Adt(ty, last, vi, vals, names)
        if last in rtypes.AMBIG and len(segs) >= 2:
            last = segs[-2] + '::' + last
        targs = ()
        if path.endswith('>') and last.split('::')[-1] in self.prog.structs:
            t = parse_type(path)
            if t[0] == 'path' and t[2]:
                targs = tuple(subst(a, fr.env) for a in t[2]) if fr.env else t[2]
        return Adt(last, None, 0, vals, names, targs)

    # ------------------------------------------------------------------ arithmetic
    def binop(self, fr, op, a_op, b_op):
        a = self.operand(fr, a_op)
        b = self.operand(fr, b_op)
        ty = self.operand_type(fr, a_op) or self.operand_type(fr, b_op)
        return self.binop_vals(op, a, b, ty)

    def binop_vals(self, op, a, b, ty):
        if op in ('Eq', 'Ne'):
            if isinstance(a, float) or isinstance(b, float) or (is_sym(a) and z3.is_real(a)) or (is_sym(b) and z3.is_real(b)):
                ra = realval(to_fp(a)); rb = realval(to_fp(b))
                r = (a == b) if (not is_sym(a) and not is_sym(b)) else (False if ra is None or rb is None else simp(ra == rb))
            elif isinstance(a, Adt) or isinstance(b, Adt):
                raise Unsupported('Eq on aggregates')
            else:
                r = int_eq(a, b)
            return r if op == 'Eq' else b_not(r)
        info = int_info(ty)
        if info is None:
            if ty in ('f64', 'f32') or isinstance(a, float) or isinstance(b, float) or (is_sym(a) and (z3.is_fp(a) or z3.is_real(a))) or (is_sym(b) and z3.is_real(b)):
                return self.float_binop(op, a, b)
            if is_sym(a) and z3.is_bv(a):
                info = (a.size(), False)
            elif is_sym(b) and z3.is_bv(b):
                info = (b.size(), False)
            else:
                raise Unsupported('binop %s on unknown type %s' % (op, ty))
        bits, signed = info
        if ty == 'bool':
            a = to_bool(a); b = to_bool(b)
            if op == 'BitAnd':
                return b_and(a, b)
            if op == 'BitOr':
                return b_or(a, b)
            if op == 'BitXor':
                return b_not(int_eq(a, b))
            raise Unsupported('bool binop ' + op)
        sym = is_sym(a) or is_sym(b)
        mask = (1 << bits) - 1
        if not sym:
            sa = to_signed(a, bits) if signed else a
            sb = to_signed(b, bits) if signed else b
            if op in ('Lt', 'Le', 'Gt', 'Ge'):
                return {'Lt': sa < sb, 'Le': sa <= sb, 'Gt': sa > sb, 'Ge': sa >= sb}[op]
            if op == 'Cmp':
                c = -1 if sa < sb else (1 if sa > sb else 0)
                return Adt('Ordering', {-1: 'Less', 0: 'Equal', 1: 'Greater'}[c], c, [])
            if op in ('Add', 'AddUnchecked', 'AddWithOverflow'):
                r = sa + sb
            elif op in ('Sub', 'SubUnchecked', 'SubWithOverflow'):
                r = sa - sb
            elif op in ('Mul', 'MulUnchecked', 'MulWithOverflow'):
                r = sa * sb
            elif op == 'Div':
                if sb == 0:
                    raise Panic('attempt to divide by zero')
                r = abs(sa) // abs(sb) * (1 if (sa < 0) == (sb < 0) else -1)
            elif op == 'Rem':
                if sb == 0:
                    raise Panic('attempt to calculate the remainder with a divisor of zero')
                r = abs(sa) % abs(sb) * (1 if sa >= 0 else -1)
            elif op == 'BitAnd':
                r = a & b
            elif op == 'BitOr':
                r = a | b
            elif op == 'BitXor':
                r = a ^ b
            elif op in ('Shl', 'ShlUnchecked'):
                r = a << (b % bits)
            elif op in ('Shr', 'ShrUnchecked'):
                r = sa >> (b % bits)
            else:
                raise Unsupported('binop ' + op)
            if op.endswith('WithOverflow'):
                lo, hi = (-(1 << (bits - 1)), (1 << (bits - 1)) - 1) if signed else (0, mask)
                return Tup([r & mask, not (lo <= r <= hi)])
            return r & mask
        A = bv(a, bits); B = bv(b, bits)
        if op in ('Lt', 'Le', 'Gt', 'Ge'):
            if signed:
                r = {'Lt': A < B, 'Le': A <= B, 'Gt': A > B, 'Ge': A >= B}[op]
            else:
                r = {'Lt': z3.ULT(A, B), 'Le': z3.ULE(A, B), 'Gt': z3.UGT(A, B), 'Ge': z3.UGE(A, B)}[op]
            return simp(r)
        if op == 'Cmp':
            lt = (A < B) if signed else z3.ULT(A, B)
            if self.ctx.decide(lt):
                return Adt('Ordering', 'Less', -1, [])
            if self.ctx.decide(A == B):
                return Adt('Ordering', 'Equal', 0, [])
            return Adt('Ordering', 'Greater', 1, [])
        if op in ('Add', 'AddUnchecked'):
            return simp(A + B)
        if op in ('Sub', 'SubUnchecked'):
            return simp(A - B)
        if op in ('Mul', 'MulUnchecked'):
            return simp(A * B)
        if op == 'AddWithOverflow':
            ov = z3.Not(z3.BVAddNoOverflow(A, B, signed)) if not signed else z3.Or(z3.Not(z3.BVAddNoOverflow(A, B, True)), z3.Not(z3.BVAddNoUnderflow(A, B)))
            return Tup([simp(A + B), simp(ov)])
        if op == 'SubWithOverflow':
            ov = z3.ULT(A, B) if not signed else z3.Or(z3.Not(z3.BVSubNoOverflow(A, B)), z3.Not(z3.BVSubNoUnderflow(A, B, True)))
            return Tup([simp(A - B), simp(ov)])
        if op == 'MulWithOverflow':
            ov = z3.Not(z3.BVMulNoOverflow(A, B, signed))
            if signed:
                ov = z3.Or(ov, z3.Not(z3.BVMulNoUnderflow(A, B)))
            return Tup([simp(A * B), simp(ov)])
        if op == 'Div':
            if self.ctx.decide(B == 0):
                raise Panic('attempt to divide by zero')
            return simp(A / B if signed else z3.UDiv(A, B))
        if op == 'Rem':
            if self.ctx.decide(B == 0):
                raise Panic('attempt to calculate the remainder with a divisor of zero')
            return simp(z3.SRem(A, B) if signed else z3.URem(A, B))
        if op == 'BitAnd':
            return simp(A & B)
        if op == 'BitOr':
            return simp(A | B)
        if op == 'BitXor':
            return simp(A ^ B)
        if op in ('Shl', 'ShlUnchecked'):
            return simp(A << B)
        if op in ('Shr', 'ShrUnchecked'):
            return simp(A >> B if signed else z3.LShR(A, B))
        raise Unsupported('symbolic binop ' + op)

    def float_binop(self, op, a, b):
        """f64 operations.  Concrete floats: python floats (IEEE double).  Symbolic floats are z3 Reals standing for a
        finite, non-NaN f64 (an over-approximation: every f64 is a real); only comparisons are supported on them."""
        fa = to_fp(a); fb = to_fp(b)
        if not is_sym(fa) and not is_sym(fb):
            if op in ('Lt', 'Le', 'Gt', 'Ge'):
                return {'Lt': fa < fb, 'Le': fa <= fb, 'Gt': fa > fb, 'Ge': fa >= fb}[op]
            try:
                return {'Add': lambda: fa + fb, 'Sub': lambda: fa - fb, 'Mul': lambda: fa * fb,
                        'Div': lambda: fa / fb if fb != 0 else (float('nan') if fa == 0 or fa != fa else float('inf') * (1 if (fa > 0) == (str(fb)[0] != '-') else -1)),
                        'Rem': lambda: __import__('math').fmod(fa, fb)}[op]()
            except OverflowError:
                return float('inf')
        ra = realval(fa); rb = realval(fb)
        if ra is None or rb is None:
            # comparison of a finite symbolic value with NaN / inf
            other = fa if not is_sym(fa) else fb
            sym_left = is_sym(fa)
            if other != other:
                return False
            big = other > 0
            if op in ('Lt', 'Le'):
                return big if sym_left else not big
            if op in ('Gt', 'Ge'):
                return (not big) if sym_left else big
            raise Unsupported('float arithmetic with infinity')
        if op == 'Lt': return simp(ra < rb)
        if op == 'Le': return simp(ra <= rb)
        if op == 'Gt': return simp(ra > rb)
        if op == 'Ge': return simp(ra >= rb)
        raise Unsupported('arithmetic on a symbolic f64 (%s)' % op)

    def unop(self, fr, op, a_op):
        a = self.operand(fr, a_op)
        if op == 'Not':
            ty = self.operand_type(fr, a_op)
            if isinstance(a, bool) or (is_sym(a) and z3.is_bool(a)):
                return b_not(a)
            info = int_info(ty)
            if info is None:
                raise Unsupported('Not on ' + str(ty))
            if is_sym(a):
                return ~a
            return ~a & ((1 << info[0]) - 1)
        if op == 'Neg':
            ty = self.operand_type(fr, a_op)
            if isinstance(a, float):
                return -a
            info = int_info(ty)
            if is_sym(a):
                return -a
            return (-a) & ((1 << info[0]) - 1)
        if op == 'PtrMetadata':
            return seq_len(a)
        raise Unsupported('unop ' + op)

    def cast(self, fr, kind, op, ty):
        v = self.operand(fr, op)
        if kind in ('Transmute', 'Subtype', 'PtrToPtr', 'PointerCoercion', 'FnPtrToPtr'):
            if kind == 'PointerCoercion' and isinstance(v, Ref):
                # unsizing &[T; N] -> &[T], &String stays
                t = v.get() if True else None
                if isinstance(t, Array):
                    return SliceRef(t.items, 0, len(t.items), 'slice')
            if kind == 'PointerCoercion' and isinstance(v, BoxObj) and isinstance(v.v, Array):
                return v
            return v
        if kind == 'IntToInt':
            src = int_info(self.operand_type(fr, op))
            dst = int_info(ty)
            if dst is None:
                raise Unsupported('cast to ' + ty)
            if isinstance(v, bool) or (is_sym(v) and z3.is_bool(v)):
                v = bv(v, dst[0]) if is_sym(v) else int(v)
                return v
            if is_sym(v):
                s = v.size()
                if s == dst[0]:
                    return v
                if s > dst[0]:
                    return simp(z3.Extract(dst[0] - 1, 0, v))
                if src and src[1]:
                    return simp(z3.SignExt(dst[0] - s, v))
                return simp(z3.ZeroExt(dst[0] - s, v))
            if src and src[1]:
                v = to_signed(v, src[0])
            return v & ((1 << dst[0]) - 1)
        if kind == 'IntToFloat':
            src = int_info(self.operand_type(fr, op))
            if is_sym(v):
                return z3.fpToFP(z3.RNE(), v, z3.Float64()) if (src and src[1]) else z3.fpToFPUnsigned(z3.RNE(), v, z3.Float64())
            if src and src[1]:
                v = to_signed(v, src[0])
            return float(v)
        if kind == 'FloatToFloat':
            return v
        if kind == 'FloatToInt':
            dst = int_info(ty)
            if dst is None:
                raise Unsupported('cast to ' + ty)
            bits, signed = dst
            lo, hi = ((-(1 << (bits - 1))), (1 << (bits - 1)) - 1) if signed else (0, (1 << bits) - 1)
            if is_sym(v):
                raise Unsupported('symbolic float to int cast')
            if v != v:
                return 0
            if v >= hi:
                return hi & ((1 << bits) - 1)
            if v <= lo:
                return lo & ((1 << bits) - 1)
            import math
            return math.trunc(v) & ((1 << bits) - 1)
        raise Unsupported('cast ' + kind)

    # ------------------------------------------------------------------ execution
    def run(self, func, args, env):
        """execute repo function `func` with argument values; returns its result"""
        st = self.stats
        st.calls += 1
        st.funcs[func.name] = st.funcs.get(func.name, 0) + 1
        if self.trace_calls:
            print('  ' * self.depth + '-> ' + func.name[-100:], [short(a) for a in args], env and {k: type_str(v) for k, v in env.items()})
        fr = Frame(func, env)
        L = fr.locals
        if len(args) != len(func.args):
            raise InternalError('arity mismatch calling %s: %d args for %d params' % (func.name, len(args), len(func.args)))
        for n, a in zip(func.args, args):
            L[n] = a
        blocks = func.blocks
        bb = 'bb0'
        self.depth += 1
        if self.depth > 400:
            raise Unsupported('call depth limit')
        try:
            while True:
                stmts, term, _ = blocks[bb]
                for s in stmts:
                    st.steps += 1
                    if s[0] == 'assign':
                        v = self.rvalue(fr, s[2])
                        pl = s[1]
                        if not pl[1]:
                            L[pl[0]] = v
                        else:
                            self.place_loc(fr, pl).set(v)
                    else:   # setdisc
                        o = self.read(fr, s[1])
                        if isinstance(o, Coroutine):
                            o.state = s[2]
                        elif isinstance(o, Adt):
                            self.set_discriminant(o, s[2], fr, s[1])
                        else:
                            raise Unsupported('SetDiscriminant on %s' % type(o).__name__)
                st.steps += 1
                if st.steps > self.max_steps:
                    raise Unsupported('step limit reached')
                t = term[0]
                if t == 'goto':
                    bb = term[1]
                elif t == 'switch':
                    bb = self.switch(fr, term)
                elif t == 'call':
                    dest, callee, aops, ret = term[1], term[2], term[3], term[4]
                    argv = [self.operand(fr, o) for o in aops]
                    r = self.call(callee, argv, fr)
                    if ret is None:
                        raise InternalError('diverging call returned: ' + callee)
                    if dest is not None:
                        if not dest[1]:
                            L[dest[0]] = r
                        else:
                            self.place_loc(fr, dest).set(r)
                    bb = ret
                elif t == 'return':
                    r = L.get('_0', UNIT)
                    if self.trace_calls:
                        print('  ' * self.depth + '<- ', short(r))
                    return r
                elif t == 'drop':
                    self.drop_place(fr, term[1])
                    bb = term[2]
                elif t == 'assert':
                    v = to_bool(self.operand(fr, term[1]))
                    okc = b_not(v) if term[2] else v
                    if not self.ctx.decide(okc):
                        raise Panic('assertion failed: ' + term[3], func.name)
                    bb = term[4]
                elif t == 'unreachable':
                    raise InternalError('reached `unreachable` in %s %s' % (func.name, bb))
                elif t == 'resume':
                    raise InternalError('reached `resume` in ' + func.name)
                else:
                    raise Unsupported('terminator ' + t)
        finally:
            self.depth -= 1

    def set_discriminant(self, o, d, fr, pl):
        ty = o.ty.split('::')[-1]
        names = None
        if ty in self.prog.enums:
            for vs in self.prog.enums[ty]:
                if o.variant in vs or True:
                    names = vs
                    break
        if names is None:
            from program import STD_ENUMS
            names = STD_ENUMS.get(ty)
        if names is None or d >= len(names):
            raise Unsupported('SetDiscriminant on ' + ty)
        o.variant = names[d]
        o.vidx = d

    def switch(self, fr, term):
        v = self.operand(fr, term[1])
        cases, other = term[2], term[3]
        if not is_sym(v):
            if isinstance(v, bool):
                v = int(v)
            for val, t in cases:
                if v == val:
                    return t
            if other is None:
                raise InternalError('switchInt without matching target')
            return other
        isb = z3.is_bool(v)
        if isb and len(cases) == 1 and other is not None and self.merge_enabled:
            m = self.try_merge(fr, v if cases[0][0] else z3.Not(v), cases[0][1], other)
            if m is not None:
                return m
        for val, t in cases:
            if isb:
                c = v if val else z3.Not(v)
            else:
                c = v == z3.BitVecVal(val, v.size())
            if self.ctx.decide(c):
                return t
        if other is None:
            raise InternalError('switchInt without matching target')
        return other

    # ------------------------------------------------------------------ merging of pure diamonds
    PURE_RV = ('use', 'binop', 'unop')
    def try_merge(self, fr, cond, bb_then, bb_else):
        """`switchInt` on a symbolic bool whose two continuations are side-effect free scalar computations that meet
        again (the lowering of `a || b`, `a && b`, `if c {x} else {y}` on scalars): evaluate both and merge the
        assigned locals with ite instead of forking.  Returns the join block or None (then the caller forks)."""
        budget = [64]
        a = self.pure_region(fr, bb_then, dict(fr.locals), budget)
        if a is None:
            return None
        b = self.pure_region(fr, bb_else, dict(fr.locals), budget)
        if b is None or a[0] != b[0]:
            return None
        join, la = a
        lb = b[1]
        merged = {}
        dead = []
        for k in set(la) | set(lb):
            x = la.get(k, UNINIT); y = lb.get(k, UNINIT)
            if x is y:
                continue
            if x is fr.locals.get(k, UNINIT) and y is fr.locals.get(k, UNINIT):
                continue
            if x is UNINIT or y is UNINIT:
                dead.append(k)
                continue
            if not (is_scalar(x) and is_scalar(y)):
                return None
            merged[k] = ite(cond, x, y)
        fr.locals.update(merged)
        for k in dead:
            fr.locals.pop(k, None)
        self.stats.merges = getattr(self.stats, 'merges', 0) + 1
        return join

    def pure_region(self, fr, bb, locs, budget):
        """execute pure blocks starting at bb on the local map `locs`; returns (exit block, locals) where the exit block
        is the first block ending in `return` (not executed) - or None if anything impure is met"""
        blocks = fr.func.blocks
        tmp = Frame(fr.func, fr.env)
        tmp.locals = locs
        while True:
            budget[0] -= 1
            if budget[0] < 0:
                return None
            stmts, term, _ = blocks[bb]
            if term[0] == 'return' and not stmts:
                return bb, locs
            for s in stmts:
                if s[0] != 'assign' or s[1][1] or s[2][0] not in self.PURE_RV:
                    return None
                rv = s[2]
                ops = rv[1:] if rv[0] == 'use' else rv[2:]
                for o in ops:
                    if o[0] in ('copy', 'move') and o[1][1]:
                        return None
                    if o[0] == 'fnitem':
                        return None
                    if o[0] == 'const' and not re.match(r"^(-?\d+_\w+|true|false|'.*')$", o[1]):
                        return None
                if rv[0] == 'binop' and rv[1] in ('Div', 'Rem', 'Cmp') or rv[0] == 'binop' and rv[1].endswith('WithOverflow'):
                    return None
                try:
                    v = self.rvalue(tmp, rv)
                except (InternalError, Unsupported, KeyError):
                    return None
                if not is_scalar(v):
                    return None
                locs[s[1][0]] = v
            t = term[0]
            if t == 'goto':
                bb = term[1]
            elif t == 'return':
                return None
            elif t == 'switch':
                v = self.operand(tmp, term[1]) if term[1][0] != 'const' and not term[1][1][1] else None
                if v is None:
                    return None
                cases, other = term[2], term[3]
                if not is_sym(v):
                    if isinstance(v, bool):
                        v = int(v)
                    nxt = other
                    for val, tg in cases:
                        if v == val:
                            nxt = tg
                    if nxt is None:
                        return None
                    bb = nxt
                    continue
                if other is None or len(cases) > 8:
                    return None
                if z3.is_bool(v):
                    if len(cases) != 1:
                        return None
                    conds = [v if cases[0][0] else z3.Not(v)]
                else:
                    conds = [v == z3.BitVecVal(val, v.size()) for val, _ in cases]
                # evaluate the default continuation, then fold the cases over it (first matching case wins)
                acc = self.pure_region(fr, other, dict(locs), budget)
                if acc is None:
                    return None
                join, lacc = acc
                done = {}
                for c, (_, tg) in reversed(list(zip(conds, cases))):
                    a = done.get(tg)
                    if a is None:
                        a = self.pure_region(fr, tg, dict(locs), budget)
                        if a is None or a[0] != join:
                            return None
                        done[tg] = a
                    la = a[1]
                    merged = {}
                    for k in set(la) | set(lacc):
                        x = la.get(k, UNINIT); y = lacc.get(k, UNINIT)
                        if x is y:
                            merged[k] = x
                            continue
                        if x is UNINIT or y is UNINIT:
                            continue          # a temporary assigned on one side only: dead after the join (left unassigned: a read is reported)
                        if not (is_scalar(x) and is_scalar(y)):
                            return None
                        merged[k] = ite(c, x, y)
                    lacc = merged
                return join, lacc
            else:
                return None

    # ------------------------------------------------------------------ drops
    def drop_place(self, fr, pl):
        try:
            v = self.read(fr, pl)
        except (InternalError, KeyError):
            return
        self.drop_value(v)

    def drop_value(self, v):
        """run the observable part of drop glue: only library objects with drop effects matter"""
        if isinstance(v, (int, bool, float, SliceRef, Ref, StrBuf, ByteBuf, Zst, FnItem, Uninit)) or is_sym(v) or v is None:
            return
        if isinstance(v, tuple):
            return
        d = getattr(v, 'on_drop', None)
        if d is not None:
            d(self)
            return
        if isinstance(v, Adt):
            for f in v.fields:
                self.drop_value(f)
        elif isinstance(v, Tup):
            for f in v.items:
                self.drop_value(f)
        elif isinstance(v, Array):
            for f in v.items:
                self.drop_value(f)
        elif isinstance(v, VecObj):
            for f in v.v:
                self.drop_value(f)
        elif isinstance(v, BoxObj):
            if v.kind != 'Arc':
                self.drop_value(v.v)
        elif isinstance(v, Closure):
            for f in v.upvars:
                self.drop_value(f)
        elif isinstance(v, Coroutine):
            self.drop_coroutine(v)
        elif isinstance(v, Pin):
            pass

    def drop_coroutine(self, co):
        """drop of a suspended / unresumed coroutine: its live fields are dropped.
        Unresumed: the upvars.  Suspended at state n: the slots saved for variant n plus upvars not yet moved.
        (approximation of the coroutine_drop shim: slots are removed from `saved` when the MIR moves out of them
        only through explicit `drop`; values with drop effects are idempotent on double drop)"""
        if co.state in (1, 2):
            return
        if co.state == 0:
            for u in co.upvars:
                self.drop_value(u)
            co.state = 1
            return
        var = 'variant#%d' % co.state
        for (vn, i), val in list(co.saved.items()):
            if vn == var:
                self.drop_value(val)
        for u in co.upvars:
            if isinstance(u, (Ref, SliceRef)):
                continue
            self.drop_value(u)
        co.state = 1

    # ------------------------------------------------------------------ calls
    def call(self, callee_text, args, fr):
        """dispatch a MIR call: repo function, closure, harness function or library model"""
        h = self.harness_fns.get(callee_text)
        if h is not None:
            return h(self, args)
        c = parse_callee(callee_text)
        env = fr.env if fr is not None else {}
        self._caller_crate = getattr(fr, 'crate', None) if fr is not None else None
        r = self.resolve_repo(c, env, args)
        if r is not None:
            func, cenv = r
            return self.run(func, args, cenv)
        if c.trait is None and c.qself is None:
            # enum variant / tuple struct constructors used as functions (`Option::map(x, SongId)`, `.map(Ok)`)
            segs = [nm for nm, _ in c.segs]
            last = segs[-1]
            if len(segs) >= 2:
                vi = self.prog.variant_index(segs[-2], last)
                if vi is not None:
                    ty = segs[-2]
                    if ty in rtypes.AMBIG and len(segs) >= 3:
                        ty = segs[-3] + '::' + ty
                    return Adt(ty, last, vi, list(args))
            if last in self.prog.structs and last[:1].isupper() and (last,) not in [k for k in ()]:
                if not any(k == last for k in MODELS):
                    return Adt(last, None, 0, list(args))
        return self.call_model(c, args, fr)

    def call_model(self, c, args, fr):
        for key in callee_keys(c):
            f = MODELS.get(key)
            if f is not None:
                self.stats.models[key] = self.stats.models.get(key, 0) + 1
                if self.trace_calls:
                    print('  ' * self.depth + '~ ' + key, [short(a) for a in args])
                r = f(self, c, args, fr)
                if self.trace_calls:
                    print('  ' * self.depth + '  = ', short(r))
                return r
        raise Unsupported('no model for `%s` (keys %s)' % (c.text[:200], callee_keys(c)[:3]))

    def resolve_repo(self, c, env, args):
        P = self.prog
        if c.trait is not None:
            tname = c.trait[0].split('::')[-1]
            if (tname, c.name) not in P.impl_methods:
                return None
            st = subst(c.qself, env) if env else c.qself
            targs = tuple(subst(a, env) for a in c.trait[1]) if env else c.trait[1]
            hit = P.find_impl(tname, c.name, st, targs)
            if hit is None and args:
                # Self is an unresolved parameter (harness entry) or a reference chain: use the runtime receiver
                rt = runtime_type(args[0])
                if rt is not None:
                    hit = P.find_impl(tname, c.name, rt, targs)
            if hit is None:
                return None
            e, ienv = hit
            cenv = dict(ienv)
            self.bind_fn_generics(e.fn_params, c.targs, env, cenv)
            return e.func, cenv
        # inherent method or free function
        segs = []
        targ_list = []
        for nm, ta in c.segs:
            if nm == '<impl>':
                return None
            segs.append(nm)
            targ_list.append(ta)
        if c.qself is not None:
            st = subst(c.qself, env) if env else c.qself
            hit = P.find_impl(None, c.name, st)
            if hit:
                e, ienv = hit
                cenv = dict(ienv)
                self.bind_fn_generics(e.fn_params, c.targs, env, cenv)
                return e.func, cenv
            return None
        if len(segs) >= 2 and (None, segs[-1]) in P.impl_methods:
            tyname = segs[-2]
            if not is_foreign_path(segs):
                tt = ('path', '::'.join(segs[:-1]), tuple(subst(a, env) for a in targ_list[-2]) if env else targ_list[-2])
                hit = P.find_impl(None, segs[-1], tt)
                if hit:
                    e, ienv = hit
                    cenv = dict(ienv)
                    self.bind_fn_generics(e.fn_params, c.targs, env, cenv)
                    return e.func, cenv
        if is_foreign_path(segs):
            return None
        f = P.find_free(tuple(segs), getattr(self, '_caller_crate', None))
        if f is not None:
            # a free fn match must not shadow a library path such as `Option::map`: require that the
            # path has no capitalised type segment unless it is a tuple-struct constructor
            if len(segs) >= 2 and segs[-2][:1].isupper() and len(f.name.split('::')) < 2:
                return None
            cenv = {}
            params = P.free_fn_generics(f) if c.targs else ()
            self.bind_fn_generics(params, c.targs, env, cenv)
            return f, cenv
        return None

    def bind_fn_generics(self, params, targs, env, cenv):
        if not params or not targs:
            return
        for p, t in zip(params, targs):
            cenv[p] = subst(t, env) if env else t

    # ------------------------------------------------------------------ calling values
    def call_value(self, f, args, fr=None):
        """call a callable value (closure, fn item, harness function) with a list of argument values"""
        if isinstance(f, Ref):
            f = f.get()
        if isinstance(f, Closure):
            env = getattr_env(f)
            fn = f.fn
            first = fn.argtypes[0] if fn.argtypes else ''
            selfarg = f if not first.lstrip().startswith('&') else ref_to(f)
            return self.run(fn, [selfarg] + list(args), env)
        if isinstance(f, FnItem):
            ffr = Frame(None, f.env, f.crate)
            return self.call(f.text, list(args), ffr)
        if isinstance(f, PyFn):
            return f.f(self, *args)
        if isinstance(f, Zst):
            t = f.ty
            if t.startswith('{closure@'):
                loc = t[9:t.index('}')]
                fn = self.prog.closure_fn(loc)
                if fn is not None:
                    return self.call_value(Closure(fn, [], [], loc), args)
        raise Unsupported('call of %r' % (f,))

CLOSURE_ENVS = {}
def set_closure_env(c, env):
    if env:
        c.names = (c.names, env) if False else c.names
        CLOSURE_ENV_ATTR[id(c)] = (c, env)
    return c
CLOSURE_ENV_ATTR = {}
def getattr_env(c):
    e = CLOSURE_ENV_ATTR.get(id(c))
    if e is not None and e[0] is c:
        return e[1]
    return {}

def reset_path_state():
    CLOSURE_ENV_ATTR.clear()

# ============================================================================ helpers
def simp(e):
    return z3.simplify(e)

def is_scalar(v):
    return isinstance(v, (int, bool)) and not isinstance(v, float) or (is_sym(v) and (z3.is_bool(v) or z3.is_bv(v)))


def ite(c, x, y):
    """scalar merge"""
    bx = isinstance(x, bool) or (is_sym(x) and z3.is_bool(x))
    by = isinstance(y, bool) or (is_sym(y) and z3.is_bool(y))
    if bx or by:
        X = x if is_sym(x) else z3.BoolVal(bool(x))
        Y = y if is_sym(y) else z3.BoolVal(bool(y))
        return z3.simplify(z3.If(c, X, Y))
    n = x.size() if is_sym(x) else (y.size() if is_sym(y) else 64)
    return z3.simplify(z3.If(c, bv(x, n), bv(y, n)))

def to_signed(v, bits):
    return v - (1 << bits) if v >> (bits - 1) else v

def to_fp(v):
    if isinstance(v, (int, float)) and not isinstance(v, bool):
        return float(v)
    return v

def fpval(v):
    if isinstance(v, float):
        return z3.FPVal(v, z3.Float64())
    return v

def realval(v):
    """z3 Real for a concrete finite float / symbolic real; None for NaN and infinities"""
    if is_sym(v):
        return v
    if v != v or v in (float('inf'), float('-inf')):
        return None
    from fractions import Fraction
    fr_ = Fraction(v)
    return z3.RealVal(fr_.numerator) / z3.RealVal(fr_.denominator)

def seq_len(v):
    if isinstance(v, Ref):
        v = v.get()
    if isinstance(v, SliceRef):
        items = v.items()
        if v.kind == 'str' or has_wide(items):
            return len_term(items)
        return len(v)
    if isinstance(v, (StrBuf, ByteBuf)):
        return len_term(v.b)
    if isinstance(v, Array):
        return len(v.items)
    if isinstance(v, VecObj):
        return len(v.v)
    raise Unsupported('length of %s' % type(v).__name__)

def elem_len(x):
    if isinstance(x, WChar):
        return x.n
    if isinstance(x, (DecRun, FloatLit)):
        raise Unsupported('length of a string containing a symbolic number')
    return 1

def has_wide(items):
    return any(isinstance(x, (WChar, DecRun, FloatLit)) for x in items)

def digits_term(x):
    """number of decimal digits of the DecRun's value, as a 64-bit term (an if-chain over the value)"""
    v = x.val
    if not is_sym(v):
        return len(str(int(v)))
    bits = v.size()
    t = z3.BitVecVal(1, 64)
    k = 1
    p = 10
    while p < (1 << bits):
        k += 1
        t = z3.If(z3.UGE(v, z3.BitVecVal(p, bits)), z3.BitVecVal(k, 64), t)
        p *= 10
    return t

def len_term(items):
    """byte length of string/byte elements: a python int, or a 64-bit term when symbolic numbers are part of the text"""
    n = 0
    terms = []
    for x in items:
        if isinstance(x, DecRun):
            d = digits_term(x)
            if is_sym(d): terms.append(d)
            else: n += d
        elif isinstance(x, FloatLit) and x.lenv is not None:
            terms.append(x.lenv)
        else:
            n += elem_len(x)
    if not terms:
        return n
    t = z3.BitVecVal(n, 64)
    for d in terms:
        t = t + d
    return z3.simplify(t)

def resolve_offset(I, items, off):
    """element index of byte offset `off` in `items`; None when the offset is beyond the end.  Offsets that are not on an
    element boundary (inside a multi-byte element) are not supported."""
    if not is_sym(off) and not any(isinstance(x, DecRun) and is_sym(x.val) for x in items):
        pos = 0
        for i, x in enumerate(items):
            if pos == off:
                return i
            pos += digits_term(x) if isinstance(x, DecRun) else elem_len(x)
        if pos == off:
            return len(items)
        if off > pos:
            return None
        raise Unsupported('byte offset inside a multi-byte element')
    o = bv(off, 64)
    for i in range(len(items) + 1):
        p = bv(len_term(items[:i]), 64)
        d = z3.simplify(p - o)
        if z3.is_bv_value(d):
            if d.as_long() == 0:
                return i
            continue
        if I.ctx.must(p == o):
            return i
    if I.ctx.must(z3.UGT(o, bv(len_term(items), 64))):
        return None
    raise Unsupported('symbolic byte offset does not resolve to an element boundary')

def strip_generics_text(s):
    out = []
    depth = 0
    i = 0
    n = len(s)
    while i < n:
        c = s[i]
        if c == '<':
            # keep `<impl at ...>` segments verbatim
            if s.startswith('<impl at ', i):
                k = s.index('>', i)
                out.append(s[i:k+1]); i = k + 1; continue
            depth += 1
        elif c == '>' and s[i-1] not in '-=':
            depth -= 1
        elif depth == 0:
            out.append(c)
        i += 1
    r = ''.join(out)
    while '::::' in r:
        r = r.replace('::::', '::')
    return r.rstrip(':')

FOREIGN_ROOTS = {'std', 'core', 'alloc', 'nom', 'tokio', 'bytes', 'tracing', 'ahash'}
FOREIGN_TYPES = {'Option', 'Result', 'Vec', 'String', 'Box', 'Arc', 'BytesMut', 'Bytes', 'HashMap', 'HashSet', 'Pin',
                 'Poll', 'Formatter', 'Arguments', 'Duration', 'Cow', 'Iterator', 'Rc', 'Cell', 'RefCell', 'Peekable',
                 'UnboundedSender', 'UnboundedReceiver', 'Sender', 'Receiver', 'DebugList', 'DebugMap', 'DebugStruct',
                 'DebugTuple', 'DebugSet', 'Argument', 'Utf8Error', 'ParseIntError', 'ParseFloatError', 'Layout'}
def is_foreign_path(segs):
    if segs[0] in FOREIGN_ROOTS:
        return True
    if len(segs) >= 2 and segs[-2] in FOREIGN_TYPES and segs[0] not in ('mpd_protocol', 'mpd_client', 'crate'):
        return True
    return False

def runtime_type(v):
    """best-effort static type of a runtime value (for dispatch when the MIR gives only a type parameter)"""
    if isinstance(v, Ref):
        try:
            inner = runtime_type(v.get())
        except Exception:
            return None
        return ('ref', False, inner) if inner is not None else None
    if isinstance(v, SliceRef):
        return ('ref', False, ('path', 'str', ())) if v.kind == 'str' else ('ref', False, ('slice', ('path', 'u8', ())))
    if isinstance(v, StrBuf):
        if v.kind == 'String':
            return ('path', 'String', ())
        return ('path', v.kind.split('<')[0], (('path', 'str', ()),))
    if isinstance(v, Adt):
        return ('path', v.ty, v.targs)
    if isinstance(v, bool):
        return ('path', 'bool', ())
    if isinstance(v, Tup):
        ts = [runtime_type(x) for x in v.items]
        if all(t is not None for t in ts):
            return ('tuple', tuple(ts))
        return None
    if isinstance(v, VecObj):
        t = runtime_type(v.v[0]) if v.v else None
        return ('path', 'Vec', (t,)) if t is not None else ('path', 'Vec', ())
    if isinstance(v, TypedInt):
        return ('path', v.ty, ())
    return None

class TypedInt:
    """harness-only wrapper to pass an integer with an explicit Rust type into a generic entry point"""
    __slots__ = ('v', 'ty')
    def __init__(self, v, ty): self.v = v; self.ty = ty

def short(v, n=80):
    try:
        s = repr(v)
    except Exception:
        s = '<%s>' % type(v).__name__
    return s if len(s) <= n else s[:n] + '...'

def parse_str_lit(lit):
    """rust string literal text (with quotes) -> bytes"""
    body = lit[1:-1]
    out = bytearray()
    i = 0
    n = len(body)
    while i < n:
        c = body[i]
        if c == '\\':
            d = body[i+1]
            if d == 'n': out.append(10); i += 2
            elif d == 't': out.append(9); i += 2
            elif d == 'r': out.append(13); i += 2
            elif d == '0': out.append(0); i += 2
            elif d == '\\': out.append(92); i += 2
            elif d == '"': out.append(34); i += 2
            elif d == "'": out.append(39); i += 2
            elif d == 'x': out.append(int(body[i+2:i+4], 16)); i += 4
            elif d == 'u':
                k = body.index('}', i)
                out += chr(int(body[i+3:k], 16)).encode(); i = k + 1
            elif d == '\n':
                i += 2
                while i < n and body[i] in ' \t\n':
                    i += 1
            else:
                raise Unsupported('string escape \\' + d)
        else:
            out += c.encode()
            i += 1
    return bytes(out)

def parse_char_lit(lit):
    b = parse_str_lit('"' + lit[1:-1].replace('"', '\\"') + '"') if lit[1:-1] != '"' else b'"'
    return b.decode()

BUILTIN_CONSTS = {
    'usize::MAX': (1 << 64) - 1, 'u64::MAX': (1 << 64) - 1, 'u32::MAX': (1 << 32) - 1, 'u16::MAX': 65535, 'u8::MAX': 255,
    'core::num::<impl usize>::MAX': (1 << 64) - 1, 'core::num::<impl u64>::MAX': (1 << 64) - 1,
}
def builtin_const(name):
    if name.split('::')[-1] == 'RangeFull':
        return Adt('RangeFull', None, 0, [])
    if name in BUILTIN_CONSTS:
        return BUILTIN_CONSTS[name]
    n = name.replace('std::', '').replace('core::', '')
    if n in ('time::Duration::MAX', 'Duration::MAX'):
        return Adt('Duration', None, 0, [(1 << 64) - 1, 999_999_999], ['secs', 'nanos'])
    if n in ('time::Duration::ZERO', 'Duration::ZERO'):
        return Adt('Duration', None, 0, [0, 0], ['secs', 'nanos'])
    return None

# ---------------------------------------------------------------------------- harness conveniences
def _call_path(self, text, args, env=None):
    """call a function by the path text the MIR would print (harness entry point)"""
    return self.call(text, list(args), Frame(None, env or {}))
Interp.call_path = _call_path

def _repo_only(self, text, args, env=None):
    """like call_path but insists that the callee is a function of the repository"""
    c = parse_callee(text)
    r = self.resolve_repo(c, env or {}, list(args))
    if r is None:
        raise Unsupported('entry point not found in the repository MIR: ' + text)
    return self.run(r[0], list(args), r[1])
Interp.call_repo = _repo_only
