"""Library models: time::Duration, f64, Path."""
import math
from fractions import Fraction
import z3
from values import *
from interp import model, simp, fpval, realval
from models_core import deref, as_slice, as_items

def dur(secs, nanos):
    return Adt('Duration', None, 0, [secs, nanos], ['secs', 'nanos'])

TWO64 = float(2 ** 64)

def sym_duration(I):
    secs = I.ctx.fresh_bv('dur_secs', 64)
    nanos = I.ctx.fresh_bv('dur_nanos', 32)
    I.ctx.assume(z3.ULT(nanos, 1_000_000_000))
    return dur(secs, nanos)

def out_of_range(v):
    return z3.Or(v < 0, v >= z3.RealVal(2 ** 64))

@model('Duration::from_secs_f64')
def m_from_secs_f64(I, c, args, fr):
    v = args[0]
    if is_sym(v):
        if I.ctx.decide(out_of_range(v)):
            raise Panic('cannot convert float seconds to Duration: value is either too big or NaN / negative')
        return sym_duration(I)
    if v != v or v < 0 or v >= TWO64:
        raise Panic('cannot convert float seconds to Duration: value is either too big or NaN / negative')
    return dur(*secs_nanos_of(v))

def secs_nanos_of(v):
    """std's from_secs_f64: exact value of the f64, rounded to the nearest nanosecond (ties to even)"""
    fr_ = Fraction(v)
    total = fr_ * 10 ** 9
    n = total.numerator // total.denominator
    rem = total - n
    if rem > Fraction(1, 2) or (rem == Fraction(1, 2) and n % 2 == 1):
        n += 1
    return n // 10 ** 9, n % 10 ** 9

@model('Duration::try_from_secs_f64')
def m_try_from_secs_f64(I, c, args, fr):
    v = args[0]
    if is_sym(v):
        if I.ctx.decide(out_of_range(v)):
            return err(Opaque('TryFromFloatSecsError'))
        return ok(sym_duration(I))
    if v != v or v < 0 or v >= TWO64:
        return err(Opaque('TryFromFloatSecsError'))
    return ok(dur(*secs_nanos_of(v)))

@model('Duration::as_secs_f64')
def m_as_secs_f64(I, c, args, fr):
    d = deref(args[0])
    s, n = d.fields
    if is_sym(s) or is_sym(n):
        return z3.ToReal(z3.BV2Int(bv(s, 64))) + z3.ToReal(z3.BV2Int(bv(n, 32))) / 1000000000
    return float(s) + float(n) / 1e9

@model('Duration::from_secs')
def m_from_secs(I, c, args, fr):
    return dur(args[0], 0)

@model('Duration::from_millis')
def m_from_millis(I, c, args, fr):
    v = args[0]
    if is_sym(v):
        V = bv(v, 64)
        return dur(simp(z3.UDiv(V, 1000)), simp(z3.Extract(31, 0, z3.URem(V, 1000)) * 1_000_000))
    return dur(v // 1000, (v % 1000) * 1_000_000)

@model('Duration::from_micros')
def m_from_micros(I, c, args, fr):
    v = args[0]
    if is_sym(v):
        raise Unsupported('symbolic from_micros')
    return dur(v // 10 ** 6, (v % 10 ** 6) * 1000)

@model('Duration::from_nanos')
def m_from_nanos(I, c, args, fr):
    v = args[0]
    if is_sym(v):
        raise Unsupported('symbolic from_nanos')
    return dur(v // 10 ** 9, v % 10 ** 9)

@model('Duration::new')
def m_dur_new(I, c, args, fr):
    s, n = args
    if is_sym(s) or is_sym(n):
        raise Unsupported('symbolic Duration::new')
    s += n // 10 ** 9
    if s >= 2 ** 64:
        raise Panic('overflow in Duration::new')
    return dur(s, n % 10 ** 9)

@model('Duration::as_secs')
def m_as_secs(I, c, args, fr):
    return deref(args[0]).fields[0]

@model('Duration::subsec_nanos')
def m_subsec_nanos(I, c, args, fr):
    return deref(args[0]).fields[1]

@model('Duration::subsec_millis')
def m_subsec_millis(I, c, args, fr):
    n = deref(args[0]).fields[1]
    return simp(z3.UDiv(n, 1_000_000)) if is_sym(n) else n // 1_000_000

@model('Duration::as_millis')
def m_as_millis(I, c, args, fr):
    s, n = deref(args[0]).fields
    if is_sym(s) or is_sym(n):
        return simp(z3.ZeroExt(64, bv(s, 64)) * 1000 + z3.ZeroExt(96, z3.UDiv(bv(n, 32), 1_000_000)))
    return s * 1000 + n // 1_000_000

@model('Duration::is_zero')
def m_dur_is_zero(I, c, args, fr):
    s, n = deref(args[0]).fields
    return b_and(int_eq(s, 0), int_eq(n, 0))

@model('f64::is_finite')
def m_is_finite(I, c, args, fr):
    v = args[0]
    if is_sym(v):
        return True
    return not (math.isnan(v) or math.isinf(v))

@model('f64::is_nan', 'f64::is_infinite')
def m_is_nan(I, c, args, fr):
    v = args[0]
    if is_sym(v):
        return False
    return math.isnan(v) if c.name == 'is_nan' else math.isinf(v)

@model('f64::min', 'f64::max', 'f64::clamp')
def m_fmin(I, c, args, fr):
    if c.name == 'clamp':
        raise Unsupported('f64::clamp')
    a, b = args
    if is_sym(a) or is_sym(b):
        ra, rb = realval(a), realval(b)
        if ra is None or rb is None:
            # min/max with NaN returns the other operand; with +-inf decided concretely
            o, sy = (a, b) if not is_sym(a) else (b, a)
            if o != o:
                return sy
            if (o > 0) == (c.name == 'min'):
                return sy
            return o
        return simp(z3.If(ra <= rb, ra, rb)) if c.name == 'min' else simp(z3.If(ra >= rb, ra, rb))
    if a != a: return b
    if b != b: return a
    return min(a, b) if c.name == 'min' else max(a, b)

@model('f64::abs')
def m_fabs(I, c, args, fr):
    v = args[0]
    return simp(z3.If(v >= 0, v, -v)) if is_sym(v) else abs(v)

@model('f64::round', 'f64::floor', 'f64::ceil', 'f64::trunc')
def m_fround(I, c, args, fr):
    v = args[0]
    if is_sym(v):
        raise Unsupported('rounding of a symbolic f64')
    if math.isnan(v) or math.isinf(v):
        return v
    return {'round': lambda x: math.floor(abs(x) + 0.5) * (1 if x >= 0 else -1), 'floor': math.floor, 'ceil': math.ceil, 'trunc': math.trunc}[c.name](v) * 1.0

@model('Path::new')
def m_path_new(I, c, args, fr):
    return as_slice(args[0])
