"""Library models, second layer: std surface that the repository does not use today but that a refactoring or a small
change may reach for (integer helper methods for every width, ASCII predicates on u8/char, more str / slice / Vec /
Option / Result / Iterator methods).  Every model follows the documented contract of the std function; a model is only
registered when no earlier module has one for the same key."""
import z3
from values import *
from interp import model as _model, MODELS, simp
from models_core import (deref, as_items, as_slice, mk_option, explode, val_eq, val_cmp, ordering, elem_is_char,
                         char_of_nofork, byte_offset, elem_index, find_sub, ascii_lower, ascii_upper)
from rtypes import int_info

def model(*keys):
    """register only the keys nobody has registered yet"""
    def deco(f):
        for k in keys:
            if k not in MODELS:
                MODELS[k] = f
        return f
    return deco

UINTS = {'u8': 8, 'u16': 16, 'u32': 32, 'u64': 64, 'usize': 64, 'u128': 128}
SINTS = {'i8': 8, 'i16': 16, 'i32': 32, 'i64': 64, 'isize': 64, 'i128': 128}

def _ty_of(c):
    from interp import norm_self
    for nm, ta in c.segs:
        if nm == '<impl>':
            return norm_self(ta[0])
    if c.qself is not None:
        return norm_self(c.qself)
    return None

def _keys(name, types):
    return ['%s::%s' % (t, name) for t in types]

def _ovf(I, c, op, a, b):
    ty = _ty_of(c)
    a = deref(a); b = deref(b)
    r = I.binop_vals(op + 'WithOverflow', a, b, ty)
    return ty, r.items[0], r.items[1]

ALLI = list(UINTS) + list(SINTS)

@model(*_keys('checked_add', ALLI))
def m_checked_add(I, c, args, fr):
    ty, v, o = _ovf(I, c, 'Add', args[0], args[1])
    return none() if I.ctx.decide(o) else some(v)

@model(*_keys('checked_sub', ALLI))
def m_checked_sub(I, c, args, fr):
    ty, v, o = _ovf(I, c, 'Sub', args[0], args[1])
    return none() if I.ctx.decide(o) else some(v)

@model(*_keys('checked_mul', ALLI))
def m_checked_mul(I, c, args, fr):
    ty, v, o = _ovf(I, c, 'Mul', args[0], args[1])
    return none() if I.ctx.decide(o) else some(v)

@model(*_keys('overflowing_add', ALLI))
def m_overflowing_add(I, c, args, fr):
    ty, v, o = _ovf(I, c, 'Add', args[0], args[1]); return Tup([v, o])
@model(*_keys('overflowing_sub', ALLI))
def m_overflowing_sub(I, c, args, fr):
    ty, v, o = _ovf(I, c, 'Sub', args[0], args[1]); return Tup([v, o])
@model(*_keys('overflowing_mul', ALLI))
def m_overflowing_mul(I, c, args, fr):
    ty, v, o = _ovf(I, c, 'Mul', args[0], args[1]); return Tup([v, o])

@model(*_keys('wrapping_add', ALLI))
def m_wrapping_add(I, c, args, fr):
    return _ovf(I, c, 'Add', args[0], args[1])[1]
@model(*_keys('wrapping_sub', ALLI))
def m_wrapping_sub(I, c, args, fr):
    return _ovf(I, c, 'Sub', args[0], args[1])[1]
@model(*_keys('wrapping_mul', ALLI))
def m_wrapping_mul(I, c, args, fr):
    return _ovf(I, c, 'Mul', args[0], args[1])[1]

def _sat(I, c, op, args):
    ty, v, o = _ovf(I, c, op, args[0], args[1])
    bits, signed = int_info(ty)
    if signed:
        raise Unsupported('saturating arithmetic on signed integers')
    if not I.ctx.decide(o):
        return v
    return 0 if op == 'Sub' else (1 << bits) - 1
@model(*_keys('saturating_add', UINTS))
def m_saturating_add(I, c, args, fr): return _sat(I, c, 'Add', args)
@model(*_keys('saturating_sub', UINTS))
def m_saturating_sub(I, c, args, fr): return _sat(I, c, 'Sub', args)
@model(*_keys('saturating_mul', UINTS))
def m_saturating_mul(I, c, args, fr): return _sat(I, c, 'Mul', args)

@model(*(_keys('checked_div', ALLI) + _keys('checked_rem', ALLI) + _keys('checked_div_euclid', UINTS) + _keys('checked_rem_euclid', UINTS)))
def m_checked_div(I, c, args, fr):
    ty = _ty_of(c)
    a, b = deref(args[0]), deref(args[1])
    if I.ctx.decide(int_eq(b, 0)):
        return none()
    bits, signed = int_info(ty)
    if signed and I.ctx.decide(b_and(int_eq(b, (1 << bits) - 1), int_eq(a, 1 << (bits - 1)))):
        return none()
    return some(I.binop_vals('Div' if 'div' in c.name else 'Rem', a, b, ty))

@model(*(_keys('div_euclid', UINTS) + _keys('rem_euclid', UINTS)))
def m_div_euclid(I, c, args, fr):
    ty = _ty_of(c)
    return I.binop_vals('Div' if 'div' in c.name else 'Rem', deref(args[0]), deref(args[1]), ty)

def _lt(I, ty, a, b):
    return I.binop_vals('Lt', a, b, ty)

@model(*(_keys('min', ALLI) + _keys('max', ALLI)))
def m_int_minmax(I, c, args, fr):
    ty = _ty_of(c)
    a, b = deref(args[0]), deref(args[1])
    lt = _lt(I, ty, b, a)           # b < a
    if c.name == 'min':
        return b if I.ctx.decide(lt) else a
    return a if I.ctx.decide(lt) else b

@model(*_keys('clamp', ALLI))
def m_int_clamp(I, c, args, fr):
    ty = _ty_of(c)
    x, lo, hi = (deref(a) for a in args)
    if I.ctx.decide(_lt(I, ty, hi, lo)):
        raise Panic('assertion failed: min <= max')
    if I.ctx.decide(_lt(I, ty, x, lo)):
        return lo
    if I.ctx.decide(_lt(I, ty, hi, x)):
        return hi
    return x

@model(*_keys('abs_diff', UINTS))
def m_abs_diff(I, c, args, fr):
    ty = _ty_of(c)
    a, b = deref(args[0]), deref(args[1])
    if I.ctx.decide(_lt(I, ty, a, b)):
        return I.binop_vals('Sub', b, a, ty)
    return I.binop_vals('Sub', a, b, ty)

@model(*_keys('is_power_of_two', UINTS))
def m_is_pow2(I, c, args, fr):
    x = deref(args[0])
    if is_sym(x):
        return simp(z3.And(x != 0, (x & (x - 1)) == 0))
    return x != 0 and x & (x - 1) == 0

@model(*(_keys('pow', ALLI) + _keys('checked_pow', UINTS)))
def m_pow(I, c, args, fr):
    ty = _ty_of(c)
    a, e = deref(args[0]), deref(args[1])
    if is_sym(e):
        e = I.ctx.concretize(e, 'exponent')
    r = 1
    for _ in range(e):
        t = I.binop_vals('MulWithOverflow', r, a, ty)
        if I.ctx.decide(t.items[1]):
            if c.name == 'checked_pow':
                return none()
            raise Panic('attempt to multiply with overflow')
        r = t.items[0]
    return some(r) if c.name == 'checked_pow' else r

@model(*(_keys('leading_zeros', UINTS) + _keys('trailing_zeros', UINTS) + _keys('count_ones', UINTS) + _keys('ilog10', UINTS) + _keys('checked_ilog10', UINTS) + _keys('ilog2', UINTS)))
def m_bitcount(I, c, args, fr):
    ty = _ty_of(c)
    bits = UINTS[ty]
    x = deref(args[0])
    if is_sym(x):
        x = I.ctx.concretize(x, c.name)
    if c.name == 'leading_zeros': return bits - x.bit_length()
    if c.name == 'trailing_zeros': return bits if x == 0 else (x & -x).bit_length() - 1
    if c.name == 'count_ones': return bin(x).count('1')
    if c.name == 'ilog2':
        if x == 0: raise Panic('argument of integer logarithm must be positive')
        return x.bit_length() - 1
    if x == 0:
        if c.name == 'checked_ilog10': return none()
        raise Panic('argument of integer logarithm must be positive')
    r = len(str(x)) - 1
    return some(r) if c.name == 'checked_ilog10' else r

@model(*_keys('next_power_of_two', UINTS), *_keys('checked_next_power_of_two', UINTS))
def m_next_pow2(I, c, args, fr):
    bits = UINTS[_ty_of(c)]
    x = deref(args[0])
    if is_sym(x):
        x = I.ctx.concretize(x, c.name)
    r = 1 if x <= 1 else 1 << (x - 1).bit_length()
    if r >= 1 << bits:
        if c.name.startswith('checked'): return none()
        raise Panic('attempt to add with overflow')
    return some(r) if c.name.startswith('checked') else r

# ---------------------------------------------------------------------------- ASCII predicates on u8 and char
def _rng(x, pairs, singles=()):
    cs = []
    for lo, hi in pairs:
        cs.append(z3.And(z3.UGE(x, lo), z3.ULE(x, hi)) if is_sym(x) else lo <= x <= hi)
    for s in singles:
        cs.append(x == s)
    return b_or(*cs)
_PRED = {
    'is_ascii_digit': ([(48, 57)], ()), 'is_ascii_alphabetic': ([(65, 90), (97, 122)], ()), 'is_ascii_alphanumeric': ([(48, 57), (65, 90), (97, 122)], ()),
    'is_ascii_punctuation': ([(33, 47), (58, 64), (91, 96), (123, 126)], ()), 'is_ascii_graphic': ([(33, 126)], ()),
    'is_ascii_hexdigit': ([(48, 57), (65, 70), (97, 102)], ()), 'is_ascii_octdigit': ([(48, 55)], ()),
    'is_ascii_uppercase': ([(65, 90)], ()), 'is_ascii_lowercase': ([(97, 122)], ()), 'is_ascii_whitespace': ([], (32, 9, 10, 12, 13)),
    'is_ascii_control': ([(0, 31)], (127,)), 'is_ascii': ([(0, 127)], ()),
}
def _mk_pred(name):
    pairs, singles = _PRED[name]
    def m(I, c, args, fr):
        x = deref(args[0])
        r = _rng(x, pairs, singles)
        return simp(r) if is_sym(r) else r
    return m
for _n in _PRED:
    model('u8::' + _n, 'char::' + _n)(_mk_pred(_n))

@model('u8::eq_ignore_ascii_case', 'char::eq_ignore_ascii_case')
def m_eq_ic(I, c, args, fr):
    return int_eq(ascii_lower(deref(args[0])), ascii_lower(deref(args[1])))

@model('u8::make_ascii_lowercase', 'char::make_ascii_lowercase', 'u8::make_ascii_uppercase', 'char::make_ascii_uppercase')
def m_make_ascii(I, c, args, fr):
    r = args[0]
    r.set((ascii_lower if 'lower' in c.name else ascii_upper)(r.get()))
    return UNIT

@model('char::is_digit')
def m_is_digit(I, c, args, fr):
    x, radix = deref(args[0]), args[1]
    if is_sym(radix):
        radix = I.ctx.concretize(radix, 'radix')
    if not 2 <= radix <= 36:
        raise Panic('to_digit: invalid radix')
    return m_to_digit(I, c, args, fr).variant == 'Some'

@model('char::to_digit')
def m_to_digit(I, c, args, fr):
    x, radix = deref(args[0]), args[1]
    if is_sym(radix):
        radix = I.ctx.concretize(radix, 'radix')
    if not 2 <= radix <= 36:
        raise Panic('to_digit: invalid radix')
    if I.ctx.decide(_rng(x, [(48, 57)])):
        d = (x - 48) if is_sym(x) else x - 48
    elif radix > 10 and I.ctx.decide(_rng(x, [(97, 122)])):
        d = (x - 87) if is_sym(x) else x - 87
    elif radix > 10 and I.ctx.decide(_rng(x, [(65, 90)])):
        d = (x - 55) if is_sym(x) else x - 55
    else:
        return none()
    if I.ctx.decide(z3.ULT(d, radix) if is_sym(d) else d < radix):
        return some(simp(d) if is_sym(d) else d)
    return none()

@model('char::from_digit')
def m_from_digit(I, c, args, fr):
    d, radix = deref(args[0]), args[1]
    if is_sym(radix):
        radix = I.ctx.concretize(radix, 'radix')
    if radix > 36:
        raise Panic('from_digit: radix is too high (maximum 36)')
    if is_sym(d):
        d = I.ctx.concretize(d, 'digit')
    if d >= radix:
        return none()
    return some(48 + d if d < 10 else 87 + d)

@model('char::from_u32')
def m_from_u32(I, c, args, fr):
    x = deref(args[0])
    bad = b_or(z3.UGT(x, 0x10ffff) if is_sym(x) else x > 0x10ffff, _rng(x, [(0xd800, 0xdfff)]))
    return none() if I.ctx.decide(bad) else some(x)

# ---------------------------------------------------------------------------- str: reverse searches, matches, trimming by pattern
def _pat(I, pv):
    """pattern value -> fn(items, i) -> length of the match starting at element i, or None (forks on symbolic text)"""
    pv = deref(pv)
    if isinstance(pv, (SliceRef, StrBuf)):
        p = explode(I, as_items(pv))
        if not p:
            return lambda items, i: 0
        def f(items, i):
            if i + len(p) > len(items):
                return None
            return len(p) if I.ctx.decide(seq_eq(items[i:i + len(p)], p)) else None
        return f
    if isinstance(pv, Array) or isinstance(pv, Tup):
        chars = list(pv.items)
        return lambda items, i: (1 if i < len(items) and I.ctx.decide(b_or(*[elem_is_char(I, items[i], ch) for ch in chars])) else None)
    if isinstance(pv, (int,)) or is_sym(pv):
        return lambda items, i: (1 if i < len(items) and I.ctx.decide(elem_is_char(I, items[i], pv)) else None)
    # a predicate: closure / fn item taking a char
    from models_core import char_of
    return lambda items, i: (1 if i < len(items) and I.ctx.decide(I.call_value(pv, [char_of(I, items[i])])) else None)

def _all_matches(I, s, pv):
    """[(start, end)] of the non-overlapping matches, left to right"""
    items = s.items()
    m = _pat(I, pv)
    out = []
    i = 0
    while i <= len(items):
        n = m(items, i)
        if n is None:
            i += 1
            continue
        out.append((i, i + n))
        i += max(n, 1)
    return [(a, b) for a, b in out if b <= len(items)]

@model('str::rfind')
def m_rfind(I, c, args, fr):
    s = as_slice(args[0])
    ms = _all_matches(I, s, args[1])
    return some(byte_offset(s.items(), ms[-1][0])) if ms else none()

@model('str::rsplit_once')
def m_rsplit_once(I, c, args, fr):
    s = as_slice(args[0])
    ms = _all_matches(I, s, args[1])
    if not ms:
        return none()
    a, b = ms[-1]
    return some(Tup([s.sub(0, a), s.sub(b, len(s))]))

@model('str::matches', 'str::rmatches', 'str::match_indices', 'str::rmatch_indices')
def m_matches(I, c, args, fr):
    from models_iter import ListIter
    s = as_slice(args[0])
    ms = _all_matches(I, s, args[1])
    if c.name.startswith('r'):
        ms = ms[::-1]
    if 'indices' in c.name:
        return ListIter([Tup([byte_offset(s.items(), a), s.sub(a, b)]) for a, b in ms], 'val')
    return ListIter([s.sub(a, b) for a, b in ms], 'val')

def _split_pieces(I, s, pv):
    ms = _all_matches(I, s, pv)
    pieces = []; pos = 0
    for a, b in ms:
        pieces.append((pos, a, b)); pos = b
    pieces.append((pos, len(s), len(s)))
    return pieces

@model('str::rsplit', 'str::split_terminator', 'str::rsplit_terminator', 'str::split_inclusive', 'str::rsplitn')
def m_rsplit(I, c, args, fr):
    from models_iter import ListIter
    s = as_slice(args[0])
    if c.name == 'rsplitn':
        n, pv = args[1], args[2]
        ms = _all_matches(I, s, pv)[::-1]
        out = []; end = len(s)
        for a, b in ms:
            if len(out) + 1 >= n:
                break
            out.append(s.sub(b, end)); end = a
        if n > 0:
            out.append(s.sub(0, end))
        return ListIter(out, 'val')
    pcs = _split_pieces(I, s, args[1])
    if c.name == 'split_inclusive':
        out = [s.sub(p, b) for p, a, b in pcs]
        if out and len(out[-1]) == 0:
            out.pop()
        return ListIter(out, 'val')
    out = [s.sub(p, a) for p, a, b in pcs]
    if 'terminator' in c.name and out and len(out[-1]) == 0:
        out.pop()
    if c.name.startswith('r'):
        out = out[::-1]
    return ListIter(out, 'val')

@model('str::trim_matches', 'str::trim_start_matches', 'str::trim_end_matches')
def m_trim_matches(I, c, args, fr):
    s = as_slice(args[0])
    items = s.items()
    m = _pat(I, args[1])
    lo, hi = 0, len(items)
    pv = deref(args[1])
    if isinstance(pv, (SliceRef, StrBuf)):
        n = len(explode(I, as_items(pv)))
        if n:
            if c.name != 'trim_end_matches':
                while lo + n <= hi and m(items, lo) is not None:
                    lo += n
            if c.name != 'trim_start_matches':
                while hi - n >= lo and m(items, hi - n) is not None:
                    hi -= n
        return s.sub(lo, hi)
    if c.name != 'trim_end_matches':
        while lo < hi and m(items, lo) is not None:
            lo += 1
    if c.name != 'trim_start_matches':
        while hi > lo and m(items, hi - 1) is not None:
            hi -= 1
    return s.sub(lo, hi)

@model('str::is_char_boundary')
def m_is_char_boundary(I, c, args, fr):
    items = as_slice(args[0]).items()
    try:
        elem_index(items, args[1])
        return True
    except Panic:
        return False

@model('str::repeat')
def m_str_repeat(I, c, args, fr):
    return StrBuf(list(as_items(args[0])) * args[1])

@model('str::is_ascii', 'slice::is_ascii')
def m_str_is_ascii(I, c, args, fr):
    items = as_items(args[0])
    return b_and(*[False if isinstance(x, WChar) else (z3.ULT(x, 128) if is_sym(x) else x < 128) for x in items])

@model('str::make_ascii_lowercase', 'str::make_ascii_uppercase', 'slice::make_ascii_lowercase', 'slice::make_ascii_uppercase', 'String::make_ascii_lowercase', 'String::make_ascii_uppercase')
def m_str_make_ascii(I, c, args, fr):
    s = deref(args[0])
    f = ascii_lower if 'lower' in c.name else ascii_upper
    if isinstance(s, (StrBuf, ByteBuf)):
        s.b[:] = [f(x) for x in s.b]
    else:
        s = as_slice(args[0])
        s.back[s.lo:s.hi] = [f(x) for x in s.back[s.lo:s.hi]]
    return UNIT

@model('slice::eq_ignore_ascii_case')
def m_slice_eq_ic(I, c, args, fr):
    a = as_items(args[0]); b = as_items(args[1])
    if len(a) != len(b):
        return False
    return b_and(*[int_eq(ascii_lower(x), ascii_lower(y)) for x, y in zip(a, b)])

@model('slice::to_ascii_lowercase', 'slice::to_ascii_uppercase')
def m_slice_to_ascii(I, c, args, fr):
    f = ascii_lower if 'lower' in c.name else ascii_upper
    return VecObj([f(x) for x in as_items(args[0])])

@model('slice::trim_ascii', 'slice::trim_ascii_start', 'slice::trim_ascii_end', 'str::trim_ascii', 'str::trim_ascii_start', 'str::trim_ascii_end')
def m_trim_ascii(I, c, args, fr):
    s = as_slice(args[0])
    items = s.items()
    ws = lambda x: False if isinstance(x, WChar) else _rng(x, [], (32, 9, 10, 12, 13))
    lo, hi = 0, len(items)
    if not c.name.endswith('_end'):
        while lo < hi and I.ctx.decide(ws(items[lo])):
            lo += 1
    if not c.name.endswith('_start'):
        while hi > lo and I.ctx.decide(ws(items[hi - 1])):
            hi -= 1
    return s.sub(lo, hi)

# ---------------------------------------------------------------------------- slices and Vec
@model('slice::swap', 'Vec::swap')
def m_swap(I, c, args, fr):
    s = deref(args[0])
    back, lo, hi = (s.v, 0, len(s.v)) if isinstance(s, VecObj) else (as_slice(args[0]).back, as_slice(args[0]).lo, as_slice(args[0]).hi)
    a, b = args[1], args[2]
    if not (0 <= a < hi - lo and 0 <= b < hi - lo):
        raise Panic('index out of bounds')
    back[lo + a], back[lo + b] = back[lo + b], back[lo + a]
    return UNIT

@model('slice::chunks', 'slice::chunks_exact', 'slice::windows', 'Vec::chunks', 'Vec::windows')
def m_chunks(I, c, args, fr):
    from models_iter import ListIter
    s = as_slice(args[0]); n = args[1]
    if n == 0:
        raise Panic('chunk size must be non-zero')
    L = len(s)
    if c.name == 'windows':
        return ListIter([s.sub(i, i + n) for i in range(0, L - n + 1)], 'val')
    out = [s.sub(i, min(i + n, L)) for i in range(0, L, n)]
    if c.name == 'chunks_exact' and out and len(out[-1]) < n:
        out.pop()
    return ListIter(out, 'val')

@model('slice::split', 'slice::splitn', 'slice::rsplit', 'slice::split_inclusive')
def m_slice_split(I, c, args, fr):
    from models_iter import ListIter
    s = as_slice(args[0])
    pred = args[2] if c.name == 'splitn' else args[1]
    limit = args[1] if c.name == 'splitn' else None
    items = s.items()
    out = []; pos = 0
    for i in range(len(items)):
        if limit is not None and len(out) + 1 >= limit:
            break
        if I.ctx.decide(I.call_value(pred, [Ref(ListLoc(s.back, s.lo + i))])):
            out.append(s.sub(pos, i + 1 if c.name == 'split_inclusive' else i)); pos = i + 1
    if not (c.name == 'split_inclusive' and pos == len(items) and out):
        out.append(s.sub(pos, len(items)))
    if limit == 0:
        out = []
    if c.name == 'rsplit':
        out = out[::-1]
    return ListIter(out, 'val')

@model('slice::split_once', 'slice::rsplit_once')
def m_slice_split_once(I, c, args, fr):
    s = as_slice(args[0])
    items = s.items()
    idx = range(len(items)) if c.name == 'split_once' else range(len(items) - 1, -1, -1)
    for i in idx:
        if I.ctx.decide(I.call_value(args[1], [Ref(ListLoc(s.back, s.lo + i))])):
            return some(Tup([s.sub(0, i), s.sub(i + 1, len(items))]))
    return none()

@model('slice::binary_search', 'Vec::binary_search')
def m_binary_search(I, c, args, fr):
    # (contract: any matching index for a sorted slice; the first one is returned - with duplicates std may return another)
    s = as_slice(args[0])
    key = deref(args[1])
    items = s.items()
    for i, x in enumerate(items):
        r = val_cmp(I, x, key)
        if r == 0:
            return ok(i)
        if r > 0:
            return err(i)
    return err(len(items))

@model('slice::binary_search_by', 'slice::binary_search_by_key', 'slice::partition_point')
def m_binary_search_by(I, c, args, fr):
    from models_iter import _ord_idx
    s = as_slice(args[0])
    items = s.items()
    for i in range(len(items)):
        el = Ref(ListLoc(s.back, s.lo + i))
        if c.name == 'partition_point':
            if not I.ctx.decide(I.call_value(args[1], [el])):
                return i
            continue
        if c.name == 'binary_search_by':
            r = _ord_idx(I, I.call_value(args[1], [el]))
        else:
            r = val_cmp(I, I.call_value(args[2], [el]), deref(args[1]))
        if r == 0:
            return ok(i)
        if r > 0:
            return err(i)
    return len(items) if c.name == 'partition_point' else err(len(items))

@model('slice::rotate_left', 'slice::rotate_right')
def m_rotate(I, c, args, fr):
    s = as_slice(args[0]); k = args[1]
    n = len(s)
    if k > n:
        raise Panic('assertion failed: mid <= self.len()')
    xs = s.back[s.lo:s.hi]
    if c.name == 'rotate_right':
        k = n - k
    s.back[s.lo:s.hi] = xs[k:] + xs[:k]
    return UNIT

@model('slice::repeat')
def m_slice_repeat(I, c, args, fr):
    return VecObj([copy_value(x) for _ in range(args[1]) for x in as_items(args[0])])

@model('slice::first_chunk', 'slice::last_chunk')
def m_first_chunk(I, c, args, fr):
    raise Unsupported('slice::%s (const-generic length)' % c.name)

@model('Vec::retain_mut')
def m_retain_mut(I, c, args, fr):
    v = deref(args[0])
    keep = []
    for i, x in enumerate(list(v.v)):
        cell = ValLoc(x)
        if I.ctx.decide(I.call_value(args[1], [Ref(cell)])):
            keep.append(cell.get())
        else:
            I.drop_value(cell.get())
    v.v[:] = keep
    return UNIT

@model('Vec::split_off')
def m_vec_split_off(I, c, args, fr):
    v = deref(args[0]); k = args[1]
    if k > len(v.v):
        raise Panic('`at` split index (is %d) should be <= len (is %d)' % (k, len(v.v)))
    tail = v.v[k:]
    del v.v[k:]
    return VecObj(tail)

@model('Vec::resize')
def m_vec_resize(I, c, args, fr):
    v = deref(args[0]); n = args[1]
    if is_sym(n):
        raise Unsupported('Vec::resize to a symbolic length')
    if n <= len(v.v):
        for x in v.v[n:]:
            I.drop_value(x)
        del v.v[n:]
    else:
        v.v.extend(copy_value(args[2]) for _ in range(n - len(v.v)))
    return UNIT

@model('Vec::resize_with')
def m_vec_resize_with(I, c, args, fr):
    v = deref(args[0]); n = args[1]
    if n <= len(v.v):
        del v.v[n:]
    else:
        while len(v.v) < n:
            v.v.append(I.call_value(args[2], []))
    return UNIT

@model('Vec::extend_from_within')
def m_extend_from_within(I, c, args, fr):
    from models_iter import range_bounds
    v = deref(args[0])
    rb = range_bounds(args[1], len(v.v))
    if rb is None:
        raise Panic('range out of bounds')
    v.v.extend(copy_value(x) for x in v.v[rb[0]:rb[1]])
    return UNIT

@model('Vec::pop_if')
def m_pop_if(I, c, args, fr):
    v = deref(args[0])
    if not v.v:
        return none()
    cell = ListLoc(v.v, len(v.v) - 1)
    if I.ctx.decide(I.call_value(args[1], [Ref(cell)])):
        return some(v.v.pop())
    return none()

@model('Vec::leak')
def m_vec_leak(I, c, args, fr):
    v = args[0]
    return SliceRef(v.v, 0, len(v.v), 'slice')

# ---------------------------------------------------------------------------- Option / Result
@model('Option::flatten')
def m_opt_flatten(I, c, args, fr):
    o = args[0]
    return o.fields[0] if o.variant == 'Some' else none()

@model('Option::and')
def m_opt_and(I, c, args, fr):
    a, b = args
    if a.variant == 'Some':
        I.drop_value(a)
        return b
    I.drop_value(b)
    return none()

@model('Option::ok')           # (not an Option method; kept for symmetry of lookups)
def m_opt_ok(I, c, args, fr):
    raise Unsupported('Option::ok')

@model('Option::iter', 'Option::iter_mut', 'Option::into_iter', '<Option as IntoIterator>::into_iter', 'Result::iter', 'Result::into_iter', '<Result as IntoIterator>::into_iter')
def m_opt_iter(I, c, args, fr):
    from models_iter import ListIter
    o = deref(args[0])
    by_ref = c.name in ('iter', 'iter_mut') or isinstance(args[0], Ref)
    if o.variant in ('Some', 'Ok'):
        return ListIter([Ref(ListLoc(o.fields, 0)) if by_ref else o.fields[0]], 'val')
    return ListIter([], 'val')

@model('Option::take_if')
def m_take_if(I, c, args, fr):
    r = args[0]
    o = r.get()
    if o.variant == 'Some' and I.ctx.decide(I.call_value(args[1], [Ref(ListLoc(o.fields, 0))])):
        r.set(none())
        return o
    return none()

@model('Option::unzip')
def m_opt_unzip(I, c, args, fr):
    o = args[0]
    if o.variant == 'Some':
        a, b = o.fields[0].items
        return Tup([some(a), some(b)])
    return Tup([none(), none()])

@model('Result::or')
def m_res_or(I, c, args, fr):
    a, b = args
    if a.variant == 'Ok':
        I.drop_value(b)
        return ok(a.fields[0])
    I.drop_value(a)
    return b

@model('Result::and')
def m_res_and(I, c, args, fr):
    a, b = args
    if a.variant == 'Ok':
        I.drop_value(a)
        return b
    I.drop_value(b)
    return err(a.fields[0])

@model('Result::map_or')
def m_res_map_or(I, c, args, fr):
    r, d, f = args
    if r.variant == 'Ok':
        I.drop_value(d)
        return I.call_value(f, [r.fields[0]])
    I.drop_value(r)
    return d

@model('Result::map_or_else')
def m_res_map_or_else(I, c, args, fr):
    r, d, f = args
    if r.variant == 'Ok':
        return I.call_value(f, [r.fields[0]])
    return I.call_value(d, [r.fields[0]])

@model('Result::as_deref')
def m_res_as_deref(I, c, args, fr):
    r = deref(args[0])
    if r.variant == 'Ok':
        v = r.fields[0]
        if isinstance(v, StrBuf):
            return ok(SliceRef(v.b, 0, len(v.b), 'str'))
        if isinstance(v, VecObj):
            return ok(SliceRef(v.v, 0, len(v.v), 'slice'))
        if isinstance(v, BoxObj):
            return ok(Ref(v.cell if hasattr(v, 'cell') else ValLoc(v.v)))
        return ok(Ref(ListLoc(r.fields, 0)))
    return err(Ref(ListLoc(r.fields, 0)))

@model('Result::copied', 'Result::cloned')
def m_res_copied(I, c, args, fr):
    r = args[0]
    if r.variant == 'Ok':
        return ok(copy_value(deref(r.fields[0])))
    return r

@model('Result::flatten')
def m_res_flatten(I, c, args, fr):
    r = args[0]
    return r.fields[0] if r.variant == 'Ok' else r

# ---------------------------------------------------------------------------- iterators
def _drain(I, it):
    from models_iter import drain_lazy
    return drain_lazy(I, it)

@model('Iterator::max_by', 'Iterator::min_by')
def m_max_by(I, c, args, fr):
    from models_iter import _ord_idx, STOP
    best = STOP
    for x in _drain(I, args[0]):
        if best is STOP:
            best = x
            continue
        r = _ord_idx(I, I.call_value(args[1], [ref_to(best), ref_to(x)]))
        if c.name == 'max_by':
            if r <= 0:            # the last maximum wins
                best = x
        elif r > 0:                # the first minimum wins
            best = x
    return none() if best is STOP else some(best)

@model('Iterator::product')
def m_product(I, c, args, fr):
    acc = 1
    for x in _drain(I, args[0]):
        x = deref(x)
        t = I.binop_vals('MulWithOverflow', acc, x, 'u%d' % x.size() if is_sym(x) else 'u64')
        if I.ctx.decide(t.items[1]):
            raise Panic('attempt to multiply with overflow')
        acc = t.items[0]
    return acc

@model('Iterator::is_sorted')
def m_it_is_sorted(I, c, args, fr):
    xs = list(_drain(I, args[0]))
    return all(val_cmp(I, a, b) <= 0 for a, b in zip(xs, xs[1:]))

@model('Iterator::cmp_by', 'Iterator::eq_by')
def m_cmp_by(I, c, args, fr):
    from models_iter import _ord_idx
    xs = list(_drain(I, args[0])); ys = list(_drain(I, args[1]))
    for x, y in zip(xs, ys):
        r = I.call_value(args[2], [x, y])
        if c.name == 'eq_by':
            if not I.ctx.decide(r):
                return False
        else:
            k = _ord_idx(I, r)
            if k:
                return ordering(k)
    if c.name == 'eq_by':
        return len(xs) == len(ys)
    return ordering(-1 if len(xs) < len(ys) else (1 if len(xs) > len(ys) else 0))

@model('Iterator::try_find')
def m_try_find(I, c, args, fr):
    raise Unsupported('Iterator::try_find')

# ---------------------------------------------------------------------------- String
@model('String::replace_range')
def m_replace_range(I, c, args, fr):
    from models_iter import range_bounds
    s = deref(args[0])
    total = sum(__import__('interp').elem_len(x) for x in s.b)
    rb = range_bounds(args[1], total)
    if rb is None:
        raise Panic('range out of bounds')
    a = elem_index(s.b, rb[0]); b = elem_index(s.b, rb[1])
    s.b[a:b] = list(as_items(args[2]))
    return UNIT

@model('String::drain')
def m_string_drain(I, c, args, fr):
    from models_iter import range_bounds, ListIter
    from models_core import char_of
    s = deref(args[0])
    total = sum(__import__('interp').elem_len(x) for x in s.b)
    rb = range_bounds(args[1], total)
    if rb is None:
        raise Panic('range out of bounds')
    a = elem_index(s.b, rb[0]); b = elem_index(s.b, rb[1])
    taken = explode(I, s.b[a:b]) if False else s.b[a:b]
    del s.b[a:b]
    return ListIter([char_of(I, x) for x in taken], 'val')

# ---------------------------------------------------------------------------- str methods with predicate / char-set patterns (the first-layer models
# know &str and char patterns; everything else goes through the unified pattern matcher)
def _simple_pat(pv):
    pv = deref(pv)
    return isinstance(pv, (SliceRef, StrBuf, int)) or (is_sym(pv) and not isinstance(pv, (Closure, FnItem)))

def _wrap(key, general):
    old = MODELS.get(key)
    def m(I, c, args, fr, old=old):
        if old is not None and _simple_pat(args[1]):
            return old(I, c, args, fr)
        return general(I, c, args, fr)
    MODELS[key] = m

def _g_find(I, c, args, fr):
    s = as_slice(args[0])
    ms = _all_matches(I, s, args[1])
    return some(byte_offset(s.items(), ms[0][0])) if ms else none()
def _g_split_once(I, c, args, fr):
    s = as_slice(args[0])
    ms = _all_matches(I, s, args[1])
    if not ms:
        return none()
    a, b = ms[0]
    return some(Tup([s.sub(0, a), s.sub(b, len(s))]))
def _g_starts_with(I, c, args, fr):
    s = as_slice(args[0])
    return _pat(I, args[1])(s.items(), 0) is not None
def _g_ends_with(I, c, args, fr):
    s = as_slice(args[0])
    items = s.items()
    return bool(items) and _pat(I, args[1])(items, len(items) - 1) is not None
def _g_strip_prefix(I, c, args, fr):
    s = as_slice(args[0])
    n = _pat(I, args[1])(s.items(), 0)
    return none() if n is None else some(s.sub(n, len(s)))
def _g_strip_suffix(I, c, args, fr):
    s = as_slice(args[0])
    items = s.items()
    if items and _pat(I, args[1])(items, len(items) - 1) is not None:
        return some(s.sub(0, len(items) - 1))
    return none()
for _k, _g in (('str::find', _g_find), ('str::split_once', _g_split_once), ('str::starts_with', _g_starts_with), ('str::ends_with', _g_ends_with),
               ('str::strip_prefix', _g_strip_prefix), ('str::strip_suffix', _g_strip_suffix)):
    _wrap(_k, _g)

import models_iter as _mi
_old_split_next = _mi.SplitIter.next
def _split_next(self, I):
    if _simple_pat(self.pat):
        return _old_split_next(self, I)
    if self.done:
        return _mi.STOP
    if self.limit is not None:
        if self.limit == 0:
            return _mi.STOP
        self.limit -= 1
        if self.limit == 0:
            self.done = True
            return self.s
    items = self.s.items()
    m = _pat(I, self.pat)
    for i in range(len(items)):
        n = m(items, i)
        if n is not None:
            head = self.s.sub(0, i)
            self.s = self.s.sub(i + n, len(items))
            return head
    self.done = True
    return self.s
_mi.SplitIter.next = _split_next

# ---------------------------------------------------------------------------- OnceLock / OnceCell (a cell holding Option<T>; Clone clones the content)
def _once(v):
    return Adt('OnceLock', None, 0, [v], ['value'])

@model('OnceLock::new', 'OnceCell::new', '<OnceLock as Default>::default', '<OnceCell as Default>::default')
def m_once_new(I, c, args, fr):
    return _once(none())

@model('<OnceLock as From>::from', '<OnceCell as From>::from')
def m_once_from(I, c, args, fr):
    return _once(some(args[0]))

@model('OnceLock::get', 'OnceCell::get', 'OnceLock::get_mut', 'OnceCell::get_mut')
def m_once_get(I, c, args, fr):
    o = deref(args[0])
    v = o.fields[0]
    return some(Ref(ListLoc(v.fields, 0))) if v.variant == 'Some' else none()

@model('OnceLock::set', 'OnceCell::set')
def m_once_set(I, c, args, fr):
    o = deref(args[0])
    if o.fields[0].variant == 'Some':
        return err(args[1])
    o.fields[0] = some(args[1])
    return ok(UNIT)

@model('OnceLock::get_or_init', 'OnceCell::get_or_init')
def m_once_get_or_init(I, c, args, fr):
    o = deref(args[0])
    if o.fields[0].variant != 'Some':
        v = I.call_value(args[1], [])
        if o.fields[0].variant == 'Some':
            raise Panic('reentrant init')
        o.fields[0] = some(v)
    return Ref(ListLoc(o.fields[0].fields, 0))

@model('OnceLock::take', 'OnceCell::take')
def m_once_take(I, c, args, fr):
    o = deref(args[0])
    v = o.fields[0]
    o.fields[0] = none()
    return v

@model('OnceLock::into_inner', 'OnceCell::into_inner')
def m_once_into_inner(I, c, args, fr):
    return args[0].fields[0]

# ---------------------------------------------------------------------------- chrono (the optional feature of mpd_client: Timestamp)
import re as _re
_RFC3339 = _re.compile(rb'^(\d{4})-(\d{2})-(\d{2})[Tt ](\d{2}):(\d{2}):(\d{2})(\.\d+)?([Zz]|[+-](\d{2}):(\d{2}))$')
@model('DateTime::parse_from_rfc3339')
def m_parse_rfc3339(I, c, args, fr):
    """Ok(opaque instant) | Err(opaque ParseError); never panics (chrono docs).  Concrete text is decided by the RFC 3339
    grammar and calendar ranges; for text with symbolic parts both outcomes are explored."""
    items = as_items(args[0])
    if all(isinstance(x, int) for x in items):
        m = _RFC3339.match(bytes(items))
        good = False
        if m:
            y, mo, d, h, mi, sec = (int(m.group(k)) for k in range(1, 7))
            import calendar
            good = 1 <= mo <= 12 and 1 <= d <= calendar.monthrange(y, mo)[1] and h <= 23 and mi <= 59 and sec <= 60
            if good and m.group(9):
                good = int(m.group(9)) <= 23 and int(m.group(10)) <= 59
    else:
        good = I.ctx.choose(2, 'rfc3339') == 0
    return ok(Opaque('DateTime', 'instant')) if good else err(Opaque('ParseError', 'invalid'))

# ---------------------------------------------------------------------------- double-ended iterator methods (provided methods: built on next_back)
@model('DoubleEndedIterator::nth_back')
def m_nth_back(I, c, args, fr):
    from models_iter import iter_next_back, STOP
    it = args[0]
    for _ in range(args[1]):
        x = iter_next_back(I, it)
        if x is STOP:
            return none()
        I.drop_value(x)
    x = iter_next_back(I, it)
    return none() if x is STOP else some(x)

@model('DoubleEndedIterator::rfind')
def m_rfind_it(I, c, args, fr):
    from models_iter import iter_next_back, STOP
    while True:
        x = iter_next_back(I, args[0])
        if x is STOP:
            return none()
        if I.ctx.decide(I.call_value(args[1], [ref_to(x)])):
            return some(x)

@model('DoubleEndedIterator::rfold')
def m_rfold(I, c, args, fr):
    from models_iter import iter_next_back, STOP
    acc = args[1]
    while True:
        x = iter_next_back(I, args[0])
        if x is STOP:
            return acc
        acc = I.call_value(args[2], [acc, x])

@model('Iterator::advance_by')
def m_advance_by(I, c, args, fr):
    raise Unsupported('Iterator::advance_by (unstable)')
