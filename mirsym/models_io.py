"""Library models: std::io::{Read, Write, Error}, tokio io extension futures (read_buf / write_all), futures/polling.
The harness provides a `Transport` object as the `IO` type parameter of the connections."""
import z3
from values import *
from interp import model, Interp, Frame, short
from models_core import deref, as_slice, as_items, explode

class Transport:
    """scripted byte stream + captured writes.
       stream   : list of byte terms the peer sends
       cuts     : sorted list of stream offsets at which a read ends (segmentation); reads never cross a cut
       eof      : after the stream is exhausted reads return 0 (True) or the transport stays pending (False, async only)
       fail_read_at / fail_write_at : stream offset / write count at which a persistent error starts (None = never)"""
    def __init__(self, stream, cuts=(), eof=True):
        self.stream = list(stream); self.cuts = sorted(cuts); self.eof = eof
        self.pos = 0
        self.reads = 0
        self.out = []                 # bytes written by the client
        self.writes = []              # one entry per write call
        self.fail_read_at = None
        self.fail_write_at = None
        self.dropped = False
        self.pending_reads = 0        # async: number of times a read reported Pending
        self.read_log = []
        self.max_read = None          # optional cap on bytes per read
        self.on_write = None          # harness callback(transport, bytes) e.g. a simulated server
        self.blocked = False          # async: stream exhausted but more may come later
        self.limit = None             # bytes released to the client so far (None = everything written is readable)
        self.max_write = None
        self.write_budget = None      # async: bytes the transport still accepts before writes block (None = unlimited)
        self.interrupt_at = None      # index (0-based) of the read call that fails once with ErrorKind::Interrupted
        self.read_calls = 0
    def avail(self):
        """bytes deliverable by the next read"""
        end = len(self.stream) if self.limit is None else min(len(self.stream), self.limit)
        for c in self.cuts:
            if c > self.pos:
                end = min(end, c)
                break
        return end - self.pos
    def read_into(self, I, buf):
        """deliver up to len(buf) bytes; returns count"""
        self.reads += 1
        if self.reads > 10000:
            raise InternalError('transport read more than 10000 times')
        n = min(self.avail(), len(buf))
        if self.max_read:
            n = min(n, self.max_read)
        self.note_eof_read(n)
        for i in range(n):
            buf.back[buf.lo + i] = self.stream[self.pos + i]
        self.pos += n
        self.read_log.append(n)
        return n
    def note_eof_read(self, n):
        """a caller that keeps reading after the stream reported its end (0 bytes) never terminates: reported as a panic-like
        failure of the path after 32 such reads (the native replay then runs into its time limit)"""
        if n == 0 and self.pos >= len(self.stream):
            self.eof_reads = getattr(self, 'eof_reads', 0) + 1
            if self.eof_reads > 32:
                raise Panic('the connection keeps reading after the end of the stream (32 reads of 0 bytes): it never returns')
        else:
            self.eof_reads = 0
    def on_drop(self, I):
        self.dropped = True
    def __repr__(self):
        return '<transport pos=%d/%d>' % (self.pos, len(self.stream))

def io_error(kind, msg=None):
    return Opaque('io::Error', (kind, msg))

def transport(v):
    v = deref(v)
    if not isinstance(v, Transport):
        raise Unsupported('io on %s' % short(v))
    return v

# ---------------------------------------------------------------------------- std::io
@model('Read::read')
def m_read(I, c, args, fr):
    t = transport(args[0])
    buf = as_slice(args[1])
    t.read_calls += 1
    if t.interrupt_at is not None and t.read_calls - 1 == t.interrupt_at:
        return err(io_error('Interrupted', 'interrupted system call'))
    if t.fail_read_at is not None and t.pos >= t.fail_read_at:
        return err(io_error('ConnectionReset', 'read fault'))
    if len(buf) == 0:
        return ok(0)
    return ok(t.read_into(I, buf))

@model('Write::write_all')
def m_write_all(I, c, args, fr):
    t = transport(args[0])
    data = explode(I, as_items(args[1]))
    return do_write(I, t, data)

@model('Write::write')
def m_write(I, c, args, fr):
    """one write call: the transport may accept only a prefix (`max_write`)"""
    t = transport(args[0])
    data = explode(I, as_items(args[1]))
    k = len(data)
    if t.max_write is not None:
        k = min(k, t.max_write)
    r = do_write(I, t, data[:k])
    return ok(k) if r.variant == 'Ok' else r

def do_write(I, t, data):
    if t.fail_write_at is not None and len(t.writes) >= t.fail_write_at:
        t.writes.append(None)
        return err(io_error('BrokenPipe', 'write fault'))
    t.writes.append(list(data))
    t.out.extend(data)
    if t.on_write is not None:
        t.on_write(I, t, list(data))
    return ok(UNIT)

@model('Write::flush')
def m_flush(I, c, args, fr):
    return ok(UNIT)

@model('io::Error::new', 'Error::new')
def m_io_error_new(I, c, args, fr):
    kind = args[0]
    k = (kind.variant or kind.ty.split('::')[-1]) if isinstance(kind, Adt) else (kind.data if isinstance(kind, Opaque) else kind)
    return io_error(k, args[1] if len(args) > 1 else None)

@model('io::Error::kind', 'Error::kind')
def m_io_error_kind(I, c, args, fr):
    e = deref(args[0])
    return Adt('ErrorKind', e.data[0], 0, [])

@model('io::Error::other')
def m_io_error_other(I, c, args, fr):
    return io_error('Other', args[0])

# ---------------------------------------------------------------------------- futures
class PyFuture:
    """a library future implemented by the model: poll(I) -> value (ready) or PENDING"""
    def poll(self, I): raise NotImplementedError
    def on_drop(self, I): pass

class Pending:
    pass
PENDING = Pending()

def ready(v): return Adt('Poll', 'Ready', 0, [v])
def pending(): return Adt('Poll', 'Pending', 1, [])

class ReadBufFut(PyFuture):
    def __init__(self, t, buf): self.t = t; self.buf = buf
    def poll(self, I):
        t = self.t
        t.read_calls += 1
        if t.interrupt_at is not None and t.read_calls - 1 == t.interrupt_at:
            return err(io_error('Interrupted', 'interrupted system call'))
        if t.fail_read_at is not None and t.pos >= t.fail_read_at:
            return err(io_error('ConnectionReset', 'read fault'))
        n = t.avail()
        if t.max_read:
            n = min(n, t.max_read)
        if n == 0:
            if t.pos >= len(t.stream) and t.eof:
                t.reads += 1; t.read_log.append(0)
                t.note_eof_read(0)
                return ok(0)
            t.pending_reads += 1
            if t.pending_reads > 10000:
                raise InternalError('read polled more than 10000 times while pending')
            return PENDING
        t.reads += 1
        t.read_log.append(n)
        self.buf.b.extend(t.stream[t.pos:t.pos + n])
        t.pos += n
        return ok(n)

class WriteAllFut(PyFuture):
    """write_all: loops over poll_write until everything is written; the transport may accept only `write_budget`
    more bytes and then block (Pending) until the harness lifts the budget"""
    def __init__(self, t, data): self.t = t; self.data = list(data); self.off = 0
    def poll(self, I):
        t = self.t
        rem = len(self.data) - self.off
        n = rem if t.write_budget is None else min(rem, t.write_budget)
        if n > 0 or rem == 0:
            r = do_write(I, t, self.data[self.off:self.off + n])
            if r.variant == 'Err':
                return r
            self.off += n
            if t.write_budget is not None:
                t.write_budget -= n
        if self.off >= len(self.data):
            return ok(UNIT)
        return PENDING

@model('AsyncReadExt::read_buf')
def m_read_buf(I, c, args, fr):
    return ReadBufFut(transport(args[0]), deref(args[1]))

@model('AsyncWriteExt::write_all')
def m_awrite_all(I, c, args, fr):
    return WriteAllFut(transport(args[0]), explode(I, as_items(args[1])))

@model('AsyncWriteExt::write')
def m_awrite(I, c, args, fr):
    """one write call: the transport may accept only a prefix (harness chooses through `max_write`)"""
    t = transport(args[0])
    data = explode(I, as_items(args[1]))
    class W(PyFuture):
        def poll(self, I2):
            k = len(data)
            mw = getattr(t, 'max_write', None)
            if mw is not None:
                k = min(k, mw)
            if t.write_budget is not None:
                if t.write_budget == 0:
                    return PENDING
                k = min(k, t.write_budget)
                t.write_budget -= k
            r = do_write(I2, t, data[:k])
            return ok(k) if r.variant == 'Ok' else r
    return W()

@model('AsyncWriteExt::flush', 'AsyncWriteExt::shutdown')
def m_aflush(I, c, args, fr):
    class F(PyFuture):
        def poll(self, I2): return ok(UNIT)
    return F()

@model('IntoFuture::into_future')
def m_into_future(I, c, args, fr):
    return args[0]

def poll_value(I, fut, cx):
    """poll a future value: model future or repository coroutine"""
    f = fut
    while isinstance(f, (Pin, Ref)):
        f = f.ptr if isinstance(f, Pin) else f.get()
    if isinstance(f, PyFuture):
        r = f.poll(I)
        return pending() if r is PENDING else ready(r)
    if isinstance(f, Coroutine):
        return I.run(f.fn, [Pin(ref_to(f)), cx], f.env)
    if isinstance(f, Adt):
        from interp import runtime_type
        hit = I.prog.find_impl('Future', 'poll', runtime_type(f))
        if hit:
            return I.run(hit[0].func, [Pin(ref_to(f)), cx], dict(hit[1]))
    raise Unsupported('poll of %s' % short(f))

@model('Future::poll')
def m_poll(I, c, args, fr):
    return poll_value(I, args[0], args[1])

@model('poll_fn', 'future::poll_fn')
def m_poll_fn(I, c, args, fr):
    f = args[0]
    class PollFn(PyFuture):
        def poll(self, I2):
            r = I2.call_value(f, [CX])
            return PENDING if r.variant == 'Pending' else r.fields[0]
        def on_drop(self, I2):
            I2.drop_value(f)
    return PollFn()

CX = Opaque('Context')

def drive(I, fut, max_polls=64, between=None):
    """poll a future to completion (harness side); `between(I, n)` runs after every Pending"""
    for n in range(max_polls):
        r = poll_value(I, fut, CX)
        if r.variant == 'Ready':
            return r.fields[0]
        if between is not None:
            between(I, n)
    raise InternalError('future still pending after %d polls' % max_polls)


# ---------------------------------------------------------------------------- further write entry points
class WriteBufFut(PyFuture):
    """AsyncWriteExt::write_buf (one poll_write, the buffer is advanced by what was accepted) / write_all_buf (until empty)"""
    def __init__(self, t, buf, all_): self.t = t; self.buf = buf; self.all = all_; self.total = 0
    def poll(self, I):
        t = self.t
        b = self.buf
        while True:
            data = explode(I, list(b.b))
            if not data:
                return ok(self.total)
            k = len(data)
            if t.max_write is not None:
                k = min(k, t.max_write)
            if t.write_budget is not None:
                if t.write_budget == 0:
                    return PENDING
                k = min(k, t.write_budget)
                t.write_budget -= k
            r = do_write(I, t, data[:k])
            if r.variant == 'Err':
                return r
            del b.b[:k]
            self.total += k
            if not self.all:
                return ok(k)

@model('AsyncWriteExt::write_buf')
def m_awrite_buf(I, c, args, fr):
    return WriteBufFut(transport(args[0]), deref(args[1]), False)

@model('AsyncWriteExt::write_all_buf')
def m_awrite_all_buf(I, c, args, fr):
    return WriteBufFut(transport(args[0]), deref(args[1]), True)

@model('AsyncWriteExt::write_u8')
def m_awrite_u8(I, c, args, fr):
    return WriteAllFut(transport(args[0]), [args[1]])

@model('IoSlice::new')
def m_ioslice_new(I, c, args, fr):
    return Adt('IoSlice', None, 0, [as_slice(args[0])])

@model('IoSlice::len')
def m_ioslice_len(I, c, args, fr):
    return len(as_slice(deref(args[0]).fields[0]))

@model('Write::write_vectored')
def m_write_vectored(I, c, args, fr):
    """std's default implementation (what a writer that only implements write/flush gets): the first non-empty buffer goes to
    `write`; the harness transport is such a writer"""
    t = transport(args[0])
    bufs = as_slice(args[1]).items()
    for b in bufs:
        sl = as_slice(deref(b).fields[0])
        if len(sl):
            return m_write(I, c, [args[0], sl], fr)
    return m_write(I, c, [args[0], SliceRef([], 0, 0, 'slice')], fr)

@model('Write::is_write_vectored')
def m_is_write_vectored(I, c, args, fr):
    return False
