"""Library models: core / alloc (strings, slices, Option/Result, iterators, fmt, conversions).
Each model follows the documented contract of the std function it stands for."""
import re
import z3
from values import *
from interp import model, MODELS, runtime_type, seq_len, elem_len, short, Frame, simp, TypedInt, Wrapper
from rtypes import parse_type, base_name, subst, type_str, int_info, unify

# ============================================================================ small helpers
def deref(v):
    while isinstance(v, Ref):
        v = v.get()
    return v

def as_items(v):
    """list of elements of a str/slice-like value (through references)"""
    v = deref(v)
    if isinstance(v, SliceRef):
        return v.items()
    if isinstance(v, (StrBuf, ByteBuf)):
        return list(v.b)
    if isinstance(v, Array):
        return list(v.items)
    if isinstance(v, VecObj):
        return list(v.v)
    if isinstance(v, Adt) and v.ty == 'Cow':
        return as_items(v.fields[0])
    if isinstance(v, BoxObj):
        return as_items(v.v)
    raise Unsupported('as_items of %s' % type(v).__name__)

def as_slice(v, kind=None):
    v = deref(v)
    if isinstance(v, SliceRef):
        return v
    if isinstance(v, StrBuf):
        return v.as_ref()
    if isinstance(v, ByteBuf):
        return v.as_ref()
    if isinstance(v, Array):
        return SliceRef(v.items, 0, len(v.items), 'slice')
    if isinstance(v, VecObj):
        return SliceRef(v.v, 0, len(v.v), 'slice')
    if isinstance(v, Adt) and v.ty == 'Cow':
        return as_slice(v.fields[0])
    if isinstance(v, BoxObj):
        return as_slice(v.v)
    raise Unsupported('as_slice of %s' % type(v).__name__)

def concrete_bytes(items):
    out = bytearray()
    for b in items:
        if isinstance(b, int) and not isinstance(b, bool):
            out.append(b)
        elif isinstance(b, WChar) and z3.is_bv_value(b.cp):
            out += chr(b.cp.as_long()).encode('utf-8')
        else:
            return None
    return bytes(out)

def explode(I, items):
    """byte-level view of string elements: WChar -> its UTF-8 bytes (fresh symbolic bytes tied to the code point)"""
    out = []
    for x in items:
        if isinstance(x, WChar):
            out.extend(wchar_bytes(I, x))
        elif isinstance(x, DecRun):
            raise Unsupported('byte view of a symbolic decimal number')
        else:
            out.append(x)
    return out

def wchar_bytes(I, w):
    cache = getattr(I, '_wchar_cache', None)
    if cache is None:
        cache = I._wchar_cache = {}
    k = id(w)
    if k in cache and cache[k][0] is w:
        return cache[k][1]
    cp = w.cp
    if w.n == 2:
        b0 = simp(z3.Concat(z3.BitVecVal(0b110, 3), z3.Extract(10, 6, cp)))
        b1 = simp(z3.Concat(z3.BitVecVal(0b10, 2), z3.Extract(5, 0, cp)))
        bs = [b0, b1]
    elif w.n == 3:
        bs = [simp(z3.Concat(z3.BitVecVal(0b1110, 4), z3.Extract(15, 12, cp))),
              simp(z3.Concat(z3.BitVecVal(0b10, 2), z3.Extract(11, 6, cp))),
              simp(z3.Concat(z3.BitVecVal(0b10, 2), z3.Extract(5, 0, cp)))]
    elif w.n == 4:
        bs = [simp(z3.Concat(z3.BitVecVal(0b11110, 5), z3.Extract(20, 18, cp))),
              simp(z3.Concat(z3.BitVecVal(0b10, 2), z3.Extract(17, 12, cp))),
              simp(z3.Concat(z3.BitVecVal(0b10, 2), z3.Extract(11, 6, cp))),
              simp(z3.Concat(z3.BitVecVal(0b10, 2), z3.Extract(5, 0, cp)))]
    else:
        raise Unsupported('%d-byte scalar' % w.n)
    cache[k] = (w, bs)
    return bs

def char_of(I, x):
    """the `char` (u32) value of a string element"""
    if isinstance(x, WChar):
        return x.cp
    if is_sym(x):
        if not I.ctx.decide(z3.ULT(x, 0x80)):
            raise Unsupported('raw non-ASCII byte inside a str (use WChar elements)')
        return simp(z3.ZeroExt(24, x))
    if x >= 0x80:
        raise Unsupported('concrete non-ASCII byte inside a str')
    return x

def elem_of_char(I, c):
    """string element for a `char` value"""
    if is_sym(c):
        # was it produced from a WChar?  (code point terms of WChars are remembered)
        reg = getattr(I, '_wchars', {})
        w = reg.get(c.get_id())
        if w is not None:
            return w
        c = bv(c, 32)
        if I.ctx.decide(z3.ULT(c, 0x80)):
            return simp(z3.Extract(7, 0, c))
        if I.ctx.decide(z3.ULT(c, 0x800)):
            return WChar(c, 2)
        if I.ctx.decide(z3.ULT(c, 0x10000)):
            return WChar(c, 3)
        raise Unsupported('symbolic char beyond the BMP')
    if c < 0x80:
        return c
    return ('bytes', list(chr(c).encode()))

def new_wchar(I, name, n=2):
    """fresh symbolic n-byte scalar value; registers it so that chars() -> push() round-trips"""
    cp = I.ctx.fresh_bv(name, 32)
    if n == 2:
        I.ctx.assume(z3.And(z3.UGE(cp, 0x80), z3.ULE(cp, 0x7ff)))
    elif n == 3:
        I.ctx.assume(z3.And(z3.UGE(cp, 0x800), z3.ULE(cp, 0xffff), z3.Or(z3.ULT(cp, 0xd800), z3.UGT(cp, 0xdfff))))
    w = WChar(cp, n)
    if not hasattr(I, '_wchars'):
        I._wchars = {}
    I._wchars[cp.get_id()] = w
    return w

def push_char(I, buf, c):
    e = elem_of_char(I, c)
    if isinstance(e, tuple):
        buf.extend(e[1])
    else:
        buf.append(e)

def mk_option(v):
    return none() if v is None else some(v)

def ordering(c):
    return Adt('Ordering', {-1: 'Less', 0: 'Equal', 1: 'Greater'}[c], c, [])

def targ_str(c, i=0):
    return type_str(c.targs[i]) if len(c.targs) > i else None

def resolve_targ(c, fr, i=0):
    if len(c.targs) <= i:
        return None
    t = c.targs[i]
    if fr is not None and fr.env:
        t = subst(t, fr.env)
    return t

# ============================================================================ panics
@model('panic_fmt', 'panicking::panic', 'panic', 'panic_display', 'panicking::panic_fmt', 'panic_explicit',
       'panicking::panic_explicit', 'panicking::assert_failed', 'assert_failed', 'unreachable_display',
       'panic_str_2015', 'panicking::panic_nounwind', 'begin_panic', 'panic_cold_explicit', 'panic_cold_display',
       'option::unwrap_failed', 'unwrap_failed', 'option::expect_failed', 'expect_failed', 'result::unwrap_failed',
       'panic_const::panic_const_add_overflow', 'panic_bounds_check')
def m_panic(I, c, args, fr):
    msg = c.name
    for a in args:
        if type(a).__name__ == 'FmtArgs':
            try:
                msg = show_bytes(a.render(I))
            except Exception:
                msg = 'panic (message not rendered)'
            break
        if isinstance(a, SliceRef) and a.kind == 'str':
            msg = show_bytes(a.items())
            break
    raise Panic(msg, fr.func.name if fr is not None and fr.func is not None else None)

# ============================================================================ str
@model('str::len')
def m_str_len(I, c, args, fr):
    return seq_len(args[0])

@model('str::is_empty', 'slice::is_empty')
def m_str_is_empty(I, c, args, fr):
    return len(as_items(args[0])) == 0

@model('str::as_bytes')
def m_as_bytes(I, c, args, fr):
    s = as_slice(args[0])
    if any(isinstance(x, (WChar, DecRun)) for x in s.items()):
        items = explode(I, s.items())
        return SliceRef(items, 0, len(items), 'slice')
    return SliceRef(s.back, s.lo, s.hi, 'slice')

@model('str::as_ptr', 'slice::as_ptr')
def m_as_ptr(I, c, args, fr):
    return args[0]

@model('str::contains')
def m_contains(I, c, args, fr):
    items = as_items(args[0])
    pat = args[1]
    pv = deref(pat)
    if isinstance(pv, SliceRef) and pv.kind == 'str':
        return find_sub(I, items, pv.items()) is not None
    if isinstance(pv, (SliceRef, Array)):          # &[char] / [char; N]
        chars = as_items(pv)
        conds = []
        for x in items:
            ch = char_of_nofork(x)
            for p in chars:
                conds.append(int_eq(ch, p))
        return b_or(*conds)
    if isinstance(pv, int) or is_sym(pv):
        return b_or(*[elem_is_char(I, x, pv) for x in items])
    if isinstance(pv, (Closure, FnItem)):
        for x in items:
            r = I.call_value(pv, [char_of(I, x)])
            if I.ctx.decide(r):
                return True
        return False
    raise Unsupported('str::contains pattern %r' % (pv,))

def elem_is_char(I, x, pv):
    """does string element x equal the char pv?  Composite numeric elements (DecRun / FloatLit) consist of digits (and
    one '.'): a non-digit, non-'.' char never matches them; anything else about them is outside the model"""
    if isinstance(x, (DecRun, FloatLit)):
        if isinstance(pv, int) and not (48 <= pv <= 57 or pv == 46):
            return False
        raise Unsupported('character search inside a symbolic number')
    return int_eq(char_of_nofork(x), pv)

def char_of_nofork(x):
    """char value of an element without forking: a raw symbolic byte b is the char b when b < 0x80; bytes >= 0x80 do
    not occur in str values (strings hold ASCII bytes or WChar elements), which the string constructors ensure"""
    if isinstance(x, WChar):
        return x.cp
    if is_sym(x):
        return z3.ZeroExt(24, x)
    return x

def find_sub(I, items, pat):
    """first index where `pat` occurs in `items` (forking on symbolic comparisons) or None"""
    n = len(pat)
    for i in range(len(items) - n + 1):
        if I.ctx.decide(seq_eq(items[i:i+n], pat)):
            return i
    return None

@model('str::starts_with')
def m_starts_with(I, c, args, fr):
    items = as_items(args[0])
    pv = deref(args[1])
    if isinstance(pv, SliceRef):
        p = pv.items()
        if len(p) > len(items):
            return False
        return seq_eq(items[:len(p)], p)
    if isinstance(pv, int) or is_sym(pv):
        return bool(items) and int_eq(char_of_nofork(items[0]), pv)
    raise Unsupported('starts_with pattern')

@model('str::ends_with')
def m_ends_with(I, c, args, fr):
    items = as_items(args[0])
    pv = deref(args[1])
    if isinstance(pv, SliceRef):
        p = pv.items()
        if len(p) > len(items):
            return False
        return seq_eq(items[len(items)-len(p):], p)
    raise Unsupported('ends_with pattern')

@model('str::chars')
def m_chars(I, c, args, fr):
    from models_iter import CharsIter
    return CharsIter(as_slice(args[0]))

@model('str::char_indices')
def m_char_indices(I, c, args, fr):
    from models_iter import CharIndicesIter
    return CharIndicesIter(as_slice(args[0]))

@model('str::bytes')
def m_bytes(I, c, args, fr):
    from models_iter import ListIter
    items = explode(I, as_items(args[0]))
    return ListIter(items, 'val')

@model('str::to_owned', 'str::to_string', '<str as ToOwned>::to_owned', '<str as ToString>::to_string', 'String::from_str',
       '<String as FromStr>::from_str')
def m_str_to_owned(I, c, args, fr):
    r = StrBuf(as_items(args[0]))
    return ok(r) if c.name == 'from_str' else r

@model('str::eq_ignore_ascii_case')
def m_eq_ignore_case(I, c, args, fr):
    a = as_items(args[0]); b = as_items(args[1])
    if len(a) != len(b):
        return False
    conds = []
    for x, y in zip(a, b):
        conds.append(int_eq(ascii_lower(x), ascii_lower(y)))
    return b_and(*conds)

def ascii_lower(x):
    if isinstance(x, WChar):
        return x.cp
    if is_sym(x):
        return simp(z3.If(z3.And(z3.UGE(x, 65), z3.ULE(x, 90)), x + 32, x))
    return x + 32 if 65 <= x <= 90 else x

def ascii_upper(x):
    if isinstance(x, WChar):
        return x
    if is_sym(x):
        return simp(z3.If(z3.And(z3.UGE(x, 97), z3.ULE(x, 122)), x - 32, x))
    return x - 32 if 97 <= x <= 122 else x

@model('str::to_ascii_lowercase', 'str::to_lowercase')
def m_to_lower(I, c, args, fr):
    items = as_items(args[0])
    if c.name == 'to_lowercase' and any(isinstance(x, WChar) for x in items):
        raise Unsupported('to_lowercase on non-ASCII')
    return StrBuf([x if isinstance(x, WChar) else ascii_lower(x) for x in items])

@model('str::to_ascii_uppercase', 'str::to_uppercase')
def m_to_upper(I, c, args, fr):
    items = as_items(args[0])
    if c.name == 'to_uppercase' and any(isinstance(x, WChar) for x in items):
        raise Unsupported('to_uppercase on non-ASCII')
    return StrBuf([ascii_upper(x) for x in items])

@model('str::split_once')
def m_split_once(I, c, args, fr):
    s = as_slice(args[0])
    pv = deref(args[1])
    items = s.items()
    if isinstance(pv, SliceRef):
        p = pv.items()
        i = find_sub(I, items, p)
        if i is None:
            return none()
        return some(Tup([s.sub(0, i), s.sub(i + len(p), len(items))]))
    for i, x in enumerate(items):
        if I.ctx.decide(elem_is_char(I, x, pv)):
            return some(Tup([s.sub(0, i), s.sub(i + 1, len(items))]))
    return none()

@model('str::find')
def m_str_find(I, c, args, fr):
    s = as_slice(args[0])
    pv = deref(args[1])
    items = s.items()
    if isinstance(pv, SliceRef):
        i = find_sub(I, items, pv.items())
        return mk_option(None if i is None else byte_offset(items, i))
    for i, x in enumerate(items):
        if I.ctx.decide(int_eq(char_of_nofork(x), pv)):
            return some(byte_offset(items, i))
    return none()

def byte_offset(items, i):
    return sum(elem_len(x) for x in items[:i])

def elem_index(items, off):
    """element index of byte offset `off` (must fall on an element boundary)"""
    pos = 0
    for i, x in enumerate(items):
        if pos == off:
            return i
        pos += elem_len(x)
    if pos == off:
        return len(items)
    raise Panic('byte index is not a char boundary')

@model('str::split_at')
def m_split_at(I, c, args, fr):
    s = as_slice(args[0])
    k = elem_index(s.items(), args[1]) if s.kind == 'str' else args[1]
    if k > len(s):
        raise Panic('split_at out of bounds')
    return Tup([s.sub(0, k), s.sub(k, len(s))])

@model('str::trim', 'str::trim_start', 'str::trim_end')
def m_trim(I, c, args, fr):
    s = as_slice(args[0])
    items = s.items()
    lo, hi = 0, len(items)
    def ws(x):
        if isinstance(x, WChar):
            return False
        if is_sym(x):
            return z3.Or(x == 32, z3.And(z3.UGE(x, 9), z3.ULE(x, 13)))
        return x == 32 or 9 <= x <= 13
    if c.name in ('trim', 'trim_start'):
        while lo < hi and I.ctx.decide(ws(items[lo])):
            lo += 1
    if c.name in ('trim', 'trim_end'):
        while hi > lo and I.ctx.decide(ws(items[hi-1])):
            hi -= 1
    return s.sub(lo, hi)

@model('str::parse')
def m_str_parse(I, c, args, fr):
    t = resolve_targ(c, fr)
    if t is None:
        raise Unsupported('str::parse without target type')
    return parse_from_str(I, as_items(args[0]), type_str(t), fr)

def parse_from_str(I, items, ty, fr):
    info = int_info(ty)
    if info is not None and ty != 'bool' and ty != 'char':
        return parse_int(I, items, info[0], info[1])
    if ty in ('f64', 'f32'):
        return parse_float(I, items)
    if ty == 'String':
        return ok(StrBuf(items))
    if ty == 'bool':
        b = concrete_bytes(items)
        if b is None:
            if I.ctx.decide(seq_eq(items, list(b'true'))):
                return ok(True)
            if I.ctx.decide(seq_eq(items, list(b'false'))):
                return ok(False)
            return err(Opaque('ParseBoolError'))
        return ok(True) if b == b'true' else ok(False) if b == b'false' else err(Opaque('ParseBoolError'))
    # repo type implementing FromStr
    hit = I.prog.find_impl('FromStr', 'from_str', parse_type(ty))
    if hit:
        e, env = hit
        return I.run(e.func, [SliceRef(list(items), 0, len(items), 'str')], dict(env))
    raise Unsupported('str::parse::<%s>' % ty)

def parse_int(I, items, bits, signed):
    """<uN as FromStr>::from_str: optional '+', then 1.. decimal digits, overflow -> Err (PosOverflow)"""
    E = lambda kind: err(Opaque('ParseIntError', kind))
    if any(isinstance(x, (WChar, FloatLit)) for x in items):
        return E('InvalidDigit')
    if len(items) == 1 and isinstance(items[0], DecRun):
        d = items[0]
        if d.bits <= bits:
            return ok(bvx(d.val, bits))
        if I.ctx.decide(z3.ULT(d.val, 1 << bits)):
            return ok(simp(z3.Extract(bits - 1, 0, d.val)))
        return E('PosOverflow')
    if any(isinstance(x, DecRun) for x in items):
        raise Unsupported('parse of a string mixing symbolic numbers and bytes')
    if not items:
        return E('Empty')
    i = 0
    neg = False
    if I.ctx.decide(int_eq(items[0], ord('+'))):
        i = 1
    elif signed and I.ctx.decide(int_eq(items[0], ord('-'))):
        i = 1; neg = True
    if i == len(items):
        return E('InvalidDigit')
    wide = bits + 8
    acc = 0
    for x in items[i:]:
        if is_sym(x):
            if not I.ctx.decide(z3.And(z3.UGE(x, 48), z3.ULE(x, 57))):
                return E('InvalidDigit')
            d = z3.ZeroExt(wide - 8, x - 48)
            acc = simp(bvx(acc, wide) * 10 + d)
            lim = (1 << bits) if not signed else ((1 << (bits - 1)) + (1 if neg else 0))
            if I.ctx.decide(z3.UGE(acc, lim)):
                return E('PosOverflow')
        else:
            if not 48 <= x <= 57:
                return E('InvalidDigit')
            if is_sym(acc):
                acc = simp(acc * 10 + (x - 48))
                lim = (1 << bits) if not signed else ((1 << (bits - 1)) + (1 if neg else 0))
                if I.ctx.decide(z3.UGE(acc, lim)):
                    return E('PosOverflow')
            else:
                acc = acc * 10 + (x - 48)
                lim = (1 << bits) if not signed else ((1 << (bits - 1)) + (1 if neg else 0))
                if acc >= lim:
                    return E('PosOverflow' if not neg else 'NegOverflow')
    if is_sym(acc):
        r = simp(z3.Extract(bits - 1, 0, acc))
        return ok(simp(-r) if neg else r)
    if neg:
        acc = (-acc) & ((1 << bits) - 1)
    return ok(acc)

def bvx(v, bits):
    return bv(v, bits)

def parse_float(I, items):
    """<f64 as FromStr>::from_str.  Concrete text -> python float; symbolic text -> fork: Err, or Ok(any f64) when
    the text could be a float literal (over-approximation stated in the evidence: "f64 parsing = any f64")"""
    b = concrete_bytes(items) if not any(isinstance(x, (WChar, DecRun, FloatLit)) for x in items) else None
    if b is not None:
        try:
            s = b.decode()
            if not re.match(r'^[+-]?(\d+\.?\d*([eE][+-]?\d+)?|\.\d+([eE][+-]?\d+)?|inf|infinity|nan)$', s, re.I):
                return err(Opaque('ParseFloatError'))
            return ok(float(s))
        except Exception:
            return err(Opaque('ParseFloatError'))
    if any(isinstance(x, WChar) for x in items):
        return err(Opaque('ParseFloatError'))
    if len(items) == 1 and isinstance(items[0], DecRun):
        # an integer text: below 2^53 the f64 is exact; above, it is some f64 >= 2^53 (rounding not modelled: over-approximation,
        # the witness integer is re-derived from the chosen real when the reply is written out)
        d = items[0]
        if I.ctx.decide(z3.ULT(d.val, 1 << 53)):
            return ok(z3.ToReal(z3.BV2Int(d.val)))
        r = z3.Real('f64!%d' % I.ctx.nfresh); I.ctx.nfresh += 1
        I.ctx.assume(r >= z3.RealVal(1 << 53))
        I.ctx.assume(r <= z3.RealVal(1 << d.bits))
        d.as_float = r
        return ok(r)
    if len(items) == 1 and isinstance(items[0], FloatLit):
        return ok(items[0].val)
    if any(isinstance(x, (DecRun, FloatLit)) for x in items):
        return err(Opaque('ParseFloatError'))
    if not items:
        return err(Opaque('ParseFloatError'))
    # free symbolic bytes: too short to spell an interesting number - they parse to an error or to one of the
    # values their length can spell; the model keeps only the error outcome and the single-digit outcome
    if len(items) == 1 and is_sym(items[0]):
        if I.ctx.decide(z3.And(z3.UGE(items[0], 48), z3.ULE(items[0], 57))):
            return ok(z3.ToReal(z3.BV2Int(items[0] - 48)))
        return err(Opaque('ParseFloatError'))
    if all(is_sym(x) or isinstance(x, int) for x in items) and len(items) <= 3:
        dig = [z3.And(z3.UGE(x, 48), z3.ULE(x, 57)) if is_sym(x) else (48 <= x <= 57) for x in items]
        if I.ctx.decide(b_and(*dig)):
            acc = 0
            for x in items:
                acc = acc * 10 + (z3.BV2Int(x - 48) if is_sym(x) else x - 48)
            return ok(z3.ToReal(acc) if is_sym(acc) else float(acc))
        if I.ctx.decide(b_or(*dig)):
            raise Unsupported('f64 parse of free bytes that contain digits and other characters')
        return err(Opaque('ParseFloatError'))
    raise Unsupported('f64 parse of a long symbolic string')

@model('from_utf8', 'str::from_utf8', 'core::str::from_utf8', 'converts::from_utf8')
def m_from_utf8(I, c, args, fr):
    s = as_slice(args[0])
    items = s.items()
    # ASCII bytes are valid; a byte >= 0x80 makes this model decide validity only for concrete data
    conc = concrete_bytes(items) if not any(isinstance(x, (WChar, DecRun)) for x in items) else None
    if conc is not None:
        try:
            conc.decode('utf-8')
            return ok(SliceRef(s.back, s.lo, s.hi, 'str'))
        except UnicodeDecodeError:
            return err(Opaque('Utf8Error'))
    if any(isinstance(x, (WChar, DecRun, FloatLit)) for x in items):
        return ok(SliceRef(s.back, s.lo, s.hi, 'str'))
    from oracles.utf8 import utf8_valid
    segs = []
    if utf8_valid(I.ctx, items, segs):
        if all(n == 1 for _, n in segs):
            return ok(SliceRef(s.back, s.lo, s.hi, 'str'))
        # multi-byte sequences become scalar elements (a read-only copy: &str cannot be written through)
        out = []
        for st, n in segs:
            if n == 1:
                out.append(items[st]); continue
            bs = [bv(x, 8) for x in items[st:st + n]]
            if n == 2:
                cp = z3.ZeroExt(21, z3.Concat(z3.Extract(4, 0, bs[0]), z3.Extract(5, 0, bs[1])))
            elif n == 3:
                cp = z3.ZeroExt(16, z3.Concat(z3.Extract(3, 0, bs[0]), z3.Extract(5, 0, bs[1]), z3.Extract(5, 0, bs[2])))
            else:
                cp = z3.ZeroExt(11, z3.Concat(z3.Extract(2, 0, bs[0]), z3.Extract(5, 0, bs[1]), z3.Extract(5, 0, bs[2]), z3.Extract(5, 0, bs[3])))
            w = WChar(simp(cp), n)
            if not hasattr(I, '_wchars'):
                I._wchars = {}
            I._wchars[w.cp.get_id()] = w
            out.append(w)
        return ok(SliceRef(out, 0, len(out), 'str'))
    return err(Opaque('Utf8Error'))

@model('from_utf8_unchecked', 'str::from_utf8_unchecked')
def m_from_utf8_unchecked(I, c, args, fr):
    s = as_slice(args[0])
    return SliceRef(s.back, s.lo, s.hi, 'str')

# ---------------------------------------------------------------------------- char
@model('char::is_ascii_alphabetic')
def m_is_ascii_alphabetic(I, c, args, fr):
    x = deref(args[0])
    if is_sym(x):
        return simp(z3.Or(z3.And(z3.UGE(x, 65), z3.ULE(x, 90)), z3.And(z3.UGE(x, 97), z3.ULE(x, 122))))
    return 65 <= x <= 90 or 97 <= x <= 122

@model('char::is_ascii_digit')
def m_is_ascii_digit(I, c, args, fr):
    x = deref(args[0])
    if is_sym(x):
        return simp(z3.And(z3.UGE(x, 48), z3.ULE(x, 57)))
    return 48 <= x <= 57

@model('char::is_ascii_alphanumeric')
def m_is_ascii_alnum(I, c, args, fr):
    return b_or(m_is_ascii_alphabetic(I, c, args, fr), m_is_ascii_digit(I, c, args, fr))

@model('char::is_ascii', 'u8::is_ascii')
def m_is_ascii(I, c, args, fr):
    x = deref(args[0])
    if is_sym(x):
        return simp(z3.ULT(x, 0x80))
    return x < 0x80

@model('char::is_ascii_whitespace', 'u8::is_ascii_whitespace')
def m_is_ascii_ws(I, c, args, fr):
    x = deref(args[0])
    if is_sym(x):
        return simp(z3.Or(x == 32, x == 9, x == 10, x == 12, x == 13))
    return x in (32, 9, 10, 12, 13)

@model('char::is_whitespace')
def m_is_ws(I, c, args, fr):
    x = deref(args[0])
    if is_sym(x):
        return simp(z3.Or(x == 32, z3.And(z3.UGE(x, 9), z3.ULE(x, 13)), x == 0x85, x == 0xa0, x == 0x1680,
                          z3.And(z3.UGE(x, 0x2000), z3.ULE(x, 0x200a)), x == 0x2028, x == 0x2029, x == 0x202f,
                          x == 0x205f, x == 0x3000))
    return chr(x).isspace() and x not in (0x1c, 0x1d, 0x1e, 0x1f)

@model('char::is_ascii_uppercase', 'u8::is_ascii_uppercase')
def m_is_upper(I, c, args, fr):
    x = deref(args[0])
    if is_sym(x):
        return simp(z3.And(z3.UGE(x, 65), z3.ULE(x, 90)))
    return 65 <= x <= 90

@model('char::is_ascii_lowercase', 'u8::is_ascii_lowercase')
def m_is_lower(I, c, args, fr):
    x = deref(args[0])
    if is_sym(x):
        return simp(z3.And(z3.UGE(x, 97), z3.ULE(x, 122)))
    return 97 <= x <= 122

@model('char::is_ascii_control', 'u8::is_ascii_control', 'char::is_control')
def m_is_control(I, c, args, fr):
    x = deref(args[0])
    if is_sym(x):
        r = z3.Or(z3.ULT(x, 32), x == 127)
        if c.name == 'is_control' and x.size() > 8:
            r = z3.Or(r, z3.And(z3.UGE(x, 0x80), z3.ULE(x, 0x9f)))
        return simp(r)
    return x < 32 or x == 127 or (c.name == 'is_control' and 0x80 <= x <= 0x9f)

@model('char::to_ascii_lowercase', 'u8::to_ascii_lowercase')
def m_char_lower(I, c, args, fr):
    return ascii_lower(deref(args[0]))

@model('char::to_ascii_uppercase', 'u8::to_ascii_uppercase')
def m_char_upper(I, c, args, fr):
    return ascii_upper(deref(args[0]))

@model('char::len_utf8')
def m_len_utf8(I, c, args, fr):
    x = args[0]
    if is_sym(x):
        if I.ctx.decide(z3.ULT(x, 0x80)): return 1
        if I.ctx.decide(z3.ULT(x, 0x800)): return 2
        if I.ctx.decide(z3.ULT(x, 0x10000)): return 3
        return 4
    return len(chr(x).encode())

@model('<char as From>::from', 'char::from_u32_unchecked')
def m_char_from(I, c, args, fr):
    x = args[0]
    if is_sym(x):
        return simp(z3.ZeroExt(32 - x.size(), x)) if x.size() < 32 else x
    return x

# ============================================================================ String
@model('String::new')
def m_string_new(I, c, args, fr):
    return StrBuf([])

@model('String::with_capacity')
def m_string_with_capacity(I, c, args, fr):
    return StrBuf([])

@model('String::push')
def m_string_push(I, c, args, fr):
    push_char(I, deref(args[0]).b, args[1])
    return UNIT

@model('String::push_str')
def m_string_push_str(I, c, args, fr):
    deref(args[0]).b.extend(as_items(args[1]))
    return UNIT

@model('String::len', 'String::capacity')
def m_string_len(I, c, args, fr):
    return seq_len(deref(args[0]))

@model('String::is_empty')
def m_string_is_empty(I, c, args, fr):
    return len(deref(args[0]).b) == 0

@model('String::as_str', 'String::as_mut_str', '<String as Borrow>::borrow')
def m_string_as_str(I, c, args, fr):
    return deref(args[0]).as_ref()

@model('String::as_bytes')
def m_string_as_bytes(I, c, args, fr):
    return m_as_bytes(I, c, args, fr)

@model('String::into_boxed_str')
def m_into_boxed_str(I, c, args, fr):
    return StrBuf(args[0].b, 'Box<str>')

@model('String::into_bytes')
def m_into_bytes(I, c, args, fr):
    return VecObj(explode(I, args[0].b))

@model('String::clear')
def m_string_clear(I, c, args, fr):
    del deref(args[0]).b[:]
    return UNIT

@model('String::from_utf8')
def m_string_from_utf8(I, c, args, fr):
    v = args[0]
    r = m_from_utf8(I, c, [SliceRef(v.v, 0, len(v.v), 'slice')], fr)
    if r.variant == 'Ok':
        return ok(StrBuf(v.v))
    return r

@model('format', 'fmt::format', 'alloc::fmt::format', 'format::format_inner', 'must_use')
def m_format(I, c, args, fr):
    if c.name == 'must_use':
        return args[0]
    a = args[0]
    return StrBuf(a.render(I))

# ============================================================================ Box / Arc / Cow
@model('Box::new', 'Box::pin')
def m_box_new(I, c, args, fr):
    b = BoxObj(args[0])
    return Pin(b) if c.name == 'pin' else b

@model('Arc::new', 'Rc::new')
def m_arc_new(I, c, args, fr):
    return BoxObj(args[0], 'Arc')

@model('Box::new_uninit')
def m_box_new_uninit(I, c, args, fr):
    return BoxObj(Wrapper(), 'BoxUninit')

@model('box_assume_init_into_vec_unsafe', 'boxed::box_assume_init_into_vec_unsafe')
def m_box_into_vec(I, c, args, fr):
    b = args[0]
    arr = b.v.v if isinstance(b.v, Wrapper) else b.v
    return VecObj(arr.items)

@model('slice::into_vec', 'hack::into_vec')
def m_slice_into_vec(I, c, args, fr):
    b = args[0]
    arr = b.v if isinstance(b, BoxObj) else b
    return VecObj(as_items(arr))

@model('Cow::into_owned')
def m_cow_into_owned(I, c, args, fr):
    cow = args[0]
    inner = cow.fields[0]
    if cow.variant == 'Owned':
        return inner
    return StrBuf(as_items(inner))

@model('Cow::is_borrowed', 'Cow::is_owned')
def m_cow_is(I, c, args, fr):
    cow = deref(args[0])
    return (cow.variant == 'Borrowed') == (c.name == 'is_borrowed')

# ============================================================================ conversions
def conv_into(I, v, target, fr, src_t=None):
    """`From::from` / `Into::into` from value v to static target type (type tree) - builtin cases"""
    tb = base_name(target) if target is not None else None
    if target is not None and target[0] == 'path':
        ts = type_str(target)
    else:
        ts = None
    dv = v
    if tb == 'String' or ts == 'String':
        if isinstance(dv, StrBuf):
            return StrBuf(dv.b) if dv.kind != 'String' else dv
        if isinstance(dv, (SliceRef, Ref, Adt)):
            return StrBuf(as_items(dv))
        if isinstance(dv, int) or is_sym(dv):     # char
            s = StrBuf([]); push_char(I, s.b, dv); return s
    if tb in ('Box', 'Arc', 'Rc') and target[2] and target[2][0] == ('path', 'str', ()):
        kind = tb + '<str>'
        if isinstance(dv, StrBuf):
            if dv.kind == kind:
                return dv
            return StrBuf(dv.b, kind)
        return StrBuf(as_items(dv), kind)
    if tb == 'Box' and target[2] and target[2][0][0] == 'opaque' and target[2][0][1].startswith('dyn'):
        return BoxObj(dv)
    if tb == 'Box':
        return BoxObj(dv)
    if tb == 'BytesMut':
        return ByteBuf(explode(I, as_items(dv)))
    if tb == 'Bytes':
        if isinstance(dv, ByteBuf):
            return ByteBuf(dv.b, 'Bytes')
        return ByteBuf(explode(I, as_items(dv)), 'Bytes')
    if tb == 'Vec':
        if isinstance(dv, VecObj):
            return dv
        if isinstance(dv, StrBuf):
            return VecObj(explode(I, dv.b))
        if isinstance(dv, ByteBuf):
            return VecObj(dv.b)
        return VecObj(as_items(dv))
    if tb == 'Cow':
        if isinstance(dv, StrBuf):
            return Adt('Cow', 'Owned', 1, [dv])
        return Adt('Cow', 'Borrowed', 0, [dv])
    if tb == 'Option':
        return some(dv)
    if tb == 'Error' and isinstance(dv, Opaque) and dv.kind == 'io::ErrorKind':
        return Opaque('io::Error', (dv.data, None))
    info = int_info(ts)
    if info is not None and (isinstance(dv, (int, bool)) or is_sym(dv)):
        if isinstance(dv, bool):
            return int(dv)
        if is_sym(dv):
            return bv(dv, info[0])
        return dv
    if ts in ('f64', 'f32'):
        if is_sym(dv) and z3.is_bv(dv):
            return z3.fpToFPUnsigned(z3.RNE(), dv, z3.Float64())
        return float(dv) if isinstance(dv, int) else dv
    if tb == 'Duration' and isinstance(dv, Adt) and dv.ty == 'Duration':
        return dv
    return None

@model('From::from')
def m_from(I, c, args, fr):
    v = args[0]
    target = subst(c.qself, fr.env) if fr is not None and fr.env else c.qself
    src = c.trait[1][0] if c.trait[1] else None
    if src is not None and fr is not None and fr.env:
        src = subst(src, fr.env)
    if src is not None and unify(target, src, (), {}) and target[0] != 'opaque':
        return v
    r = conv_into(I, v, target, fr, src)
    if r is None:
        raise Unsupported('From::from to %s from %s' % (type_str(target), short(v)))
    return r

@model('Into::into')
def m_into(I, c, args, fr):
    v = args[0]
    target = c.trait[1][0] if c.trait[1] else None
    if target is not None and fr is not None and fr.env:
        target = subst(target, fr.env)
    src = subst(c.qself, fr.env) if fr is not None and fr.env else c.qself
    if target is None:
        raise Unsupported('Into::into without target')
    # repo impl `From<Src> for Target`?
    for st in (src, runtime_type(v)):
        if st is None:
            continue
        hit = I.prog.find_impl('From', 'from', target, (st,))
        if hit:
            e, env = hit
            return I.run(e.func, [v], dict(env))
    if unify(target, src, (), {}) and target[0] == 'path' and src[0] == 'path' and not is_param_like(src):
        return v
    r = conv_into(I, v, target, fr, src)
    if r is None:
        rt = runtime_type(v)
        if rt is not None and unify(target, rt, (), {}):
            return v
        raise Unsupported('Into::into to %s from %s' % (type_str(target), short(v)))
    return r

def is_param_like(t):
    return t[0] == 'path' and not t[2] and re.match(r'^[A-Z]\w?$', t[1]) is not None

@model('AsRef::as_ref', 'Borrow::borrow', 'AsMut::as_mut')
def m_as_ref(I, c, args, fr):
    v = deref(args[0])
    if isinstance(v, (StrBuf, ByteBuf)):
        s = v.as_ref()
        tgt = c.trait[1][0] if c.trait[1] else None
        if tgt is not None and tgt[0] == 'slice' and s.kind == 'str':
            items = explode(I, s.items()) if any(isinstance(x, (WChar, DecRun)) for x in s.items()) else None
            return SliceRef(items, 0, len(items), 'slice') if items is not None else SliceRef(s.back, s.lo, s.hi, 'slice')
        return s
    if isinstance(v, SliceRef):
        tgt = c.trait[1][0] if c.trait[1] else None
        if tgt is not None and tgt[0] == 'slice' and v.kind == 'str':
            return m_as_bytes(I, c, [v], fr)
        return v
    if isinstance(v, Adt) and v.ty == 'Cow':
        return as_slice(v)
    if isinstance(v, VecObj):
        return as_slice(v)
    if isinstance(v, BoxObj):
        return Ref(AttrLoc(v, 'v'))
    return args[0]

@model('Deref::deref', 'DerefMut::deref_mut')
def m_deref(I, c, args, fr):
    v = deref(args[0])
    if isinstance(v, (StrBuf, ByteBuf)):
        return v.as_ref()
    if isinstance(v, VecObj):
        return SliceRef(v.v, 0, len(v.v), 'slice')
    if isinstance(v, Adt) and v.ty == 'Cow':
        return as_slice(v.fields[0])
    if isinstance(v, BoxObj):
        if isinstance(v.v, (StrBuf,)):
            return v.v.as_ref()
        return Ref(AttrLoc(v, 'v'))
    if isinstance(v, Pin):
        return v.ptr
    if isinstance(v, SliceRef):
        return v
    raise Unsupported('Deref::deref of %s' % type(v).__name__)

@model('ToString::to_string')
def m_to_string(I, c, args, fr):
    from models_fmt import display
    v = deref(args[0])
    t = c.qself
    while t is not None and t[0] == 'ref':
        t = t[2]
    return StrBuf(display(I, v, None, t))

@model('ToOwned::to_owned')
def m_to_owned(I, c, args, fr):
    v = deref(args[0])
    if isinstance(v, SliceRef):
        if v.kind == 'str':
            return StrBuf(v.items())
        return VecObj(v.items())
    return deep_clone(v)

@model('Clone::clone')
def m_clone(I, c, args, fr):
    v = deref(args[0])
    cl = getattr(v, 'on_clone', None)
    if cl is not None:
        return cl(I)
    # repo impl on the runtime type?
    if isinstance(v, Adt):
        rt = runtime_type(v)
        hit = I.prog.find_impl('Clone', 'clone', rt)
        if hit:
            return I.run(hit[0].func, [ref_to(v)], dict(hit[1]))
    return deep_clone(v)

@model('Default::default')
def m_default(I, c, args, fr):
    t = subst(c.qself, fr.env) if fr is not None and fr.env else c.qself
    return default_of(I, t)

def default_of(I, t):
    b = base_name(t)
    ts = type_str(t)
    if int_info(ts) is not None:
        return False if ts == 'bool' else 0
    if b == 'Option':
        return none()
    if b == 'String':
        return StrBuf([])
    if b == 'Vec':
        return VecObj([])
    if b in ('HashMap', 'HashSet', 'BTreeMap'):
        from models_coll import MapObj
        return MapObj(b)
    if b == 'Box' and t[2] and t[2][0] == ('path', 'str', ()):
        return StrBuf([], 'Box<str>')
    if b == 'BytesMut':
        return ByteBuf([])
    if b == 'Duration':
        return Adt('Duration', None, 0, [0, 0], ['secs', 'nanos'])
    if t[0] == 'tuple' and not t[1]:
        return UNIT
    if t[0] == 'ref':
        inner = t[2]
        if inner[0] == 'slice':
            return SliceRef([], 0, 0, 'slice')
        if inner == ('path', 'str', ()):
            return SliceRef([], 0, 0, 'str')
    if t[0] == 'tuple':
        return Tup([default_of(I, x) for x in t[1]])
    if t[0] == 'array':
        try:
            return Array([default_of(I, t[1]) for _ in range(int(t[2]))])
        except (TypeError, ValueError):
            pass
    if b == 'Cow':
        return Adt('Cow', 'Borrowed', 0, [SliceRef([], 0, 0, 'str')])
    hit = I.prog.find_impl('Default', 'default', t)
    if hit:
        return I.run(hit[0].func, [], dict(hit[1]))
    raise Unsupported('Default::default for ' + ts)

@model('mem::replace')
def m_mem_replace(I, c, args, fr):
    r = args[0]
    old = r.get()
    r.set(args[1])
    return old

@model('mem::take')
def m_mem_take(I, c, args, fr):
    r = args[0]
    old = r.get()
    t = resolve_targ(c, fr)
    if t is None or is_param_like(t):
        t = runtime_type(old)
    r.set(default_of(I, t))
    return old

@model('mem::swap')
def m_mem_swap(I, c, args, fr):
    a, b = args
    x = a.get(); y = b.get()
    a.set(y); b.set(x)
    return UNIT

@model('mem::drop', 'mem::forget')
def m_mem_drop(I, c, args, fr):
    if c.name == 'drop':
        I.drop_value(args[0])
    return UNIT

@model('Pin::new_unchecked', 'Pin::new')
def m_pin_new(I, c, args, fr):
    return Pin(args[0])

@model('Pin::as_mut', 'Pin::as_ref')
def m_pin_as_mut(I, c, args, fr):
    p = deref(args[0])
    return Pin(p.ptr)

@model('Pin::get_mut', 'Pin::get_unchecked_mut', 'Pin::into_inner', 'Pin::get_ref', 'Pin::into_inner_unchecked')
def m_pin_get(I, c, args, fr):
    return args[0].ptr

@model('Pin::set')
def m_pin_set(I, c, args, fr):
    p = deref(args[0])
    old = p.ptr.get()
    I.drop_value(old)
    p.ptr.set(args[1])
    return UNIT

@model('Pin::map_unchecked_mut')
def m_pin_map(I, c, args, fr):
    return Pin(I.call_value(args[1], [args[0].ptr]))

# ============================================================================ equality / ordering / hashing
def val_eq(I, a, b):
    """structural equality following the derived / std PartialEq semantics; symbolic result allowed"""
    a = deref(a); b = deref(b)
    if isinstance(a, TypedInt): a = a.v
    if isinstance(b, TypedInt): b = b.v
    if isinstance(a, (int, bool)) or is_sym(a):
        if isinstance(a, float) or isinstance(b, float):
            return a == b
        if (is_sym(a) and z3.is_fp(a)) or (is_sym(b) and z3.is_fp(b)):
            from interp import fpval
            return z3.fpEQ(fpval(a), fpval(b))
        return int_eq(a, b)
    if isinstance(a, float):
        return a == b
    if isinstance(a, (SliceRef, StrBuf, ByteBuf)) or (isinstance(a, Adt) and a.ty == 'Cow'):
        xa = as_items(a); xb = as_items(b)
        if xa and not isinstance(xa[0], (int, WChar, DecRun)) and not is_sym(xa[0]):
            if len(xa) != len(xb):
                return False
            return b_and(*[val_eq(I, x, y) for x, y in zip(xa, xb)])
        if any(isinstance(x, WChar) for x in xa) != any(isinstance(x, WChar) for x in xb) or \
           any(isinstance(x, WChar) for x in xa):
            return wseq_eq(I, xa, xb)
        return seq_eq(xa, xb)
    if isinstance(a, Adt):
        rt = runtime_type(a)
        hit = I.prog.find_impl('PartialEq', 'eq', rt)
        if hit and isinstance(b, Adt):
            return I.run(hit[0].func, [ref_to(a), ref_to(b)], dict(hit[1]))
        if isinstance(b, Adt) and not a.fields and not b.fields and 'ErrorKind' in (a.ty, b.ty, a.ty.split('::')[0], b.ty.split('::')[0]):
            # field-less std enum values (io::ErrorKind) appear as `ErrorKind::X` or as the bare variant
            return (a.variant or a.ty.split('::')[-1]) == (b.variant or b.ty.split('::')[-1])
        if not isinstance(b, Adt) or a.ty != b.ty:
            raise Unsupported('eq of %r and %r' % (short(a), short(b)))
        if a.vidx != b.vidx:
            return False
        return b_and(*[val_eq(I, x, y) for x, y in zip(a.fields, b.fields)])
    if isinstance(a, Tup):
        return b_and(*[val_eq(I, x, y) for x, y in zip(a.items, b.items)])
    if isinstance(a, (VecObj, Array)):
        xa = as_items(a); xb = as_items(b)
        if len(xa) != len(xb):
            return False
        return b_and(*[val_eq(I, x, y) for x, y in zip(xa, xb)])
    if isinstance(a, BoxObj):
        return val_eq(I, a.v, b.v if isinstance(b, BoxObj) else b)
    if a == () and b == ():
        return True
    eq = getattr(a, 'model_eq', None)
    if eq is not None:
        return eq(I, b)
    raise Unsupported('eq of %s' % type(a).__name__)

def wseq_eq(I, xa, xb):
    """equality of element lists that may contain WChar elements (compare element-wise when aligned)"""
    if len(xa) == len(xb) and all(isinstance(x, WChar) == isinstance(y, WChar) for x, y in zip(xa, xb)):
        conds = []
        for x, y in zip(xa, xb):
            if isinstance(x, WChar):
                if x.n != y.n:
                    return False
                conds.append(int_eq(x.cp, y.cp))
            else:
                conds.append(int_eq(x, y))
        return b_and(*conds)
    ea = explode(I, xa); eb = explode(I, xb)
    return seq_eq(ea, eb)

@model('PartialEq::eq')
def m_eq(I, c, args, fr):
    return val_eq(I, args[0], args[1])

@model('PartialEq::ne')
def m_ne(I, c, args, fr):
    return b_not(val_eq(I, args[0], args[1]))

def seq_cmp(I, xa, xb):
    """lexicographic comparison of byte sequences, forking"""
    xa = explode(I, xa); xb = explode(I, xb)
    for x, y in zip(xa, xb):
        X = bv(x, 8) if not is_sym(x) else x
        Y = bv(y, 8) if not is_sym(y) else y
        if not is_sym(x) and not is_sym(y):
            if x < y: return -1
            if x > y: return 1
            continue
        if I.ctx.decide(z3.ULT(X, Y)): return -1
        if I.ctx.decide(z3.UGT(X, Y)): return 1
    return -1 if len(xa) < len(xb) else (1 if len(xa) > len(xb) else 0)

def val_cmp(I, a, b):
    a = deref(a); b = deref(b)
    if isinstance(a, (SliceRef, StrBuf, ByteBuf)) or (isinstance(a, Adt) and a.ty == 'Cow'):
        return seq_cmp(I, as_items(a), as_items(b))
    if isinstance(a, (int, bool)) or is_sym(a):
        if not is_sym(a) and not is_sym(b):
            return -1 if a < b else (1 if a > b else 0)
        A = bv(a, b.size() if is_sym(b) else a.size()); B = bv(b, A.size())
        if I.ctx.decide(z3.ULT(A, B)): return -1
        if I.ctx.decide(A == B): return 0
        return 1
    if isinstance(a, Adt):
        rt = runtime_type(a)
        hit = I.prog.find_impl('Ord', 'cmp', rt)
        if hit:
            return I.run(hit[0].func, [ref_to(a), ref_to(b)], dict(hit[1])).vidx
        if a.vidx != b.vidx:
            return -1 if a.vidx < b.vidx else 1
        for x, y in zip(a.fields, b.fields):
            r = val_cmp(I, x, y)
            if r:
                return r
        return 0
    if isinstance(a, Tup):
        for x, y in zip(a.items, b.items):
            r = val_cmp(I, x, y)
            if r:
                return r
        return 0
    raise Unsupported('cmp of %s' % type(a).__name__)

@model('Ord::cmp')
def m_cmp(I, c, args, fr):
    return ordering(val_cmp(I, args[0], args[1]))

@model('PartialOrd::partial_cmp')
def m_partial_cmp(I, c, args, fr):
    return some(ordering(val_cmp(I, args[0], args[1])))

@model('PartialOrd::lt', 'PartialOrd::le', 'PartialOrd::gt', 'PartialOrd::ge')
def m_lt(I, c, args, fr):
    r = val_cmp(I, args[0], args[1])
    return {'lt': r < 0, 'le': r <= 0, 'gt': r > 0, 'ge': r >= 0}[c.name]

@model('Ord::max', 'Ord::min', 'cmp::max', 'cmp::min')
def m_max(I, c, args, fr):
    a, b = args
    r = val_cmp(I, a, b)
    if c.name == 'max':
        return b if r <= 0 else a
    return a if r <= 0 else b

class RecHasher:
    """a Hasher that records what is fed to it (harness side)"""
    def __init__(self):
        self.fed = []

def hash_value(I, v, h):
    """feed v to hasher h following std's Hash impls"""
    v = deref(v)
    hv = deref(h)
    if isinstance(v, (SliceRef, StrBuf)) and (isinstance(v, StrBuf) or v.kind == 'str') or (isinstance(v, Adt) and v.ty == 'Cow'):
        # str::hash = Hasher::write_str = write(bytes) + write_u8(0xff)
        feed(I, hv, ('bytes', list(as_items(v))))
        feed(I, hv, ('int', 0xff))
        return
    if isinstance(v, (SliceRef, ByteBuf)):
        # [T]::hash = write_length_prefix(len) + the elements
        feed(I, hv, ('len', len(as_items(v))))
        feed(I, hv, ('bytes', list(as_items(v))))
        return
    if isinstance(v, (int, bool)) or is_sym(v):
        feed(I, hv, ('int', v))
        return
    if isinstance(v, Adt):
        rt = runtime_type(v)
        hit = I.prog.find_impl('Hash', 'hash', rt)
        if hit:
            I.run(hit[0].func, [ref_to(v), h], dict(hit[1]))
            return
        feed(I, hv, ('discr', v.vidx))
        for f in v.fields:
            hash_value(I, f, h)
        return
    if isinstance(v, Tup):
        for f in v.items:
            hash_value(I, f, h)
        return
    if isinstance(v, VecObj):
        feed(I, hv, ('len', len(v.v)))
        for f in v.v:
            hash_value(I, f, h)
        return
    raise Unsupported('hash of %s' % type(v).__name__)

def feed(I, h, item):
    if isinstance(h, RecHasher):
        h.fed.append(item)
    elif isinstance(h, Opaque):
        pass
    else:
        raise Unsupported('hasher %r' % (h,))

@model('Hash::hash')
def m_hash(I, c, args, fr):
    hash_value(I, args[0], args[1])
    return UNIT

@model('mem::discriminant', 'discriminant')
def m_discriminant(I, c, args, fr):
    return Adt('Discriminant', None, 0, [deref(args[0]).vidx])

@model('intrinsics::discriminant_value', 'discriminant_value')
def m_discriminant_value(I, c, args, fr):
    return deref(args[0]).vidx

# ============================================================================ Option / Result
def opt(v):
    v = deref(v) if isinstance(v, Ref) else v
    return v

@model('Option::is_some', 'Option::is_none')
def m_is_some(I, c, args, fr):
    o = deref(args[0])
    return (o.variant == 'Some') == (c.name == 'is_some')

@model('Result::is_ok', 'Result::is_err')
def m_is_ok(I, c, args, fr):
    o = deref(args[0])
    return (o.variant == 'Ok') == (c.name == 'is_ok')

@model('Option::unwrap', 'Option::expect', 'Option::unwrap_unchecked')
def m_opt_unwrap(I, c, args, fr):
    o = args[0]
    if o.variant == 'None':
        msg = 'called `Option::unwrap()` on a `None` value'
        if c.name == 'expect':
            msg = show_bytes(as_items(args[1]))
        raise Panic(msg, fr.func.name if fr is not None and fr.func else None)
    return o.fields[0]

@model('Result::unwrap', 'Result::expect', 'Result::unwrap_unchecked')
def m_res_unwrap(I, c, args, fr):
    o = args[0]
    if o.variant == 'Err':
        raise Panic('called `Result::unwrap()` on an `Err` value: %s' % short(o.fields[0]),
                    fr.func.name if fr is not None and fr.func else None)
    return o.fields[0]

@model('Result::unwrap_err', 'Result::expect_err')
def m_res_unwrap_err(I, c, args, fr):
    o = args[0]
    if o.variant == 'Ok':
        raise Panic('called `Result::unwrap_err()` on an `Ok` value', fr.func.name if fr is not None and fr.func else None)
    return o.fields[0]

@model('Option::unwrap_or', 'Result::unwrap_or')
def m_unwrap_or(I, c, args, fr):
    o = args[0]
    if o.variant in ('Some', 'Ok'):
        return o.fields[0]
    return args[1]

@model('Option::unwrap_or_default', 'Result::unwrap_or_default')
def m_unwrap_or_default(I, c, args, fr):
    o = args[0]
    if o.variant in ('Some', 'Ok'):
        return o.fields[0]
    t = subst(c.segs[-2][1][0], fr.env) if fr is not None and fr.env else c.segs[-2][1][0]
    return default_of(I, t)

@model('Option::unwrap_or_else', 'Result::unwrap_or_else')
def m_unwrap_or_else(I, c, args, fr):
    o = args[0]
    if o.variant in ('Some', 'Ok'):
        return o.fields[0]
    return I.call_value(args[1], [] if o.variant == 'None' else [o.fields[0]])

@model('Option::map')
def m_opt_map(I, c, args, fr):
    o = args[0]
    if o.variant == 'None':
        return none()
    return some(I.call_value(args[1], [o.fields[0]]))

@model('Option::map_or')
def m_opt_map_or(I, c, args, fr):
    o = args[0]
    if o.variant == 'None':
        return args[1]
    return I.call_value(args[2], [o.fields[0]])

@model('Option::map_or_else')
def m_opt_map_or_else(I, c, args, fr):
    o = args[0]
    if o.variant == 'None':
        return I.call_value(args[1], [])
    return I.call_value(args[2], [o.fields[0]])

@model('Option::and_then')
def m_opt_and_then(I, c, args, fr):
    o = args[0]
    if o.variant == 'None':
        return none()
    return I.call_value(args[1], [o.fields[0]])

@model('Option::or_else')
def m_opt_or_else(I, c, args, fr):
    o = args[0]
    if o.variant == 'Some':
        return o
    return I.call_value(args[1], [])

@model('Option::or')
def m_opt_or(I, c, args, fr):
    return args[0] if args[0].variant == 'Some' else args[1]

@model('Option::filter')
def m_opt_filter(I, c, args, fr):
    o = args[0]
    if o.variant == 'None':
        return o
    if I.ctx.decide(I.call_value(args[1], [ref_to(o.fields[0])])):
        return o
    I.drop_value(o.fields[0])
    return none()

@model('Option::is_some_and', 'Option::is_none_or')
def m_is_some_and(I, c, args, fr):
    o = args[0]
    if o.variant == 'None':
        return c.name == 'is_none_or'
    return I.call_value(args[1], [o.fields[0]])

@model('Result::is_ok_and', 'Result::is_err_and')
def m_is_ok_and(I, c, args, fr):
    o = args[0]
    if (o.variant == 'Ok') != (c.name == 'is_ok_and'):
        I.drop_value(o.fields[0])
        return False
    return I.call_value(args[1], [o.fields[0]])

@model('Option::ok_or')
def m_ok_or(I, c, args, fr):
    o = args[0]
    return ok(o.fields[0]) if o.variant == 'Some' else err(args[1])

@model('Option::ok_or_else')
def m_ok_or_else(I, c, args, fr):
    o = args[0]
    return ok(o.fields[0]) if o.variant == 'Some' else err(I.call_value(args[1], []))

@model('Option::as_ref', 'Option::as_mut', 'Result::as_ref', 'Result::as_mut')
def m_opt_as_ref(I, c, args, fr):
    o = deref(args[0])
    if not o.fields:
        return Adt(o.ty, o.variant, o.vidx, [])
    return Adt(o.ty, o.variant, o.vidx, [Ref(ListLoc(o.fields, 0))])

@model('Option::as_deref', 'Option::as_deref_mut')
def m_opt_as_deref(I, c, args, fr):
    o = deref(args[0])
    if o.variant == 'None':
        return none()
    return some(m_deref(I, c, [ref_to(o.fields[0])], fr))

@model('Option::take')
def m_opt_take(I, c, args, fr):
    r = args[0]
    old = r.get()
    r.set(none())
    return old

@model('Option::replace')
def m_opt_replace(I, c, args, fr):
    r = args[0]
    old = r.get()
    r.set(some(args[1]))
    return old

@model('Option::insert', 'Option::get_or_insert')
def m_opt_insert(I, c, args, fr):
    r = args[0]
    o = r.get()
    if c.name == 'insert' or o.variant == 'None':
        o = some(args[1])
        r.set(o)
    return Ref(ListLoc(o.fields, 0))

@model('Option::get_or_insert_with')
def m_opt_get_or_insert_with(I, c, args, fr):
    r = args[0]
    o = r.get()
    if o.variant == 'None':
        o = some(I.call_value(args[1], []))
        r.set(o)
    return Ref(ListLoc(o.fields, 0))

@model('Option::cloned', 'Option::copied')
def m_opt_cloned(I, c, args, fr):
    o = args[0]
    if o.variant == 'None':
        return none()
    return some(deep_clone(deref(o.fields[0])))

@model('Option::transpose')
def m_opt_transpose(I, c, args, fr):
    o = args[0]
    if o.variant == 'None':
        return ok(none())
    r = o.fields[0]
    if r.variant == 'Ok':
        return ok(some(r.fields[0]))
    return err(r.fields[0])

@model('Result::transpose')
def m_res_transpose(I, c, args, fr):
    r = args[0]
    if r.variant == 'Err':
        return some(err(r.fields[0]))
    o = r.fields[0]
    if o.variant == 'None':
        return none()
    return some(ok(o.fields[0]))

@model('Option::zip')
def m_opt_zip(I, c, args, fr):
    a, b = args
    if a.variant == 'Some' and b.variant == 'Some':
        return some(Tup([a.fields[0], b.fields[0]]))
    return none()

@model('Option::xor')
def m_opt_xor(I, c, args, fr):
    a, b = args
    if (a.variant == 'Some') != (b.variant == 'Some'):
        return a if a.variant == 'Some' else b
    return none()

@model('Result::map')
def m_res_map(I, c, args, fr):
    r = args[0]
    if r.variant == 'Err':
        return r
    return ok(I.call_value(args[1], [r.fields[0]]))

@model('Result::map_err')
def m_res_map_err(I, c, args, fr):
    r = args[0]
    if r.variant == 'Ok':
        return r
    return err(I.call_value(args[1], [r.fields[0]]))

@model('Result::and_then')
def m_res_and_then(I, c, args, fr):
    r = args[0]
    if r.variant == 'Err':
        return r
    return I.call_value(args[1], [r.fields[0]])

@model('Result::or_else')
def m_res_or_else(I, c, args, fr):
    r = args[0]
    if r.variant == 'Ok':
        return r
    return I.call_value(args[1], [r.fields[0]])

@model('Result::ok')
def m_res_ok(I, c, args, fr):
    r = args[0]
    if r.variant == 'Ok':
        return some(r.fields[0])
    I.drop_value(r.fields[0])
    return none()

@model('Result::err')
def m_res_err(I, c, args, fr):
    r = args[0]
    if r.variant == 'Err':
        return some(r.fields[0])
    I.drop_value(r.fields[0])
    return none()

@model('Result::inspect_err', 'Result::inspect', 'Option::inspect')
def m_inspect(I, c, args, fr):
    r = args[0]
    want = 'Err' if c.name == 'inspect_err' else ('Ok' if r.ty == 'Result' else 'Some')
    if r.variant == want:
        I.call_value(args[1], [ref_to(r.fields[0])])
    return r

@model('Try::branch')
def m_try_branch(I, c, args, fr):
    v = args[0]
    if v.ty == 'Result':
        if v.variant == 'Ok':
            return Adt('ControlFlow', 'Continue', 0, [v.fields[0]])
        return Adt('ControlFlow', 'Break', 1, [err(v.fields[0])])
    if v.ty == 'Option':
        if v.variant == 'Some':
            return Adt('ControlFlow', 'Continue', 0, [v.fields[0]])
        return Adt('ControlFlow', 'Break', 1, [none()])
    if v.ty == 'Poll':
        raise Unsupported('Try on Poll')
    raise Unsupported('Try::branch on ' + v.ty)

@model('FromResidual::from_residual')
def m_from_residual(I, c, args, fr):
    r = args[0]
    target = subst(c.qself, fr.env) if fr is not None and fr.env else c.qself
    if r.ty == 'Option':
        if base_name(target) == 'Result':
            raise Unsupported('Option residual into Result')
        return none()
    e = r.fields[0]
    if base_name(target) == 'Result' and len(target[2]) == 2:
        et = target[2][1]
        res_t = c.trait[1][0] if c.trait[1] else None
        src_t = None
        if res_t is not None and res_t[0] == 'path' and len(res_t[2]) == 2:
            src_t = subst(res_t[2][1], fr.env) if fr is not None and fr.env else res_t[2][1]
        if src_t is not None and not unify(et, src_t, (), {}):
            hit = I.prog.find_impl('From', 'from', et, (src_t,))
            if hit:
                return err(I.run(hit[0].func, [e], dict(hit[1])))
            cv = conv_into(I, e, et, fr, src_t)
            if cv is None:
                raise Unsupported('`?` conversion %s -> %s' % (type_str(src_t), type_str(et)))
            return err(cv)
    return err(e)

# ============================================================================ closures / fn traits
@model('FnOnce::call_once', 'FnMut::call_mut', 'Fn::call')
def m_fn_call(I, c, args, fr):
    f = args[0]
    tup = args[1]
    a = list(tup.items) if isinstance(tup, Tup) else ([] if tup == () else [tup])
    return I.call_value(f, a, fr)

@model('str::replace', 'str::replacen')
def m_str_replace(I, c, args, fr):
    items = as_items(args[0])
    pv = deref(args[1])
    to = as_items(args[2])
    out = []
    if isinstance(pv, SliceRef):
        p = pv.items()
        if not p:
            raise Unsupported('replace of the empty pattern')
        i = 0
        while i < len(items):
            if i + len(p) <= len(items) and I.ctx.decide(seq_eq(items[i:i+len(p)], p)):
                out.extend(to); i += len(p)
            else:
                out.append(items[i]); i += 1
        return StrBuf(out)
    for x in items:
        if I.ctx.decide(int_eq(char_of_nofork(x), pv)):
            out.extend(to)
        else:
            out.append(x)
    return StrBuf(out)


@model('String::truncate')
def m_string_truncate(I, c, args, fr):
    s = deref(args[0])
    n = args[1]
    if is_sym(n):
        raise Unsupported('symbolic String::truncate length')
    items = s.b
    if n < sum(elem_len_(x) for x in items):
        k = elem_index(items, n)
        del items[k:]
    return UNIT

def elem_len_(x):
    from interp import elem_len
    return elem_len(x)

@model('String::pop')
def m_string_pop(I, c, args, fr):
    s = deref(args[0])
    if not s.b:
        return none()
    return some(char_of(I, s.b.pop()))

@model('String::remove')
def m_string_remove(I, c, args, fr):
    s = deref(args[0])
    k = elem_index(s.b, args[1])
    if k >= len(s.b):
        raise Panic('cannot remove a char from the end of a string')
    return char_of(I, s.b.pop(k))

@model('String::insert')
def m_string_insert(I, c, args, fr):
    s = deref(args[0])
    k = elem_index(s.b, args[1])
    tmp = []
    push_char(I, tmp, args[2])
    s.b[k:k] = tmp
    return UNIT

@model('String::insert_str')
def m_string_insert_str(I, c, args, fr):
    s = deref(args[0])
    k = elem_index(s.b, args[1])
    s.b[k:k] = as_items(args[2])
    return UNIT

@model('String::split_off')
def m_string_split_off(I, c, args, fr):
    s = deref(args[0])
    k = elem_index(s.b, args[1])
    tail = StrBuf(s.b[k:])
    del s.b[k:]
    return tail

@model('String::retain')
def m_string_retain(I, c, args, fr):
    s = deref(args[0])
    keep = []
    for x in s.b:
        if I.ctx.decide(I.call_value(args[1], [char_of(I, x)])):
            keep.append(x)
    s.b[:] = keep
    return UNIT

def _scalar_of(I, bs):
    """WChar for the well-formed multi-byte sequence bs (byte terms)"""
    bs = [bv(x, 8) for x in bs]
    n = len(bs)
    if n == 2:
        cp = z3.ZeroExt(21, z3.Concat(z3.Extract(4, 0, bs[0]), z3.Extract(5, 0, bs[1])))
    elif n == 3:
        cp = z3.ZeroExt(16, z3.Concat(z3.Extract(3, 0, bs[0]), z3.Extract(5, 0, bs[1]), z3.Extract(5, 0, bs[2])))
    else:
        cp = z3.ZeroExt(11, z3.Concat(z3.Extract(2, 0, bs[0]), z3.Extract(5, 0, bs[1]), z3.Extract(5, 0, bs[2]), z3.Extract(5, 0, bs[3])))
    w = WChar(simp(cp), n)
    if not hasattr(I, '_wchars'):
        I._wchars = {}
    I._wchars[w.cp.get_id()] = w
    return w

@model('String::from_utf8_lossy')
def m_from_utf8_lossy(I, c, args, fr):
    s = as_slice(args[0])
    items = s.items()
    if any(isinstance(x, (WChar, DecRun, FloatLit)) for x in items):
        return Adt('Cow', 'Borrowed', 0, [SliceRef(s.back, s.lo, s.hi, 'str')])
    from oracles.utf8 import utf8_lossy_segments
    segs = utf8_lossy_segments(I.ctx, items)
    if all(k == 'ok' and n == 1 for k, _, n in segs):
        return Adt('Cow', 'Borrowed', 0, [SliceRef(s.back, s.lo, s.hi, 'str')])
    out = []
    for k, st, n in segs:
        if k == 'bad':
            out.extend([0xef, 0xbf, 0xbd])          # U+FFFD
        elif n == 1:
            out.append(items[st])
        elif all(not is_sym(x) for x in items[st:st + n]):
            out.extend(items[st:st + n])
        else:
            out.append(_scalar_of(I, items[st:st + n]))
    if all(k == 'ok' for k, _, _ in segs):
        return Adt('Cow', 'Borrowed', 0, [SliceRef(out, 0, len(out), 'str')])
    return Adt('Cow', 'Owned', 1, [StrBuf(out)])

@model('NonZero::get')
def m_nonzero_get(I, c, args, fr):
    return args[0]

@model('NonZero::new')
def m_nonzero_new(I, c, args, fr):
    v = args[0]
    if is_sym(v):
        return none() if I.ctx.decide(v == 0) else some(v)
    return some(v) if v != 0 else none()

@model('NonZero::new_unchecked')
def m_nonzero_new_unchecked(I, c, args, fr):
    return args[0]

def latin1_alpha(x):
    rngs = [(0x41, 0x5a), (0x61, 0x7a), (0xaa, 0xaa), (0xb5, 0xb5), (0xba, 0xba), (0xc0, 0xd6), (0xd8, 0xf6), (0xf8, 0xff)]
    if is_sym(x):
        return z3.Or(*[z3.And(z3.UGE(x, lo), z3.ULE(x, hi)) for lo, hi in rngs])
    return any(lo <= x <= hi for lo, hi in rngs)

_CHARTABLE = {}
def chartable(name):
    """inclusive ranges of the scalar values below U+10000 for which std's `char::is_<name>` holds, printed by the native executor
    (`replay chartable`) - i.e. exactly the tables of the std the repository is compiled against"""
    if not _CHARTABLE:
        from props.common import run_replay
        out = run_replay(['chartable'])
        for k, v in out.items():
            if k.startswith('_') or not v:
                continue
            _CHARTABLE[k] = [tuple(int(x, 16) for x in r.split('-')) for r in v[0].split(',') if r]
        if 'alphabetic' not in _CHARTABLE:
            raise Unsupported('the native executor did not produce the character tables')
    return _CHARTABLE[name]

def char_pred(I, name, x):
    rngs = chartable(name)
    if not is_sym(x):
        if x >= 0x10000:
            raise Unsupported('char::is_%s beyond the basic multilingual plane' % name)
        return any(lo <= x <= hi for lo, hi in rngs)
    if not I.ctx.must(z3.ULT(x, 0x10000)):
        if not I.ctx.decide(z3.ULT(x, 0x10000)):
            raise Unsupported('char::is_%s beyond the basic multilingual plane' % name)
    # only the ranges the value can fall into on this path (keeps the term small)
    live = [(lo, hi) for lo, hi in rngs if I.ctx.check(z3.And(z3.UGE(x, lo), z3.ULE(x, hi)))] if len(rngs) > 40 else rngs
    return simp(z3.Or(*[z3.And(z3.UGE(x, lo), z3.ULE(x, hi)) if lo != hi else x == lo for lo, hi in live])) if live else False

@model('char::is_alphabetic', 'char::is_alphanumeric', 'char::is_numeric', 'char::is_uppercase', 'char::is_lowercase')
def m_is_alphabetic_unicode(I, c, args, fr):
    """Unicode predicates of std for scalar values below U+10000, from the tables of the compiled std"""
    x = deref(args[0])
    if is_sym(x) and x.size() != 32:
        x = z3.ZeroExt(32 - x.size(), x)
    return char_pred(I, c.name[3:], x)

# ---------------------------------------------------------------------------- integer helpers / range bounds (C15)
def _int_bits(c):
    for nm, ta in c.segs:
        if nm == '<impl>':
            t = norm_self_name(ta[0])
            return {'u8': 8, 'u16': 16, 'u32': 32, 'u64': 64, 'usize': 64, 'u128': 128}.get(t)
    return None

def norm_self_name(t):
    from interp import norm_self
    return norm_self(t)

@model('usize::saturating_add', 'u64::saturating_add', 'u32::saturating_add', 'u16::saturating_add', 'u8::saturating_add')
def m_saturating_add(I, c, args, fr):
    bits = _int_bits(c) or 64
    a, b = args
    mx = (1 << bits) - 1
    if not is_sym(a) and not is_sym(b):
        return min(a + b, mx)
    s = bv(a, bits) + bv(b, bits)
    return z3.If(z3.ULT(s, bv(a, bits)), z3.BitVecVal(mx, bits), s)

@model('usize::saturating_sub', 'u64::saturating_sub', 'u32::saturating_sub', 'u16::saturating_sub', 'u8::saturating_sub')
def m_saturating_sub(I, c, args, fr):
    bits = _int_bits(c) or 64
    a, b = args
    if not is_sym(a) and not is_sym(b):
        return max(a - b, 0)
    return z3.If(z3.ULT(bv(a, bits), bv(b, bits)), z3.BitVecVal(0, bits), bv(a, bits) - bv(b, bits))

@model('usize::wrapping_add', 'u64::wrapping_add', 'u32::wrapping_add', 'u8::wrapping_add')
def m_wrapping_add(I, c, args, fr):
    bits = _int_bits(c) or 64
    a, b = args
    if not is_sym(a) and not is_sym(b):
        return (a + b) & ((1 << bits) - 1)
    return bv(a, bits) + bv(b, bits)

@model('usize::checked_add', 'u64::checked_add', 'u32::checked_add', 'u8::checked_add')
def m_checked_add(I, c, args, fr):
    bits = _int_bits(c) or 64
    a, b = args
    if not is_sym(a) and not is_sym(b):
        return some(a + b) if a + b < (1 << bits) else none()
    s = bv(a, bits) + bv(b, bits)
    if I.ctx.decide(z3.ULT(s, bv(a, bits))):
        return none()
    return some(s)

def _bound_ref(kind, holder, idx):
    """Bound<&T> pointing at field idx of holder"""
    vi = {'Included': 0, 'Excluded': 1, 'Unbounded': 2}[kind]
    if kind == 'Unbounded':
        return Adt('Bound', 'Unbounded', 2, [])
    return Adt('Bound', kind, vi, [Ref(ListLoc(holder.fields if hasattr(holder, 'fields') else holder.items, idx))])

@model('RangeBounds::start_bound', 'RangeBounds::end_bound')
def m_range_bound(I, c, args, fr):
    r = deref(args[0])
    start = c.name == 'start_bound'
    if isinstance(r, Tup):
        b = r.items[0 if start else 1]
        if b.variant == 'Unbounded':
            return Adt('Bound', 'Unbounded', 2, [])
        return Adt('Bound', b.variant, b.vidx, [Ref(ListLoc(b.fields, 0))])
    t = r.ty
    if t == 'RangeFull':
        return _bound_ref('Unbounded', r, 0)
    if t == 'Range':
        return _bound_ref('Included', r, 0) if start else _bound_ref('Excluded', r, 1)
    if t == 'RangeInclusive':
        # (exhausted ranges report an excluded end; RangeInclusive::new never builds one)
        return _bound_ref('Included', r, 0) if start else _bound_ref('Included', r, 1)
    if t == 'RangeFrom':
        return _bound_ref('Included', r, 0) if start else _bound_ref('Unbounded', r, 0)
    if t == 'RangeTo':
        return _bound_ref('Unbounded', r, 0) if start else _bound_ref('Excluded', r, 0)
    if t == 'RangeToInclusive':
        return _bound_ref('Unbounded', r, 0) if start else _bound_ref('Included', r, 0)
    raise Unsupported('RangeBounds for ' + t)

@model('RangeInclusive::new')
def m_range_inclusive_new(I, c, args, fr):
    return Adt('RangeInclusive', None, 0, [args[0], args[1], False], ['start', 'end', 'exhausted'])

@model('bool::then', 'bool::then_some')
def m_bool_then(I, c, args, fr):
    if I.ctx.decide(args[0]):
        return some(I.call_value(args[1], []) if c.name == 'then' else args[1])
    if c.name == 'then_some':
        I.drop_value(args[1])
    return none()

@model('Bound::map')
def m_bound_map(I, c, args, fr):
    b = args[0]
    if b.variant == 'Unbounded':
        return b
    return Adt('Bound', b.variant, b.vidx, [I.call_value(args[1], [b.fields[0]])])

@model('Bound::as_ref')
def m_bound_as_ref(I, c, args, fr):
    b = deref(args[0])
    if b.variant == 'Unbounded':
        return Adt('Bound', 'Unbounded', 2, [])
    return Adt('Bound', b.variant, b.vidx, [Ref(ListLoc(b.fields, 0))])

@model('Bound::cloned', 'Bound::copied')
def m_bound_cloned(I, c, args, fr):
    b = args[0]
    if b.variant == 'Unbounded':
        return b
    return Adt('Bound', b.variant, b.vidx, [copy_value(deref(b.fields[0]))])

# ---------------------------------------------------------------------------- operator traits on primitive integers (closures over &u8 etc.)
def _prim_type(t, fr):
    if t is None:
        return None
    if fr is not None and fr.env:
        t = subst(t, fr.env)
    while t[0] == 'ref':
        t = t[2]
    ts = type_str(t)
    return ts if int_info(ts) is not None else None

def _arith(opname, msg):
    def m(I, c, args, fr):
        ty = _prim_type(c.qself, fr)
        a = deref(args[0]); b = deref(args[1])
        if isinstance(a, TypedInt): a = a.v
        if isinstance(b, TypedInt): b = b.v
        if ty is None:
            if isinstance(a, float) or isinstance(b, float) or (is_sym(a) and z3.is_real(a)):
                return I.float_binop(opname, a, b)
            raise Unsupported('%s::%s on %s' % (c.trait[0] if c.trait else '?', c.name, short(a)))
        if opname in ('Add', 'Sub', 'Mul'):
            r = I.binop_vals(opname + 'WithOverflow', a, b, ty)
            if I.ctx.decide(r.items[1]):
                raise Panic('attempt to %s with overflow' % msg)
            return r.items[0]
        return I.binop_vals(opname, a, b, ty)
    return m
for _tr, _fn, _op, _msg in (('Add', 'add', 'Add', 'add'), ('Sub', 'sub', 'Sub', 'subtract'), ('Mul', 'mul', 'Mul', 'multiply'), ('Div', 'div', 'Div', ''),
                            ('Rem', 'rem', 'Rem', ''), ('BitAnd', 'bitand', 'BitAnd', ''), ('BitOr', 'bitor', 'BitOr', ''), ('BitXor', 'bitxor', 'BitXor', ''),
                            ('Shl', 'shl', 'Shl', ''), ('Shr', 'shr', 'Shr', '')):
    if '%s::%s' % (_tr, _fn) not in MODELS:
        model('%s::%s' % (_tr, _fn))(_arith(_op, _msg))

def _arith_assign(opname, msg):
    inner = _arith(opname, msg)
    def m(I, c, args, fr):
        loc = args[0]
        cur = loc.get() if isinstance(loc, Ref) else loc
        class _C: pass
        r = inner(I, c, [cur, args[1]], fr)
        loc.set(r)
        return UNIT
    return m
for _tr, _fn, _op, _msg in (('AddAssign', 'add_assign', 'Add', 'add'), ('SubAssign', 'sub_assign', 'Sub', 'subtract'), ('MulAssign', 'mul_assign', 'Mul', 'multiply')):
    if '%s::%s' % (_tr, _fn) not in MODELS:
        model('%s::%s' % (_tr, _fn))(_arith_assign(_op, _msg))

@model('Neg::neg')
def m_neg(I, c, args, fr):
    ty = _prim_type(c.qself, fr)
    a = deref(args[0])
    if ty is None:
        if isinstance(a, float):
            return -a
        raise Unsupported('Neg::neg on %s' % short(a))
    bits, signed = int_info(ty)
    if is_sym(a):
        if I.ctx.decide(bv(a, bits) == (1 << (bits - 1))):
            raise Panic('attempt to negate with overflow')
        return simp(-bv(a, bits))
    if a == 1 << (bits - 1):
        raise Panic('attempt to negate with overflow')
    return (-a) & ((1 << bits) - 1)

@model('TryFrom::try_from', 'TryInto::try_into')
def m_try_from(I, c, args, fr):
    """integer <-> integer conversions (the only TryFrom impls of std this code base can reach)"""
    if c.name == 'try_from':
        dst = c.qself; src = c.trait[1][0] if c.trait and c.trait[1] else None
    else:
        src = c.qself; dst = c.trait[1][0] if c.trait and c.trait[1] else None
    dts = _prim_type(dst, fr); sts = _prim_type(src, fr)
    # repository impls first
    if dts is None or sts is None:
        dd0 = subst(dst, fr.env) if (dst is not None and fr is not None and fr.env) else dst
        while dd0 is not None and dd0[0] == 'ref':
            dd0 = dd0[2]
        if dd0 is not None and dd0[0] == 'array':
            # Vec<T> / Box<[T]> -> [T; N] (Err gives the vector back), &[T] -> [T; N] / &[T; N] (TryFromSliceError)
            n = int(dd0[2]) if str(dd0[2]).isdigit() else None
            v = args[0]
            if n is not None:
                if isinstance(v, VecObj):
                    return ok(Array(list(v.v))) if len(v.v) == n else err(v)
                sl = as_slice(v)
                if len(sl) != n:
                    return err(Opaque('TryFromSliceError'))
                if dst[0] == 'ref':
                    return ok(sl)
                return ok(Array([copy_value(x) for x in sl.items()]))
        dd = subst(dst, fr.env) if (dst is not None and fr is not None and fr.env) else dst
        if dd is not None:
            hit = I.prog.find_impl('TryFrom', 'try_from', dd, ())
            if hit:
                return I.run(hit[0].func, [args[0]], dict(hit[1]))
        raise Unsupported('TryFrom::try_from %s -> %s' % (src, dst))
    v = args[0]
    if isinstance(v, TypedInt): v = v.v
    sb, ss = int_info(sts); db, ds = int_info(dts)
    lo, hi = (-(1 << (db - 1)), (1 << (db - 1)) - 1) if ds else (0, (1 << db) - 1)
    e = Opaque('TryFromIntError')
    if not is_sym(v):
        sv = v - (1 << sb) if (ss and v >> (sb - 1)) else v
        return ok(sv & ((1 << db) - 1)) if lo <= sv <= hi else err(e)
    V = bv(v, sb)
    W = max(sb, db) + 1
    wide = z3.SignExt(W - sb, V) if ss else z3.ZeroExt(W - sb, V)
    fits = z3.And(wide >= z3.BitVecVal(lo, W), wide <= z3.BitVecVal(hi, W))
    if I.ctx.decide(fits):
        return ok(simp(z3.Extract(db - 1, 0, wide)))
    return err(e)

@model('usize::div_ceil', 'u64::div_ceil', 'u32::div_ceil', 'u16::div_ceil', 'u8::div_ceil')
def m_div_ceil(I, c, args, fr):
    bits = _int_bits(c) or 64
    a, b = args
    if not is_sym(a) and not is_sym(b):
        if b == 0:
            raise Panic('attempt to divide by zero')
        return -(-a // b)
    A = bv(a, bits); B = bv(b, bits)
    if I.ctx.decide(B == 0):
        raise Panic('attempt to divide by zero')
    q = z3.UDiv(A, B); r = z3.URem(A, B)
    return simp(z3.If(r == 0, q, q + 1))

@model('usize::abs_diff', 'u64::abs_diff', 'u32::abs_diff', 'u8::abs_diff')
def m_abs_diff(I, c, args, fr):
    bits = _int_bits(c) or 64
    a, b = args
    if not is_sym(a) and not is_sym(b):
        return abs(a - b)
    A = bv(a, bits); B = bv(b, bits)
    return simp(z3.If(z3.ULT(A, B), B - A, A - B))

@model('usize::is_power_of_two', 'u64::is_power_of_two')
def m_is_pow2(I, c, args, fr):
    a = args[0]
    if not is_sym(a):
        return a != 0 and (a & (a - 1)) == 0
    A = bv(a, _int_bits(c) or 64)
    return simp(z3.And(A != 0, (A & (A - 1)) == 0))

@model('usize::pow', 'u64::pow', 'u32::pow')
def m_pow(I, c, args, fr):
    a, b = args
    if is_sym(a) or is_sym(b):
        raise Unsupported('symbolic pow')
    r = a ** b
    if r >= 1 << (_int_bits(c) or 64):
        raise Panic('attempt to multiply with overflow')
    return r

@model('Range::contains', 'RangeInclusive::contains', 'RangeFrom::contains', 'RangeTo::contains', 'RangeToInclusive::contains', 'RangeBounds::contains')
def m_range_contains(I, c, args, fr):
    r = deref(args[0]); x = deref(args[1])
    if isinstance(r, Tup):
        raise Unsupported('contains on a Bound pair')
    t = r.ty; f = r.fields
    lo = f[0] if t in ('Range', 'RangeInclusive', 'RangeFrom') else None
    hi = (f[1] if t in ('Range', 'RangeInclusive') else f[0]) if t in ('Range', 'RangeInclusive', 'RangeTo', 'RangeToInclusive') else None
    incl = t in ('RangeInclusive', 'RangeToInclusive')
    def cmp(a, op, b):
        isf = any(isinstance(v, float) or (is_sym(v) and (z3.is_real(v) or z3.is_fp(v))) for v in (a, b))
        if isf:
            return I.float_binop(op, a, b)
        ty = None
        tt = resolve_targ(c, fr, 0)
        for cand in ([tt] if tt is not None else []) + [c.segs[-2][1][0]] if (len(c.segs) >= 2 and c.segs[-2][1]) else ([tt] if tt is not None else []):
            ts = _prim_type(cand, fr)
            if ts:
                ty = ts; break
        return I.binop_vals(op, a, b, ty or 'u64')
    conds = []
    if lo is not None:
        conds.append(cmp(x, 'Ge', lo))
    if hi is not None:
        conds.append(cmp(x, 'Le' if incl else 'Lt', hi))
    return b_and(*conds)


@model('Hasher::write')
def m_hasher_write(I, c, args, fr):
    feed(I, deref(args[0]), ('bytes', list(explode(I, as_items(args[1])))))
    return UNIT

@model('Hasher::write_str')
def m_hasher_write_str(I, c, args, fr):
    feed(I, deref(args[0]), ('bytes', list(as_items(args[1]))))
    feed(I, deref(args[0]), ('int', 0xff))
    return UNIT

@model('Hasher::write_u8', 'Hasher::write_u16', 'Hasher::write_u32', 'Hasher::write_u64', 'Hasher::write_usize', 'Hasher::write_i8', 'Hasher::write_i32',
       'Hasher::write_i64', 'Hasher::write_isize', 'Hasher::write_u128')
def m_hasher_write_int(I, c, args, fr):
    feed(I, deref(args[0]), ('int', args[1]))
    return UNIT

@model('Hasher::write_length_prefix')
def m_hasher_write_len(I, c, args, fr):
    feed(I, deref(args[0]), ('len', args[1]))
    return UNIT


def text_items(I, items):
    """string elements for text given as bytes: concrete multi-byte UTF-8 sequences become scalar elements (WChar with a constant
    code point); symbolic and ASCII elements are kept"""
    items = list(items)
    if not any(isinstance(x, int) and x >= 0x80 for x in items):
        return items
    out = []
    i = 0
    while i < len(items):
        x = items[i]
        if not (isinstance(x, int) and x >= 0x80):
            out.append(x); i += 1; continue
        n = 2 if x >> 5 == 0b110 else 3 if x >> 4 == 0b1110 else 4 if x >> 3 == 0b11110 else 0
        chunk = items[i:i + n]
        if n == 0 or len(chunk) < n or not all(isinstance(y, int) for y in chunk):
            raise Unsupported('text with a malformed or partly symbolic multi-byte sequence')
        cp = ord(bytes(chunk).decode('utf-8'))
        w = WChar(z3.BitVecVal(cp, 32), n)
        if I is not None:
            if not hasattr(I, '_wchars'):
                I._wchars = {}
            I._wchars[w.cp.get_id()] = w
        out.append(w)
        i += n
    return out
