"""C09 - see props/parsergroup.py (shared machinery of the protocol-layer properties)."""
from props import parsergroup as PG
PROP = 'C09'
def instances(tier, seed): return PG.instances_for(PROP, tier, seed)
def run_instance(payload): return PG.run_for(PROP, payload)
def replay(rec): return PG.replay_for(PROP, rec)
def bounds(tier): return BOUNDS[tier]
DESCR = {}
EXPLANATION = PG.EXPL
ASSUMPTIONS = PG.ASSUME
BOUNDS = {'quick': 'fully free byte strings (0x00..0xff) of length 1..4 as response data and of length 1..3 as the first line, the ACK / binary-header templates with magnitudes 0, 2^64-1, 2^64, 2^63 and 23-digit numbers, '
                   'free-byte ACK / binary / field templates; each under a symbolic choice of {one read, one byte per read, two reads}, blocking (8-byte buffer) and async; asserted: no panic, number of reads <= stream length + 3 + '
                   'results, malformed (by the reference grammar) => InvalidMessage after the complete responses, otherwise results equal the reference',
          'thorough': 'free byte strings up to 6 / first lines up to 5 bytes'}
REQUIRED_CLASSES = ['peer bytes: invalid', 'peer bytes: eof', 'peer bytes: closed']
RULE = 'one evaluation = one feasible path (byte string x segmentation choice); all are non-trivial'
