"""C02 - see props/parsergroup.py (shared machinery of the protocol-layer properties)."""
from props import parsergroup as PG
PROP = 'C02'
def instances(tier, seed): return PG.instances_for(PROP, tier, seed)
def run_instance(payload): return PG.run_for(PROP, payload)
def replay(rec): return PG.replay_for(PROP, rec)
def bounds(tier): return BOUNDS[tier]
DESCR = {}
EXPLANATION = PG.EXPL
ASSUMPTIONS = PG.ASSUME
BOUNDS = {'quick': 'the fifteen stream templates of C03 (holes of 1 free byte) and fully free 4-byte streams: the result of one blocking read is compared with every two-way split (blocking: every position, async: every third position in quick), one byte per read '
                   '(both), a three-way split and the async connection in one read, 8-byte receive buffer; line-grammar prefix stability for all inputs of 3..4 free bytes and greeting prefix stability for 9-byte inputs',
          'thorough': 'holes of 2 bytes, free streams of 4..6 bytes, additionally with the literal 4096-byte buffer; prefix stability up to 6 free bytes / 11-byte greetings'}
REQUIRED_CLASSES = ['stream with 1 responses', 'stream with 2 responses', 'line ok', 'line Error']
RULE = 'one evaluation = one feasible path: one symbolic stream run under all segmentation plans (or all prefixes); non-trivial = at least one response / a parsed line'
