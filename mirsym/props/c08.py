"""C08 - see props/clientgroup.py and props/client_common.py (shared machinery of the client properties)."""
from props import clientgroup as CG
PROP = 'C08'
def instances(tier, seed): return CG.instances_for(PROP, tier, seed)
def run_instance(payload): return CG.run_for(PROP, payload)
def replay(rec): return CG.replay_for(PROP, rec)
def bounds(tier): return BOUNDS[tier]
DESCR = CG.DESCR
EXPLANATION = CG.EXPL
ASSUMPTIONS = CG.ASSUME
RULE = 'one evaluation = one feasible schedule (path) of one scenario family, judged after the settle phase; non-trivial = a request completed or was cancelled AND the free part of the schedule contains a server change, timer expiry, cancellation, half-line delivery, slow write, fault or handle drop'
REQUIRED_CLASSES = ['schedule with request']
BOUNDS = {'quick': 'see instances: scenario families (1-3 callers, single commands and command lists with a failing member, from the idling state / inside the re-idle window / with a request in flight) x 4-5 free scheduler steps x budgets (<= 2 server changes, <= 1 timer expiry, <= 1 cancellation, <= 1 half-line delivery, one fault)',
          'thorough': 'the same families with 6-7 free steps and three more families'}
