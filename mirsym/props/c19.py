"""C19 - frames and responses behave as ordered collections of what the server sent.

Real code executed (MIR): Frame::{find, get, take_binary, fields_len, is_empty, has_binary, binary, fields} and their
closures, Fields::{next, next_back}, <Frame as IntoIterator>::into_iter, frame::IntoIter::{next, next_back, take_binary},
Response::{frames, successful_frames, is_error, is_success, into_single_frame}, <&Response / Response as IntoIterator>,
FramesRef / Frames {next, next_back, size_hint} (+ std provided methods len / nth / count / last on top of them).
Oracle: a python list model (ordered multimap with holes; frames-then-error sequence).
"""
import time
import z3
from values import *
import engine
from engine import explore, model_bytes
from props.common import Result, run_replay, hexs, unhex

PROP = 'C19'
KEYSET = [ord('a'), ord('A'), ord('b')]

def instances(tier, seed):
    out = []
    if tier == 'quick':
        for nf in (0, 1, 2, 3):
            for binary in (0, 1):
                out.append({'kind': 'frame', 'phase': 'ops', 'nf': nf, 'binary': binary, 'steps': 2, 'iter': 0})
                out.append({'kind': 'frame', 'phase': 'fields', 'nf': nf, 'binary': binary, 'steps': 1, 'iter': 3})
                out.append({'kind': 'frame', 'phase': 'owned', 'nf': nf, 'binary': binary, 'steps': 1, 'iter': 3})
        out.append({'kind': 'frame', 'phase': 'ops', 'nf': 3, 'binary': 1, 'steps': 3, 'iter': 0})
        out.append({'kind': 'frame', 'phase': 'fields', 'nf': 3, 'binary': 0, 'steps': 2, 'iter': 4})
        rs = [(n, e) for n in (0, 1, 2, 3) for e in (0, 1)]
        steps = 3
    else:
        for nf in (0, 1, 2, 3, 4):
            for binary in (0, 1):
                out.append({'kind': 'frame', 'phase': 'ops', 'nf': nf, 'binary': binary, 'steps': 3, 'iter': 0})
                out.append({'kind': 'frame', 'phase': 'fields', 'nf': nf, 'binary': binary, 'steps': 2, 'iter': 5})
                out.append({'kind': 'frame', 'phase': 'owned', 'nf': nf, 'binary': binary, 'steps': 2, 'iter': 5})
        rs = [(n, e) for n in (0, 1, 2, 3, 4) for e in (0, 1)]
        steps = 5
    for n, e in rs:
        for kind in ('ref', 'owned'):
            out.append({'kind': 'response', 'n': n, 'error': e, 'iter': kind, 'steps': steps})
        if n + e > 0:
            out.append({'kind': 'response', 'n': n, 'error': e, 'iter': 'single', 'steps': 0})
    return out

def bounds(tier):
    return {'quick': 'frames of 0..3 fields, every key a symbolic choice from {a, A, b}, with/without binary; every sequence of 2 (one instance: 3) operations from '
                     '{find(k), get(k), take_binary} with symbolic k, each followed by the length/emptiness/binary queries, then every next/next_back pattern of 3 (4) steps on '
                     'the borrowed and on the owned iterator (owned: plus take_binary at a symbolic step); responses of 0..3 frames with/without error: every pattern of 3 '
                     'steps from {next, next_back, nth(0..2)} with size_hint/len after each step, then count/last, on both iterators; into_single_frame',
            'thorough': 'frames of 0..4 fields, 3 operations, iterator patterns of 5 steps; responses of 0..4 frames, patterns of 5 steps'}[tier]

# ---------------------------------------------------------------------------- value construction
def mk_frame(keys, binary):
    fields = [some(Tup([StrBuf([k], 'Arc<str>'), StrBuf(list(b'v%d' % i))])) for i, k in enumerate(keys)]
    fc = Adt('FieldsContainer', None, 0, [VecObj(fields)])
    return Adt('Frame', None, 0, [fc, some(ByteBuf(list(b'B\nN'))) if binary else none()], ['fields', 'binary'])

def mk_id_frame(i):
    fc = Adt('FieldsContainer', None, 0, [VecObj([some(Tup([StrBuf(list(b'id'), 'Arc<str>'), StrBuf(list(str(i).encode()))]))])])
    return Adt('Frame', None, 0, [fc, none()], ['fields', 'binary'])

def mk_error(n):
    return Adt('Error', None, 0, [5, n, some(StrBuf(list(b'x'), 'Box<str>')), StrBuf(list(b'msg'), 'Box<str>')],
               ['code', 'command_index', 'current_command', 'message'])

def txt(v):
    """concrete text of a str-like value"""
    from models_core import as_items
    return bytes(as_items(v)).decode()

def run_instance(payload):
    P = engine.load_program()
    res = Result(str(payload))
    t0 = time.time()
    if payload['kind'] == 'frame':
        run_frame(P, res, payload)
    else:
        run_response(P, res, payload)
    res.wall_s = time.time() - t0
    return res.to_dict()

# ---------------------------------------------------------------------------- frames
FR = 'mpd_protocol::response::frame::Frame'
def run_frame(P, res, payload):
    nf = payload['nf']; binary = payload['binary']; nsteps = payload['steps']; niter = payload['iter']; phase = payload['phase']

    def sym_key(I, name):
        b = z3.BitVec(name, 8)
        I.ctx.assume(z3.Or(*[b == k for k in KEYSET]))
        return b

    def harness(I):
        keys = [sym_key(I, 'k%d' % i) for i in range(nf)]
        frame = mk_frame(keys, binary)
        cell = ValLoc(frame)
        model = [[k, 'v%d' % i] for i, k in enumerate(keys)]     # None = removed
        mbin = 'B\nN' if binary else None
        script = []
        bad = []
        def first_match_cond(q, idx):
            """condition: the first remaining field with key q is idx (idx None: there is none)"""
            conds = []
            for j, e in enumerate(model):
                if e is None:
                    continue
                if idx is not None and j == idx:
                    conds.append(int_eq(e[0], q))
                    break
                conds.append(b_not(int_eq(e[0], q)))
            return b_and(*conds)
        def expect(cond, what):
            if not I.ctx.must(cond):
                bad.append((what, z3.Not(cond) if is_sym(cond) else None))
        def observe_queries():
            ln = I.call_repo(FR + '::fields_len', [Ref(cell)])
            em = I.call_repo(FR + '::is_empty', [Ref(cell)])
            hb = I.call_repo(FR + '::has_binary', [Ref(cell)])
            bn = I.call_repo(FR + '::binary', [Ref(cell)])
            want_len = sum(1 for e in model if e is not None)
            if ln != want_len:
                bad.append(('fields_len is %d with %d fields remaining' % (ln, want_len), None))
            if em != (want_len == 0 and mbin is None):
                bad.append(('is_empty is %s with %d fields and binary %s' % (em, want_len, mbin is not None), None))
            if hb != (mbin is not None) or (bn.variant == 'Some') != (mbin is not None):
                bad.append(('has_binary/binary disagree with the model', None))
            elif bn.variant == 'Some' and txt(bn.fields[0]) != mbin:
                bad.append(('binary() returns other bytes', None))
            script.extend(['l', 'e', 'h', 'b'])
        for s in range(nsteps):
            op = I.ctx.choose(3, 'op%d' % s) if phase == 'ops' else 1
            if op == 2:
                r = I.call_repo(FR + '::take_binary', [Ref(cell)])
                script.append('t')
                if (r.variant == 'Some') != (mbin is not None) or (r.variant == 'Some' and txt(r.fields[0]) != mbin):
                    bad.append(('take_binary returned %r, the model holds %r' % (r, mbin), None))
                mbin = None
            else:
                q = sym_key(I, 'q%d' % s)
                script.append(('f' if op == 0 else 'g', q))
                if op == 0:
                    r = I.call_repo(FR + '::find::<&str>', [Ref(cell), SliceRef([q], 0, 1, 'str')])
                else:
                    r = I.call_repo(FR + '::get::<&str>', [Ref(cell), SliceRef([q], 0, 1, 'str')])
                if r.variant == 'None':
                    expect(first_match_cond(q, None), '%s returned None although a remaining field has the key' % ('find' if op == 0 else 'get'))
                else:
                    v = txt(r.fields[0])
                    idx = int(v[1:])
                    if model[idx] is None:
                        bad.append(('%s returned the removed field %s' % ('find' if op == 0 else 'get', v), None))
                    else:
                        expect(first_match_cond(q, idx), '%s returned %s which is not the first remaining match (case-sensitive)' % ('find' if op == 0 else 'get', v))
                        if op == 1:
                            model[idx] = None
            if phase == 'ops':
                observe_queries()
        # borrowed iterator: every next/next_back pattern
        def drive_iter(it_cell, nxt, nxt_back, owned):
            remaining = [e for e in model if e is not None]
            lo, hi = 0, len(remaining)
            pat = ''
            tb = I.ctx.choose(niter + 1, 'takeat') if owned else None
            obin = mbin
            for s in range(niter):
                if owned and tb == s:
                    r = I.call_repo('mpd_protocol::response::frame::IntoIter::take_binary', [Ref(it_cell)])
                    pat += 't'
                    if (r.variant == 'Some') != (obin is not None):
                        bad.append(('IntoIter::take_binary disagrees with the model', None))
                    obin = None
                front = I.ctx.choose(2, 'dir%d' % s) == 0
                pat += 'n' if front else 'b'
                r = I.call_repo(nxt if front else nxt_back, [Ref(it_cell)])
                if lo >= hi:
                    if r.variant != 'None':
                        bad.append(('iterator yields %r after the end' % (r,), None))
                    continue
                e = remaining[lo] if front else remaining[hi - 1]
                if front: lo += 1
                else: hi -= 1
                if r.variant != 'Some':
                    bad.append(('iterator ends early (pattern %s)' % pat, None))
                    continue
                k, v = r.fields[0].items
                from models_core import as_items
                if txt(v) != e[1] or not I.ctx.must(seq_eq(list(as_items(k)), [e[0]])):
                    bad.append(('iterator yields %s instead of %s (pattern %s)' % (txt(v), e[1], pat), None))
            return pat
        if phase == 'ops':
            niter_full = sum(1 for e in model if e is not None) + 1
            it = I.call_repo(FR + '::fields', [Ref(cell)])
            itc = ValLoc(it)
            got = []
            for _ in range(niter_full):
                r = I.call_repo('<mpd_protocol::response::frame::Fields<\'_> as Iterator>::next', [Ref(itc)])
                got.append('end' if r.variant == 'None' else txt(r.fields[0].items[1]))
            want = [e[1] for e in model if e is not None] + ['end']
            if got != want:
                bad.append(('forward iteration yields %s, remaining fields are %s' % (got, want), None))
            script.append('F:' + 'n' * niter_full)
            return keys, script, bad
        if phase == 'owned':
            it = I.call_repo('<mpd_protocol::response::frame::Frame as IntoIterator>::into_iter', [cell.get()])
            pat = drive_iter(ValLoc(it), '<mpd_protocol::response::frame::IntoIter as Iterator>::next',
                             '<mpd_protocol::response::frame::IntoIter as DoubleEndedIterator>::next_back', True)
            script.append('I:' + pat)
            return keys, script, bad
        it = I.call_repo(FR + '::fields', [Ref(cell)])
        pat = drive_iter(ValLoc(it), '<mpd_protocol::response::frame::Fields<\'_> as Iterator>::next',
                         '<mpd_protocol::response::frame::Fields<\'_> as DoubleEndedIterator>::next_back', False)
        script.append('F:' + pat)
        return keys, script, bad

    for pr in explore(P, harness):
        res.paths += 1
        ctx = pr.ctx
        if pr.kind == 'panic':
            res.violations.append({'what': 'frame operation panics: ' + pr.error.msg, 'input': None})
            continue
        keys, script, bad = pr.value
        def concrete(m):
            ops = []
            for s in script:
                if isinstance(s, tuple):
                    ops.append('%s:%s' % (s[0], chr(model_bytes(m, [s[1]])[0])))
                else:
                    ops.append(s)
            return {'kind': 'frame', 'keys': model_bytes(m, keys).decode() or '-', 'binary': binary, 'ops': ops}
        for what, cond in bad[:1]:
            m = ctx.model(cond) if cond is not None else ctx.model()
            if m is not None:
                res.violations.append({'what': what, 'input': concrete(m)})
        res.cls('frame ops' + (' with removal' if any(isinstance(s, tuple) and s[0] == 'g' for s in script) else ''),
                nontrivial=any(isinstance(s, tuple) for s in script))
        if not bad:
            res.xval_path('frame %s' % any(isinstance(s, tuple) and s[0] == 'g' for s in script), replay, lambda: concrete(ctx.model()))
        if len(res.samples) < 1:
            res.samples.append(concrete(ctx.model()))
        res.take_stats(ctx.stats); ctx.stats.__init__()

# ---------------------------------------------------------------------------- responses
def run_response(P, res, payload):
    n = payload['n']; error = payload['error']; kind = payload['iter']; nsteps = payload['steps']
    RP = 'mpd_protocol::response::Response'
    def item_txt(r):
        if r.variant == 'None':
            return 'end'
        x = r.fields[0]
        if x.variant == 'Ok':
            f = x.fields[0]
            f = f.get() if isinstance(f, Ref) else f
            return 'frame ' + txt(f.fields[0].fields[0].v[0].fields[0].items[1])
        e = x.fields[0]
        e = e.get() if isinstance(e, Ref) else e
        return 'error %d' % e.fields[0]
    def harness(I):
        resp = Adt('Response', None, 0, [VecObj([mk_id_frame(i) for i in range(n)]), some(mk_error(n)) if error else none()], ['frames', 'error'])
        seq = ['frame %d' % i for i in range(n)] + (['error 5'] if error else [])
        bad = []
        ops = []
        sf = I.call_repo(RP + '::successful_frames', [ref_to(resp)])
        ie = I.call_repo(RP + '::is_error', [ref_to(resp)])
        isu = I.call_repo(RP + '::is_success', [ref_to(resp)])
        if sf != n or ie != bool(error) or isu == bool(error):
            bad.append('successful_frames/is_error/is_success = %s/%s/%s for %d frames, error %s' % (sf, ie, isu, n, bool(error)))
        if kind == 'single':
            r = I.call_repo(RP + '::into_single_frame', [resp])
            got = item_txt(some(r))
            if got != seq[0]:
                bad.append('into_single_frame gives %s, the first item is %s' % (got, seq[0]))
            return ops, bad
        if kind == 'ref':
            it = I.call_repo(RP + '::frames', [ref_to(resp)])
            T = "mpd_protocol::response::FramesRef<'_>"
        else:
            it = I.call_repo('<mpd_protocol::response::Response as IntoIterator>::into_iter', [resp])
            T = 'mpd_protocol::response::Frames'
        cell = ValLoc(it)
        lo, hi = 0, len(seq)
        def check_size():
            h = I.call_repo('<%s as Iterator>::size_hint' % T, [Ref(cell)])
            ln = I.call_path('<%s as ExactSizeIterator>::len' % T, [Ref(cell)])
            want = max(0, hi - lo)
            if h.items[0] != want or h.items[1].variant != 'Some' or h.items[1].fields[0] != want or ln != want:
                bad.append('size_hint/len = %r/%s with %d items remaining (after %s)' % (h, ln, want, ' '.join(ops)))
        check_size()
        for s in range(nsteps):
            op = I.ctx.choose(5, 'op%d' % s)
            if op == 0:
                ops.append('n')
                r = I.call_repo('<%s as Iterator>::next' % T, [Ref(cell)])
                want = seq[lo] if lo < hi else 'end'
                lo += 1 if lo < hi else 0
            elif op == 1:
                ops.append('b')
                r = I.call_repo('<%s as DoubleEndedIterator>::next_back' % T, [Ref(cell)])
                want = seq[hi - 1] if lo < hi else 'end'
                hi -= 1 if lo < hi else 0
            else:
                k = op - 2
                ops.append('N:%d' % k)
                r = I.call_path('<%s as Iterator>::nth' % T, [Ref(cell), k])
                want = seq[lo + k] if lo + k < hi else 'end'
                lo = min(hi, lo + k + 1)
            got = item_txt(r)
            if got != want:
                bad.append('%s yields "%s", expected "%s" (ops %s)' % (ops[-1], got, want, ' '.join(ops)))
            ops.append('s'); ops.append('l')
            check_size()
        fin = I.ctx.choose(2, 'final')
        if fin == 0:
            ops.append('c')
            c = I.call_path('<%s as Iterator>::count' % T, [cell.get()])
            if c != max(0, hi - lo):
                bad.append('count = %d with %d items remaining' % (c, hi - lo))
        else:
            ops.append('L')
            r = I.call_path('<%s as Iterator>::last' % T, [cell.get()])
            want = seq[hi - 1] if lo < hi else 'end'
            if item_txt(r) != want:
                bad.append('last yields "%s", expected "%s"' % (item_txt(r), want))
        return ops, bad
    for pr in explore(P, harness):
        res.paths += 1
        if pr.kind == 'panic':
            res.violations.append({'what': 'response iteration panics: ' + pr.error.msg, 'input': {'kind': 'response', 'n': n, 'error': error, 'iter': kind, 'ops': None}})
            continue
        ops, bad = pr.value
        rec = {'kind': 'response', 'n': n, 'error': error, 'iter': kind, 'ops': ops}
        if bad:
            res.violations.append({'what': bad[0], 'input': rec})
        else:
            res.xval_path('response', replay, lambda: rec if (n or error) else None)      # (the empty response of an empty list has no wire form the native executor could decode)
        res.cls('response %s' % kind, nontrivial=n + error >= 2)
        if len(res.samples) < 1:
            res.samples.append(rec)
        res.take_stats(pr.ctx.stats); pr.ctx.stats.__init__()

# ---------------------------------------------------------------------------- native replay (python list model vs native observations)
def model_frame_obs(keys, binary, ops):
    keys = '' if keys == '-' else keys
    model = [[k, 'v%d' % i] for i, k in enumerate(keys)]
    mbin = b'B\nN' if binary else None
    out = []
    def remaining():
        return [e for e in model if e is not None]
    for op in ops:
        o, _, arg = op.partition(':')
        if o in ('f', 'g'):
            hit = next((e for e in remaining() if e[0] == arg), None)
            out.append('%s %s' % ('find' if o == 'f' else 'get', hit[1] if hit else 'none'))
            if hit and o == 'g':
                model[model.index(hit)] = None
        elif o == 't':
            out.append('take %s' % (hexs(mbin) if mbin is not None else 'none')); mbin = None
        elif o == 'l': out.append('len %d' % len(remaining()))
        elif o == 'e': out.append('empty %s' % ('true' if not remaining() and mbin is None else 'false'))
        elif o == 'h': out.append('hasbin %s' % ('true' if mbin is not None else 'false'))
        elif o == 'b': out.append('bin %s' % (hexs(mbin) if mbin is not None else 'none'))
        elif o in ('F', 'I'):
            rem = remaining(); lo, hi = 0, len(rem); ob = mbin
            for ch in arg:
                if ch == 't':
                    out.append('ittake %s' % (hexs(ob) if ob is not None else 'none')); ob = None; continue
                if lo >= hi:
                    out.append('it end'); continue
                e = rem[lo] if ch == 'n' else rem[hi - 1]
                if ch == 'n': lo += 1
                else: hi -= 1
                out.append('it %s=%s' % (e[0], e[1]))
    return out

def model_response_obs(n, error, kind, ops):
    seq = ['frame %d' % i for i in range(n)] + (['error 5'] if error else [])
    out = ['frames %d error %s success %s' % (n, 'true' if error else 'false', 'false' if error else 'true')]
    if kind == 'single':
        return out + ['single ' + seq[0]]
    lo, hi = 0, len(seq)
    for op in ops:
        o, _, arg = op.partition(':')
        rem = max(0, hi - lo)
        if o == 'n':
            out.append(seq[lo] if lo < hi else 'end'); lo += 1 if lo < hi else 0
        elif o == 'b':
            out.append(seq[hi - 1] if lo < hi else 'end'); hi -= 1 if lo < hi else 0
        elif o == 's': out.append('hint (%d, Some(%d))' % (rem, rem))
        elif o == 'l': out.append('len %d' % rem)
        elif o == 'N':
            k = int(arg); out.append(seq[lo + k] if lo + k < hi else 'end'); lo = min(hi, lo + k + 1)
        elif o == 'c': out.append('count %d' % rem)
        elif o == 'L': out.append('last ' + (seq[hi - 1] if lo < hi else 'end'))
    return out

def replay(rec):
    inp = rec.get('input') or rec
    if not inp or inp.get('ops') is None:
        return False, 'no concrete script'
    if inp['kind'] == 'frame':
        out = run_replay(['frame', inp['keys'], str(inp['binary'])] + inp['ops'])
        want = model_frame_obs(inp['keys'], inp['binary'], inp['ops'])
    else:
        out = run_replay(['response', str(inp['n']), str(inp['error']), inp['iter']] + inp['ops'])
        want = model_response_obs(inp['n'], inp['error'], inp['iter'], inp['ops'])
    if 'panic' in out:
        return True, 'native run panics: ' + unhex(out['panic'][0]).decode('utf-8', 'replace')
    got = out.get('obs', [])
    if got != want:
        k = next((i for i, (a, b) in enumerate(zip(got, want)) if a != b), min(len(got), len(want)))
        return True, 'native observation %d is %r, the list model says %r' % (k, got[k] if k < len(got) else None, want[k] if k < len(want) else None)
    return False, 'native run agrees with the list model'

DESCR = {}
REQUIRED_CLASSES = ['frame ops with removal', 'response ref', 'response owned', 'response single']
EXPLANATION = ('Bounded symbolic execution of the real MIR of the Frame / Response collection API: field keys and query keys are symbolic, the operation sequence '
               'and every next/next_back pattern are symbolic choices; each observation is compared on every feasible path with an ordered-multimap list model '
               '(first remaining match, case-sensitive; exact sizes from both ends); counterexample scripts are replayed natively')
ASSUMPTIONS = ['keys are single bytes from {a, A, b} (duplicates and case variants included), values identify the wire position; longer keys/values do not change the control flow of these functions',
               'frames are constructed directly in the representation the real ResponseBuilder produces (fields vector of Some entries, optional binary); decoding itself is C03',
               'library models: Vec/slice iter, iter_mut, into_iter, IterMut::find_map, Iterator::count/find_map (provided methods call the repository\'s next), Option take/map/as_ref/as_deref, Arc<str>/String AsRef, str ==']
RULE = 'one evaluation = one feasible path (keys x operation sequence x iteration pattern); non-trivial = at least one keyed lookup / two or more response items'
