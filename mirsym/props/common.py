"""Shared plumbing of the per-property drivers: instance results, known findings, native replay, evidence."""
import os, sys, json, time, subprocess, hashlib
import z3
from values import *
import engine
from interp import Stats

VERIF = os.path.dirname(os.path.dirname(os.path.dirname(os.path.abspath(__file__))))
KNOWN_FILE = os.path.join(VERIF, 'known_findings.json')

def known_findings(prop):
    """entries of known_findings.json for this property: key -> entry (status known|fixed)"""
    try:
        data = json.load(open(KNOWN_FILE))
    except FileNotFoundError:
        return {}
    return {e['key']: e for e in data.get('findings', []) if e['property'] == prop}

def known_keys(prop):
    return sorted(k for k, e in known_findings(prop).items() if e.get('status') == 'known')

class Undecided:
    """value of a path that ran into a library call without a model (or another unsupported construct)"""
    def __init__(self, msg): self.msg = msg

def guarded(harness):
    """harness wrapper: a path the models cannot follow is returned as Undecided instead of aborting the whole instance, so that
    the native build can be tried on a solver-chosen input of the path so far (Result.undecided_path)"""
    def h(I):
        try:
            return harness(I)
        except Unsupported as e:
            return Undecided(str(e))
    return h

class Result:
    """what one instance (one bounded sub-problem, explored path-completely) found"""
    def __init__(self, name):
        self.name = name
        self.paths = 0
        self.nontrivial = 0
        self.classes = {}          # oracle outcome class -> number of feasible paths
        self.violations = []       # [{'key': None, 'what': str, 'input': {...}}]
        self.known = {}            # known-finding key -> witness dict
        self.samples = []
        self.queries = 0
        self.solver_s = 0.0
        self.funcs = {}
        self.models = {}
        self.steps = 0
        self.wall_s = 0.0
        self.notes = []
        self.undecided = []
        self.xval = 0              # path witnesses on which the native build agreed with the symbolic result
        self.xval_classes = {}
    def want_xval(self, cls, per_class=None):
        """path-witness cross-validation budget: the first few feasible paths of every outcome class of an instance"""
        per_class = per_class or int(os.environ.get('VERIF_XVAL', '1'))
        if per_class <= 0:
            return False
        n = self.xval_classes.get(cls, 0)
        if n >= per_class:
            return False
        self.xval_classes[cls] = n + 1
        return True
    def xval_result(self, agrees, what, inp):
        """record the outcome of one cross-validation: the native build was run on a solver-chosen input of this path
        and its observation compared with the value of the symbolic result under the same model.  A disagreement means
        the encoding (a library model, the interpreter) is wrong on this path - or the property is broken natively:
        it is queued like a counterexample, the native replay decides which (VIOLATION vs INCONCLUSIVE)."""
        if agrees:
            self.xval += 1
        else:
            self.violations.append({'what': 'native build and symbolic result disagree on a path witness: ' + what, 'input': inp, 'xval': True})
    def undecided_path(self, pr, replay_fn, make_rec):
        """a path the models cannot follow: the native build is run on a solver-chosen input of the path so far and judged by the
        concrete oracle.  A natively confirmed violation is reported; otherwise the instance stays undecided (exit 2 unless
        another path of the run yields a confirmed counterexample)."""
        msg = pr.value.msg
        try:
            rec = make_rec()
            rep, detail = replay_fn({'input': rec}) if rec is not None else (False, '')
        except Exception as e:
            rep, detail, rec = False, str(e), None
        if rep:
            self.violations.append({'what': 'found by running the native build on an input of a path the models cannot follow (%s): %s' % (msg[:90], str(detail)[:300]), 'input': rec, 'xval': True})
        else:
            self.undecided.append(msg)
    def finish(self):
        if self.undecided and not self.violations:
            raise Unsupported(self.undecided[0])
        if self.undecided:
            self.notes.append('%d path(s) could not be followed by the models: %s' % (len(self.undecided), self.undecided[0][:120]))
        return self.to_dict()
    def xval_path(self, cls, replay_fn, make_rec):
        """cross-validate one passing path: run the native build on a solver-chosen input of this path and judge it with
        the concrete oracle (the driver's replay function).  Symbolically the path satisfies the property; if the native
        run does not, the encoding is wrong or the property is broken - queued as a counterexample (the replay decides)."""
        if not self.want_xval(cls):
            return
        try:
            rec = make_rec()
        except (ValueError, UnicodeDecodeError):
            return
        if rec is None:
            return
        rep, detail = replay_fn({'input': rec})
        if rep:
            self.violations.append({'what': 'the native build breaks the property on an input of a path that passes symbolically: ' + str(detail)[:300], 'input': rec, 'xval': True})
        else:
            self.xval += 1
    def cls(self, name, nontrivial=False):
        self.classes[name] = self.classes.get(name, 0) + 1
        if nontrivial:
            self.nontrivial += 1
    def take_stats(self, st):
        self.queries += st.queries; self.solver_s += st.solver_s; self.steps += st.steps
        for k, v in st.funcs.items():
            self.funcs[k] = self.funcs.get(k, 0) + v
        for k, v in st.models.items():
            self.models[k] = self.models.get(k, 0) + v
    def to_dict(self):
        return self.__dict__

def merge(results):
    tot = Result('total')
    for r in results:
        tot.paths += r['paths']; tot.nontrivial += r['nontrivial']
        for k, v in r['classes'].items():
            tot.classes[k] = tot.classes.get(k, 0) + v
        tot.violations.extend(r['violations'])
        for k, w in r['known'].items():
            tot.known.setdefault(k, w)
        tot.samples.extend(r['samples'][:2])
        tot.queries += r['queries']; tot.solver_s += r['solver_s']; tot.steps += r['steps']
        for k, v in r['funcs'].items():
            tot.funcs[k] = tot.funcs.get(k, 0) + v
        for k, v in r['models'].items():
            tot.models[k] = tot.models.get(k, 0) + v
        tot.notes.extend(r.get('notes', []))
        tot.xval += r.get('xval', 0)
    return tot

# ---------------------------------------------------------------------------- native replay
_REPLAY_BINS = {}
def replay_bin(small=False, chrono=False):
    """build (incrementally) the native executor against /repo's current working tree; small=True: with the
    verif-small-buffer hook of mpd_protocol enabled (8-byte receive buffer)"""
    if chrono:
        small = 'chrono'
    if small in _REPLAY_BINS:
        return _REPLAY_BINS[small]
    src = os.path.join(VERIF, 'ws', 'replay')
    target = os.path.join(engine.scratch_dir(), 'replay-target-chrono' if chrono else ('replay-target-small' if small else 'replay-target'))
    env = dict(os.environ)
    env['CARGO_TARGET_DIR'] = target
    env['CARGO_NET_OFFLINE'] = 'true'
    env.pop('RUSTFLAGS', None)
    lock = os.path.join(src, 'Cargo.lock')
    if not os.path.exists(lock):
        import shutil
        shutil.copy(os.path.join(os.environ.get('VERIF_REPO', '/repo'), 'Cargo.lock'), lock)
    r = subprocess.run(['cargo', 'build', '--offline', '--quiet'] + (['--features', 'chrono'] if chrono else (['--features', 'small'] if small else [])), cwd=src, env=env,
                       stdout=subprocess.PIPE, stderr=subprocess.PIPE, text=True)
    if r.returncode != 0:
        sys.stderr.write(r.stderr[-3000:])
        raise engine.Inconclusive('native replay executor does not build against the current tree')
    _REPLAY_BINS[small] = os.path.join(target, 'debug', 'replay')
    return _REPLAY_BINS[small]

def hexs(b):
    b = bytes(b)
    return b.hex() if b else '-'

def unhex(s):
    return b'' if s == '-' else bytes.fromhex(s)

def run_replay(args, timeout=60, small=False, chrono=False):
    """run the native executor; returns dict key -> [values] (repeated keys keep order)"""
    try:
        r = subprocess.run([replay_bin(small, chrono)] + [str(a) for a in args], stdout=subprocess.PIPE, stderr=subprocess.PIPE,
                           text=True, timeout=timeout)
    except subprocess.TimeoutExpired:
        # the native run does not terminate (runs normally take milliseconds): reported like a panic of the native run
        msg = 'the native run does not terminate (stopped after %d s)' % timeout
        return {'panic': [msg.encode().hex()], '_order': [('panic', msg.encode().hex())], '_rc': -1, '_stderr': '', '_timeout': True}
    out = {}
    order = []
    for line in r.stdout.splitlines():
        if '=' in line:
            k, v = line.split('=', 1)
            out.setdefault(k, []).append(v)
            order.append((k, v))
    out['_order'] = order
    out['_rc'] = r.returncode
    out['_stderr'] = r.stderr[-2000:]
    return out

# ---------------------------------------------------------------------------- evidence
def func_blocks(prog, names):
    out = {}
    for f in prog.all_funcs():
        if f.name in names:
            out[f.name] = len(f.blocks)
    return out

def write_evidence(prop, tier, seed, tot, wall, bounds, explanation, assumptions, rule, violations, extra=None):
    prog = engine.load_program()
    fb = func_blocks(prog, tot.funcs)
    cov = {
        'explanation': explanation,
        'evaluations': tot.paths,
        'distinct_nontrivial': tot.nontrivial,
        'rule': rule,
        'samples': tot.samples[:12] or ['(no sample recorded)'],
        'exhaustive': True,
        'bounds': bounds,
        'outcome_classes': tot.classes,
        'functions_encoded': {k: {'mir_blocks': fb.get(k, 0), 'times_executed': v} for k, v in sorted(tot.funcs.items())},
        'library_models_used': dict(sorted(tot.models.items())),
        'queries_discharged': tot.queries,
        'solver_seconds': round(tot.solver_s, 3),
        'mir_statements_executed': tot.steps,
        'mir_dump_seconds': round(prog.dump_seconds, 2),
        'source_hash': prog.src_hash,
        'known_findings_confirmed': sorted(tot.known),
        'path_witnesses_cross_validated_natively': tot.xval,
        'notes': tot.notes[:20],
    }
    if extra:
        cov.update(extra)
    ev = {'property_id': prop, 'tier': tier, 'seed': seed, 'level': 'other', 'coverage': cov,
          'assumptions': assumptions, 'wall_s': round(wall, 2), 'violations': violations}
    evdir = os.environ.get('VERIF_EVIDENCE_DIR') or os.path.join(VERIF, 'evidence')      # (override: development runs on scratch trees)
    os.makedirs(evdir, exist_ok=True)
    p = os.path.join(evdir, prop + '.json')
    with open(p + '.tmp', 'w') as f:
        json.dump(ev, f, indent=1, default=str)
    os.replace(p + '.tmp', p)
    return p

def save_replay(prop, rec):
    d = os.path.join(os.environ.get('VERIF_REPLAY_DIR') or os.path.join(VERIF, 'replays'), prop)
    os.makedirs(d, exist_ok=True)
    h = hashlib.sha1(json.dumps(rec, sort_keys=True, default=str).encode()).hexdigest()[:10]
    p = os.path.join(d, 'cex-%s.json' % h)
    json.dump(rec, open(p, 'w'), indent=1, default=str)
    return p
