"""C11 - filter expressions mean on the server what was built on the client.

Real code executed (MIR): Filter::{new, tag, tag_exists, tag_absent, negate, and, render}, <Filter as Argument>::render,
<Filter as Not>::not, FilterType::render (recursive), escape_filter_value, Operator::as_str, Tag::as_str,
Command::new / argument / add_argument / validate_argument.
Oracle: MPD tokenizer (request line -> argument) + MPD filter parser (argument -> expression tree), compared with the
mirror tree the harness keeps, up to associativity of AND.
"""
import time, itertools
import z3
from values import *
import engine
from engine import explore, model_bytes
from props.common import Result, known_keys, run_replay, hexs, unhex
from models_core import new_wchar, explode, wchar_bytes
from oracles import mpd_tokenizer as T
from oracles import mpd_filter as F
from props.c20 import tag_value

PROP = 'C11'
OPS = ['Equal', 'NotEqual', 'Contain', 'Match', 'NotMatch']

# tree shapes: L = leaf, ('not', s), ('and', s, s) - built left to right through Filter::and / negate
def shapes(max_leaves, max_depth):
    out = set()
    def gen(depth):
        if depth == 0:
            return ['L']
        smaller = gen(depth - 1)
        res = set(smaller)
        for s in smaller:
            res.add(('not', s))
        for a in smaller:
            for b in smaller:
                res.add(('and', a, b))
        return list(res)
    def leaves(s):
        return 1 if s == 'L' else (leaves(s[1]) if s[0] == 'not' else leaves(s[1]) + leaves(s[2]))
    return sorted([s for s in gen(max_depth) if leaves(s) <= max_leaves], key=repr)

def nleaves(s):
    return 1 if s == 'L' else (nleaves(s[1]) if s[0] == 'not' else nleaves(s[1]) + nleaves(s[2]))

def instances(tier, seed):
    out = []
    if tier == 'quick':
        sh = shapes(3, 2)
        vlen = [0, 1, 2, 3]
    else:
        sh = shapes(4, 3)
        vlen = [0, 1, 2, 3, 4]
    # (1) a single leaf: every value length, all operators/tags/constructors symbolic
    for n in vlen:
        out.append({'shape': 'L', 'sym': 0, 'vlen': n, 'wide': None})
    for n, p in ([(1, 0), (2, 1)] if tier == 'quick' else [(1, 0), (2, 0), (2, 1), (3, 1)]):
        out.append({'shape': 'L', 'sym': 0, 'vlen': n, 'wide': p})
    # (2) every tree shape, one symbolic leaf (each position), short symbolic value there, concrete values elsewhere
    for s in sh:
        if s == 'L':
            continue
        k = nleaves(s)
        for pos in (range(k) if tier != 'quick' else [seed % k, (seed + 1) % k] if k > 1 else [0]):
            out.append({'shape': s, 'sym': pos, 'vlen': 1 if tier == 'quick' else 2, 'wide': None})
        # the symbolic condition with the empty value (the "tag is absent" shorthand value) under every shape
        for pos in (range(k) if (tier != 'quick' or k <= 2) else [seed % k]):
            out.append({'shape': s, 'sym': pos, 'vlen': 0, 'wide': None})
        # repeated conditions: all concrete conditions identical, the symbolic one may coincide with them
        if k > 1:
            out.append({'shape': s, 'sym': (seed + 2) % k, 'vlen': 1, 'wide': None, 'same': True})
        # every intermediate filter is used once (rendered by reference as an argument) and cloned before it is transformed
        # further: what a filter renders to depends on the expression only, not on what was done with the value before
        out.append({'shape': s, 'sym': (seed + 1) % k, 'vlen': 1, 'wide': None, 'pre': True})
    return out

def bounds(tier):
    return {'quick': 'single conditions with every operator / constructor (new, tag, tag_exists, tag_absent) / tag in {Artist, Album, MUSICBRAINZ_TRACKID, Other(1..2 symbolic letters)} '
                     'and all ASCII values of length 0..3 (LF excluded) plus one 2-byte scalar; every tree shape of depth <= 2 with <= 3 conditions built with negate/!/and, '
                     'one condition symbolic (operator, tag, 1-byte value; also with the empty value) at two seed-chosen positions, the others concrete and distinct, plus each shape once with all concrete conditions identical (the symbolic one may coincide)',
            'thorough': 'single conditions with values of length 0..4; every tree shape of depth <= 3 with <= 4 conditions, the symbolic condition at every position with a 2-byte value'}[tier]

TAGSPECS = ['Artist', 'Album', 'MusicBrainzRecordingId', 'Other']
TAGNAMES = {'Artist': b'Artist', 'Album': b'Album', 'MusicBrainzRecordingId': b'MUSICBRAINZ_TRACKID'}

def has(v, pred):
    return b_or(*[pred(b) for b in v if not isinstance(b, WChar)])
CLASSES = {
    'F-C11': lambda vals: b_or(*[has(v, lambda b: b_or(int_eq(b, 34), int_eq(b, 92))) for v in vals]),
    'F-C11-nul': lambda vals: b_or(*[has(v, lambda b: int_eq(b, 0)) for v in vals]),
}
DESCR = {'F-C11-nul': 'a filter value containing NUL truncates the request line on the server (C string)', 'F-C11': 'a filter value containing " or \\ is not escaped for both quoting levels (" becomes \\\\" which closes the protocol-level string; \\ is dropped)'}

def run_instance(payload):
    P = engine.load_program()
    res = Result(str(payload))
    t0 = time.time()
    shape = payload['shape']
    if isinstance(shape, list):
        shape = tuplify(shape)
    known = known_keys(PROP)
    symleaf = payload['sym']; vlen = payload['vlen']; wide = payload['wide']
    PRE[0] = bool(payload.get('pre'))

    def harness(I):
        counter = [0]
        values = []
        def leaf():
            k = counter[0]; counter[0] += 1
            if k == symleaf:
                tagk = I.ctx.choose(len(TAGSPECS), 'tag')
                if TAGSPECS[tagk] == 'Other':
                    ln = 1 + I.ctx.choose(2, 'taglen')
                    tb = [z3.BitVec('t%d' % i, 8) for i in range(ln)]
                    for b in tb:
                        I.ctx.assume(z3.Or(z3.And(z3.UGE(b, 65), z3.ULE(b, 90)), z3.And(z3.UGE(b, 97), z3.ULE(b, 122))))
                    tag = tag_value(P, 'Other', tb); tname = tb
                else:
                    tag = tag_value(P, TAGSPECS[tagk]); tname = list(TAGNAMES[TAGSPECS[tagk]])
                ctor = I.ctx.choose(4, 'ctor')          # new / tag / tag_exists / tag_absent
                val = []
                for i in range(vlen):
                    if wide is not None and wide == i:
                        val.append(new_wchar(I, 'w%d' % i, 2))
                    else:
                        b = z3.BitVec('v%d' % i, 8)
                        I.ctx.assume(z3.And(z3.ULT(b, 0x80), b != 10))
                        val.append(b)
                if ctor == 0:
                    opk = I.ctx.choose(len(OPS), 'op')
                    op = Adt('Operator', OPS[opk], opk, [])
                    f = I.call_repo('mpd_client::filter::Filter::new::<String>', [tag, op, StrBuf(val)])
                    mirror = ('tag', tname, OPS[opk], val)
                elif ctor == 1:
                    f = I.call_repo('mpd_client::filter::Filter::tag::<String>', [tag, StrBuf(val)])
                    mirror = ('tag', tname, 'Equal', val)
                elif ctor == 2:
                    if vlen > 0:
                        raise PathInfeasible()
                    f = I.call_repo('mpd_client::filter::Filter::tag_exists', [tag])
                    mirror = ('tag', tname, 'NotEqual', [])
                else:
                    if vlen > 0:
                        raise PathInfeasible()
                    f = I.call_repo('mpd_client::filter::Filter::tag_absent', [tag])
                    mirror = ('tag', tname, 'Equal', [])
                values.append(mirror[3])
                return f, mirror
            if payload.get('same'):
                f = I.call_repo('mpd_client::filter::Filter::new::<String>', [tag_value(P, 'Artist'), Adt('Operator', 'Equal', 0, []), StrBuf(list(b'a'))])
                return f, ('tag', list(b'Artist'), 'Equal', list(b'a'))
            names = ['Artist', 'Album', 'MusicBrainzRecordingId']
            nm = names[k % 3]
            val = list(b'v%d x' % k)
            op = OPS[(k + 2) % 5]
            f = I.call_repo('mpd_client::filter::Filter::new::<String>', [tag_value(P, nm), Adt('Operator', op, OPS.index(op), []), StrBuf(val)])
            return f, ('tag', list(TAGNAMES[nm]), op, val)
        def used(fm):
            f, m = fm
            if not payload.get('pre'):
                return fm
            cmd0 = I.call_repo('mpd_protocol::Command::new', [str_ref(b'x')])
            I.call_repo('mpd_protocol::Command::argument::<&Filter>', [cmd0, ref_to(f)])
            return I.call_repo('<mpd_client::filter::Filter as Clone>::clone', [ref_to(f)]), m
        def build(s, flip):
            return used(build_(s, flip))
        def build_(s, flip):
            if s == 'L':
                return leaf()
            if s[0] == 'not':
                f, m = build(s[1], flip + 1)
                if flip % 2:
                    f = I.call_repo('<mpd_client::filter::Filter as std::ops::Not>::not', [f])
                else:
                    f = I.call_repo('mpd_client::filter::Filter::negate', [f])
                return f, ('not', m)
            fa, ma = build(s[1], flip)
            fb, mb = build(s[2], flip)
            return I.call_repo('mpd_client::filter::Filter::and', [fa, fb]), ('and', [ma, mb])
        f, mirror = build(shape, 0)
        cmd = I.call_repo('mpd_protocol::Command::new', [str_ref(b'find')])
        cmd = I.call_repo('mpd_protocol::Command::argument::<Filter>', [cmd, f])
        wire = explode(I, cmd.fields[0].b)
        return mirror, values, wire

    for pr in explore(P, harness):
        res.paths += 1
        ctx = pr.ctx
        ctx._I = pr.interp
        if pr.kind == 'panic':
            res.violations.append({'what': 'building/rendering the filter panics: ' + pr.error.msg, 'input': None})
            continue
        mirror, values, wire = pr.value
        verdict, detail = judge(ctx, mirror, wire, pr.interp)
        res.cls('filter ' + ('ok' if verdict else 'mismatch'), nontrivial=True)
        if len(res.samples) < 2:
            m = ctx.model()
            res.samples.append({'wire': model_bytes(m, wire).decode('latin1'), 'denotes_same_expression': verdict})
        if not verdict:
            outside = []
            for k in known:
                c = CLASSES[k](values)
                if c is True or (c is not False and ctx.check(c)):
                    if k not in res.known:
                        m = ctx.model(*([c] if is_sym(c) else []))
                        res.known[k] = {'kind': 'filter', 'prog': program_of(m, mirror), 'what': detail}
                outside.append(z3.Not(c) if is_sym(c) else z3.BoolVal(not c))
            m = ctx.model(*outside)
            if m is not None:
                res.violations.append({'what': detail, 'input': {'kind': 'filter', 'prog': program_of(m, mirror)}})
        else:
            res.xval_path('filter ok', replay, lambda: {'kind': 'filter', 'prog': program_of(ctx.model(), mirror)})
        res.take_stats(ctx.stats); ctx.stats.__init__()
    res.wall_s = time.time() - t0
    return res.to_dict()

def tuplify(x):
    return tuple(tuplify(y) for y in x) if isinstance(x, list) else x

PRE = [False]
def program_of(m, mirror):
    p = program_of_(m, mirror)
    return (['pre'] + p) if PRE[0] else p

def program_of_(m, mirror):
    """postfix program for the native executor from the mirror tree under model m"""
    if mirror[0] == 'tag':
        name = model_bytes(m, mirror[1])
        spec = {v: k for k, v in TAGNAMES.items()}.get(name, 'other:' + hexs(name))
        return ['leaf', spec, mirror[2], hexs(model_bytes(m, mirror[3]))]
    if mirror[0] == 'not':
        return program_of_(m, mirror[1]) + ['not']
    prog = program_of_(m, mirror[1][0])
    for x in mirror[1][1:]:
        prog += program_of_(m, x) + ['and']
    return prog

def mirror_of_program(prog):
    st = []
    i = 0
    while i < len(prog):
        if prog[i] == 'pre':
            i += 1
        elif prog[i] == 'leaf':
            spec = prog[i + 1]
            name = list(TAGNAMES[spec]) if spec in TAGNAMES else list(unhex(spec[6:]))
            st.append(('tag', name, prog[i + 2], list(unhex(prog[i + 3])))); i += 4
        elif prog[i] == 'not':
            st.append(('not', st.pop())); i += 1
        else:
            r = st.pop(); l = st.pop(); st.append(('and', [l, r])); i += 1
    return st[0]

def tree_eq(D, a, b, I=None):
    """condition under which two flattened trees denote the same expression (structure must agree concretely)"""
    if a[0] != b[0]:
        return False
    if a[0] == 'tag':
        if a[2] != b[2]:
            return False
        va = flat(a[3], I); vb = flat(b[3], I)
        return b_and(seq_eq(a[1], b[1]), seq_eq(va, vb))
    if a[0] == 'not':
        return tree_eq(D, a[1], b[1], I)
    if len(a[1]) != len(b[1]):
        return False
    return b_and(*[tree_eq(D, x, y, I) for x, y in zip(a[1], b[1])])

def flat(v, I):
    if any(isinstance(x, WChar) for x in v):
        out = []
        for x in v:
            out.extend(wchar_bytes(I, x) if isinstance(x, WChar) else [x])
        return out
    return v

def judge(D, mirror, wire, I=None):
    lines, rest = T.split_lines(D, wire + [10])
    if len(lines) != 1 or rest:
        return False, 'the request is not one line'
    try:
        toks = T.tokenize_line(D, lines[0])
    except T.TokError as e:
        return False, 'tokenizer error: %s' % e
    if len(toks) != 2:
        return False, 'server sees %d arguments instead of one filter' % (len(toks) - 1)
    try:
        tree = F.parse_filter(D, toks[1])
    except F.FilterError as e:
        return False, 'filter parser error: %s' % e
    c = tree_eq(D, F.flatten(tree), F.flatten(mirror), I)
    okv = D.must(c) if hasattr(D, 'must') else (c is True)
    return (True, '') if okv else (False, 'the server-side expression differs from the one built')

def replay(rec):
    inp = rec.get('input') or rec
    if not inp or inp.get('kind') != 'filter':
        return False, 'no concrete input'
    out = run_replay(['filter'] + inp['prog'])
    if 'panic' in out:
        return True, 'native run panics: ' + unhex(out['panic'][0]).decode('utf-8', 'replace')
    wire = list(unhex(out['wire'][0]))
    assert wire[-1] == 10
    okv, detail = judge(T.ConcreteDecider(), mirror_of_program(inp['prog']), wire[:-1])
    return (not okv), 'native wire %r: %s' % (bytes(wire), detail)

REQUIRED_CLASSES = ['filter ok']
EXPLANATION = ('Bounded symbolic execution of the real MIR of the filter builder and renderer inside a real `find` command; the rendered line is decoded '
               'by ports of MPD\'s tokenizer and filter-expression parser and compared with the mirror tree (AND up to associativity) by z3 on every '
               'feasible path; counterexamples are replayed natively')
ASSUMPTIONS = ['tags are named variants or Other(letters) (what Tag::try_from can produce); MPD\'s special filter types with other value syntax (base, modified-since, AudioFormat, prio) are outside the claim',
               'values are ASCII (LF excluded) plus at most one 2-byte scalar; in multi-condition trees only one condition is symbolic',
               'known finding F-C11 (values containing " or \\) is excluded by class and re-confirmed',
               'library models: fmt::Arguments template decoding + Display of str/Cow, str::contains/replace, BytesMut put_u8/put_slice/write_fmt, Vec with_capacity/push/into_iter/iter, Box::new']
RULE = 'one evaluation = one feasible path of one instance (tree shape x symbolic condition position x value length); every path renders and decodes a filter, all are non-trivial'
