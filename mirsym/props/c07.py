"""C07 - user supplied strings can never add a command or change list framing.

Real code executed (MIR): Command::build, validate_command_part (+ closure), is_valid_command_char,
is_command_list_command, Command::add_argument::<A> for a harness renderer A, validate_argument (+ closure),
Command::clone, CommandList::new/add/render.
Oracles: MPD's command-word alphabet, the three list-framing names, "exactly one LF-terminated line per command".
"""
import time
import z3
from values import *
import engine
from engine import explore, model_bytes
from interp import model
from props.common import Result, known_keys, run_replay, hexs, unhex
from models_core import new_wchar, explode, deref
from oracles import mpd_tokenizer as T

PROP = 'C07'
FRAMING = [b'command_list_begin', b'command_list_ok_begin', b'command_list_end']

class Renderer:
    """user-defined Argument: every invocation of render appends a fresh vector of `n` arbitrary bytes"""
    def __init__(self, I, tag, n):
        self.I = I; self.tag = tag; self.n = n; self.calls = []
    def render(self, I, buf):
        k = len(self.calls)
        bs = [z3.BitVec('r%s_%d_%d' % (self.tag, k, i), 8) for i in range(self.n)]
        self.calls.append(bs)
        buf.b.extend(bs)

@model('Argument::render')
def m_harness_render(I, c, args, fr):
    o = deref(args[0])
    if not isinstance(o, Renderer):
        raise Unsupported('Argument::render on %r' % (o,))
    o.render(I, deref(args[1]))
    return UNIT

def instances(tier, seed):
    out = []
    if tier == 'quick':
        names = list(range(0, 9)) + [12, 13, 16, 18, 21, 22]
        seqs = [[0], [1], [2], [3], [1, 1], [2, 1], [0, 2], [1, 1, 1]]
    else:
        names = list(range(0, 25))
        seqs = [[a] for a in range(0, 5)] + [[a, b] for a in range(0, 4) for b in range(0, 4)] + \
               [[a, b, c] for a in range(0, 3) for b in range(0, 3) for c in range(0, 3)]
    for n in names:
        out.append({'kind': 'name', 'n': n, 'wide': None})
    for n in ([1, 2, 3] if tier == 'quick' else [1, 2, 3, 4, 5]):
        for p in range(n):
            out.append({'kind': 'name', 'n': n, 'wide': p})
    for s in seqs:
        out.append({'kind': 'seq', 'lens': s})
    out.append({'kind': 'list', 'cmds': 1}); out.append({'kind': 'list', 'cmds': 2})
    # the line terminator is added by send / list rendering: exactly one LF per command reaches the transport, also under short writes
    for flav in ('sync', 'async'):
        out.append({'kind': 'send', 'n': 1, 'flav': flav, 'single': True})
        out.append({'kind': 'send', 'n': 2, 'flav': flav})
    if tier != 'quick':
        out.append({'kind': 'list', 'cmds': 3})
    return out

def bounds(tier):
    return {'quick': 'command names: every length 0..8 and 12,13,16,18,21,22 with all bytes symbolic (0x00..0xff read as Latin-1/ASCII '
                     'restricted to < 0x80) plus names of length 1..3 with one symbolic 2-byte scalar; add_argument sequences of 1..3 calls on '
                     'one command, renderer output 0..3 arbitrary bytes (0x00..0xff) per call, fresh on every invocation; lists of 1 and 2 commands; one command / a list of two sent through Connection::send(_list) and AsyncConnection::send(_list) over a transport accepting all / 1 / 5 bytes per write',
            'thorough': 'names of every length 0..24 (+ one 2-byte scalar at every position for lengths 1..5); add_argument sequences: 1 call 0..4 '
                        'bytes, 2 calls 0..3 bytes each, 3 calls 0..2 bytes each; lists of 1..3 commands'}[tier]

def in_alphabet(b):
    return b_or(T.is_alnum(b), int_eq(b, ord('_')))

def run_instance(payload):
    P = engine.load_program()
    res = Result(str(payload))
    t0 = time.time()
    kind = payload['kind']
    if kind == 'name':
        run_name(P, res, payload)
    elif kind == 'seq':
        run_seq(P, res, payload)
    elif kind == 'send':
        from props import c13
        c13.run_send(P, res, payload)
    else:
        run_list(P, res, payload)
    res.wall_s = time.time() - t0
    return res.to_dict()

# ---------------------------------------------------------------------------- (a) command names
def run_name(P, res, payload):
    n = payload['n']; wide = payload['wide']
    def harness(I):
        items = []
        for i in range(n):
            if wide is not None and wide == i:
                items.append(new_wchar(I, 'w%d' % i, 2))
            else:
                b = z3.BitVec('n%d' % i, 8)
                I.ctx.assume(z3.ULT(b, 0x80))
                items.append(b)
        r = I.call_repo('mpd_protocol::Command::build', [SliceRef(items, 0, n, 'str')])
        return items, r
    for pr in explore(P, harness):
        res.paths += 1
        ctx = pr.ctx
        if pr.kind == 'panic':
            res.violations.append({'what': 'Command::build panics: ' + pr.error.msg, 'input': None})
            continue
        items, r = pr.value
        if r.variant == 'Err':
            res.cls('name rejected', nontrivial=n > 0)
        else:
            res.cls('name accepted', nontrivial=True)
            bad = []
            if n == 0:
                bad.append(True)
            for x in items:
                bad.append(True if isinstance(x, WChar) else b_not(in_alphabet(x)))
            for fn in FRAMING:
                if len(fn) == n:
                    bad.append(seq_eq(items, list(fn)))
            c = b_or(*bad)
            m = None
            if c is True:
                m = ctx.model()
            elif c is not False:
                m = ctx.model(c)
            if m is not None:
                res.violations.append({'what': 'Command::build accepts a name outside MPD\'s command-word alphabet / a list framing name',
                                       'input': {'kind': 'name', 'name': hexs(model_bytes(m, items))}})
            # the command bytes are exactly the name
            cmd = r.fields[0]
            same = seq_eq(explode(pr.interp, cmd.fields[0].b), explode(pr.interp, items))
            if not ctx.must(same):
                m = ctx.model(z3.Not(same) if is_sym(same) else z3.BoolVal(True))
                res.violations.append({'what': 'accepted command does not consist of the name bytes',
                                       'input': {'kind': 'name', 'name': hexs(model_bytes(m, items))}})
        res.xval_path('name ' + r.variant, replay, lambda: {'kind': 'name', 'name': hexs(model_bytes(ctx.model(), items))})
        if len(res.samples) < 2:
            m = ctx.model()
            res.samples.append({'name': model_bytes(m, items).decode('latin1'), 'result': r.variant})
        res.take_stats(ctx.stats); ctx.stats.__init__()

# ---------------------------------------------------------------------------- (b) add_argument sequences
def cmd_bytes(I, cmd):
    return list(cmd.fields[0].b)

def run_seq(P, res, payload):
    lens = payload['lens']
    def harness(I):
        r = I.call_repo('mpd_protocol::Command::build', [str_ref(b'cmd')])
        cell = ValLoc(r.fields[0])
        steps = []
        for k, n in enumerate(lens):
            before = cmd_bytes(I, cell.get())
            rd = Renderer(I, str(k), n)
            rr = I.call_repo('mpd_protocol::Command::add_argument::<&Renderer>', [Ref(cell), ref_to(rd)])
            steps.append((before, rd, rr.variant, cmd_bytes(I, cell.get())))
        lst = I.call_repo('mpd_protocol::CommandList::new', [cell.get()])
        wire = I.call_repo('mpd_protocol::CommandList::render', [lst])
        return steps, list(wire.b)
    for pr in explore(P, harness):
        res.paths += 1
        ctx = pr.ctx
        if pr.kind == 'panic':
            m = ctx.model()
            res.violations.append({'what': 'add_argument panics: ' + pr.error.msg, 'input': None})
            continue
        steps, wire = pr.value
        allv = [b for (_, rd, _, _) in steps for call in rd.calls for b in call]
        sig = []
        for before, rd, verdict, after in steps:
            sig.append(verdict)
            what = None
            cond = None
            if not rd.calls:
                what = 'renderer was never invoked'; cond = True
            elif verdict == 'Err':
                # rejected  =>  command exactly as before, and the rejected bytes did contain a LF
                same = seq_eq(after, before)
                lf_somewhere = b_or(*[int_eq(b, 10) for call in rd.calls for b in call])
                cond = b_or(b_not(same), b_not(lf_somewhere))
                what = 'rejected argument changed the command, or an argument without LF was rejected'
            else:
                # accepted => no LF in the command, and the command is before + ' ' + the output of one invocation
                nolf = b_and(*[b_not(int_eq(b, 10)) for b in after])
                shapes = [seq_eq(after, before + [32] + call) for call in rd.calls]
                cond = b_or(b_not(nolf), b_not(b_or(*shapes)))
                what = 'accepted argument put a LF into the command, or the command is not <before> SP <rendered bytes>'
            m = None
            if cond is True:
                m = ctx.model()
            elif cond is not False:
                m = ctx.model(cond)
            if m is not None:
                res.violations.append({'what': what, 'input': {'kind': 'seq', 'calls': [[hexs(model_bytes(m, c)) for c in rd2.calls]
                                                                                          for (_, rd2, _, _) in steps]}})
                break
        # the rendered single command is exactly one line
        last = steps[-1][3] if steps else list(b'cmd')
        one_line = b_and(seq_eq(wire, last + [10]), *[b_not(int_eq(b, 10)) for b in last])
        if not ctx.must(one_line):
            m = ctx.model(z3.Not(one_line)) if is_sym(one_line) else ctx.model()
            res.violations.append({'what': 'the command does not occupy exactly one LF-terminated line',
                                   'input': {'kind': 'seq', 'calls': [[hexs(model_bytes(m, c)) for c in rd2.calls] for (_, rd2, _, _) in steps]}})
        res.cls('seq ' + '/'.join(sig), nontrivial='Err' in sig)
        def mk():
            m = ctx.model()
            return {'kind': 'seq', 'calls': [[hexs(model_bytes(m, c)) for c in rd2.calls] for (_, rd2, _, _) in steps]}
        res.xval_path('seq ' + '/'.join(sig), replay, mk)
        if len(res.samples) < 2:
            m = ctx.model()
            res.samples.append({'calls': [[model_bytes(m, c).decode('latin1') for c in rd.calls] for (_, rd, _, _) in steps], 'verdicts': sig,
                                'wire': model_bytes(m, wire).decode('latin1')})
        res.take_stats(ctx.stats); ctx.stats.__init__()

# ---------------------------------------------------------------------------- (c) list framing with arbitrary accepted arguments
def run_list(P, res, payload):
    ncmd = payload['cmds']
    def harness(I):
        cmds = []
        for k in range(ncmd):
            r = I.call_repo('mpd_protocol::Command::build', [str_ref(b'c' + bytes([97 + k]))])
            cell = ValLoc(r.fields[0])
            rd = Renderer(I, 'L%d' % k, 2)
            rr = I.call_repo('mpd_protocol::Command::add_argument::<&Renderer>', [Ref(cell), ref_to(rd)])
            cmds.append((cell.get(), rd, rr.variant, cmd_bytes(I, cell.get())))
        lst = I.call_repo('mpd_protocol::CommandList::new', [cmds[0][0]])
        cell = ValLoc(lst)
        for c, _, _, _ in cmds[1:]:
            I.call_repo('mpd_protocol::CommandList::add', [Ref(cell), c])
        wire = I.call_repo('mpd_protocol::CommandList::render', [cell.get()])
        return cmds, list(wire.b)
    for pr in explore(P, harness):
        res.paths += 1
        ctx = pr.ctx
        if pr.kind == 'panic':
            res.violations.append({'what': 'list rendering panics: ' + pr.error.msg, 'input': None})
            continue
        cmds, wire = pr.value
        expect = []
        for c, rd, v, snap in cmds:
            expect.append(snap)
        if ncmd == 1:
            want = expect[0] + [10]
        else:
            want = list(b'command_list_ok_begin\n')
            for e in expect:
                want += e + [10]
            want += list(b'command_list_end\n')
        nlf = sum(1 for b in wire if isinstance(b, int) and b == 10)
        okc = b_and(seq_eq(wire, want), *[b_not(int_eq(b, 10)) for e in expect for b in e])
        if not ctx.must(okc):
            m = ctx.model(z3.Not(okc)) if is_sym(okc) else ctx.model()
            res.violations.append({'what': 'list of %d commands is not framed as begin/commands/end with one line per command' % ncmd,
                                   'input': {'kind': 'list', 'calls': [[hexs(model_bytes(m, c)) for c in rd.calls] for (_, rd, _, _) in cmds]}})
        res.cls('list%d %s' % (ncmd, '/'.join(v for _, _, v, _ in cmds)), nontrivial=True)
        if len(res.samples) < 1:
            m = ctx.model()
            res.samples.append({'list': ncmd, 'wire': model_bytes(m, wire).decode('latin1')})
        res.take_stats(ctx.stats); ctx.stats.__init__()

# ---------------------------------------------------------------------------- native replay
def replay(rec):
    inp = rec.get('input') or rec
    if inp['kind'] == 'send':
        from props import c13
        return c13.replay(rec)
    if inp['kind'] == 'name':
        name = unhex(inp['name'])
        try:
            name.decode('utf-8')
        except UnicodeDecodeError:
            return False, 'name is not UTF-8'
        out = run_replay(['line', hexs(name)])
        if 'panic' in out:
            return True, 'native build panics'
        accepted = out.get('build') == ['ok']
        bad = (len(name) == 0 or any(not (chr(b).isalnum() and b < 128 or b == 95) for b in name) or name in FRAMING)
        wire = unhex(out['wire'][0]) if accepted else b''
        return (accepted and (bad or wire != name + b'\n')), 'build=%s wire=%r' % (out.get('build'), wire)
    if inp['kind'] in ('seq', 'list'):
        if inp['kind'] == 'list':
            # replayed as independent single-command sequences (the framing part is deterministic)
            reps = [replay({'kind': 'seq', 'calls': [c]}) for c in inp['calls']]
            return any(r[0] for r in reps), '; '.join(r[1] for r in reps)
        args = ['seq', hexs(b'cmd')]
        for calls in inp['calls']:
            calls = calls or ['-']
            args += [str(len(calls))] + calls
        out = run_replay(args)
        if 'panic' in out:
            return True, 'native run panics'
        before = b'cmd'
        for k, calls in enumerate(inp['calls']):
            verdict = out['add%d' % k][0]
            after = unhex(out['cmd%d' % k][0])
            assert after.endswith(b'\n')
            after = after[:-1]
            ncalls = int(out['calls%d' % k][0])
            chunks = [unhex(c) for c in (calls or ['-'])]
            used = [chunks[min(j, len(chunks) - 1)] for j in range(ncalls)]
            if verdict == 'err':
                if after != before or not any(b'\n' in u for u in used):
                    return True, 'step %d: rejected, command %r -> %r' % (k, before, after)
            else:
                if b'\n' in after or not any(after == before + b' ' + u for u in used):
                    return True, 'step %d: accepted, command %r -> %r (renderer emitted %r)' % (k, before, after, used)
            before = after
        return False, 'native run behaves'
    return False, 'unknown record'

DESCR = {}
REQUIRED_CLASSES = ['name accepted', 'name rejected', 'seq Ok', 'seq Err', 'list2']
EXPLANATION = ('Bounded symbolic execution of the real MIR of the command builder: command names of the stated lengths with all bytes '
               'symbolic (accepted => inside MPD\'s word alphabet, not a list-framing name, command bytes == name), sequences of add_argument calls '
               'with a harness-defined renderer that appends fresh arbitrary bytes on every invocation (Err <=> LF, rollback exact, Ok => stored '
               'bytes are one rendering and contain no LF), and list rendering (one line per command, exact begin/end framing); z3 decides every '
               'branch and the final assertions; counterexamples are replayed natively with a scripted renderer')
ASSUMPTIONS = ['name bytes are ASCII plus at most one 2-byte scalar; renderer bytes range over 0x00..0xff',
               'the renderer only appends to the buffer (the documented contract of Argument::render); renderers rewriting earlier bytes are outside the claim',
               'library models: str::is_empty/char_indices/starts_with, Iterator::find/position, char::is_ascii_alphabetic, BytesMut len/put_u8/put_slice/split_off/truncate/freeze/with_capacity/clone, Vec push/pop/len/into_iter',
               'Connection::send adds the line terminator in the same way as CommandList::render of a single command (checked with the connection properties)']
RULE = ('one evaluation = one feasible path of one instance (name length / add_argument length vector / list size); non-trivial = accepted name, '
        'a sequence with at least one rejection, or a framed list')
