"""C03 - see props/parsergroup.py (shared machinery of the protocol-layer properties)."""
from props import parsergroup as PG
PROP = 'C03'
def instances(tier, seed): return PG.instances_for(PROP, tier, seed)
def run_instance(payload): return PG.run_for(PROP, payload)
def replay(rec): return PG.replay_for(PROP, rec)
def bounds(tier): return BOUNDS[tier]
DESCR = {}
EXPLANATION = PG.EXPL
ASSUMPTIONS = PG.ASSUME
BOUNDS = {'quick': 'fifteen stream templates (single field with free key byte and free value bytes; two fields; ACK with free code/index/command/message bytes; binary with free length digit and free payload incl. LF/NUL/0xff; '
                   'command lists with and without error, a four-frame list with a repeated key and an empty frame, an empty binary chunk as first component; two responses back to back followed by free bytes; OK followed by free bytes; streams longer than the 8-byte buffer and its doublings, text and binary), holes of 1-2 free '
                   'bytes (0x00..0xff); each decoded by the blocking connection from one read and by the async connection one byte per read; up to 4 receive calls',
          'thorough': 'as quick with holes of 3 bytes and every flavour x {one read, one byte per read}'}
REQUIRED_CLASSES = ['stream boundary', 'stream partial', 'stream invalid']
RULE = 'one evaluation = one feasible path (template x hole values x flavour/segmentation) with reference and real decode compared; non-trivial = the stream contains a response with content'
