"""Shared by C02 / C03 / C09 / C10 / C18: run the real blocking and async connections over a scripted transport and
normalise what they return."""
import z3
from values import *
from models_io import Transport, drive, CX, poll_value
from models_core import as_items, deref

GREETING = list(b'OK MPD 0.23.5\n')
T = 'Transport'

class Outcome:
    """one result of receive(): kind 'response' (frames, error) | 'closed' | 'eof' (UnexpectedEof) | 'invalid' | 'ioerror' | 'panic'"""
    def __init__(self, kind, frames=None, error=None, detail=None):
        self.kind = kind; self.frames = frames; self.error = error; self.detail = detail
    def __repr__(self):
        if self.kind == 'response':
            return 'response(%d frames%s)' % (len(self.frames), ', error' if self.error else '')
        return self.kind

class _Holder: pass
_H = _Holder()
def flat(items):
    """byte view of string elements (multi-byte scalar elements are expanded to their UTF-8 bytes)"""
    from models_core import wchar_bytes
    out = []
    for x in items:
        if isinstance(x, WChar):
            out.extend(wchar_bytes(_H, x))
        else:
            out.append(x)
    return out

def norm_response(r):
    frames = []
    for f in r.field('frames').v:
        fields = []
        for e in f.field('fields').fields[0].v:
            if e.variant == 'Some':
                k, v = e.fields[0].items
                fields.append((flat(as_items(k)), flat(as_items(v))))
        b = f.field('binary')
        frames.append((fields, list(b.fields[0].b) if b.variant == 'Some' else None))
    e = r.field('error')
    error = None
    if e.variant == 'Some':
        x = e.fields[0]
        cc = x.field('current_command')
        error = (x.field('code'), x.field('command_index'), flat(as_items(cc.fields[0])) if cc.variant == 'Some' else None, flat(as_items(x.field('message'))))
    return frames, error

def classify(r):
    """Result<Option<Response>, MpdProtocolError> -> Outcome"""
    if r.variant == 'Ok':
        o = r.fields[0]
        if o.variant == 'None':
            return Outcome('closed')
        fr, er = norm_response(o.fields[0])
        return Outcome('response', fr, er)
    e = r.fields[0]
    if e.variant == 'InvalidMessage':
        return Outcome('invalid')
    io = e.fields[0]
    kind = io.data[0] if isinstance(io, Opaque) else str(io)
    return Outcome('eof' if kind == 'UnexpectedEof' else 'ioerror', detail=kind)

def classify_connect(r, is_async=False):
    if r.variant == 'Ok':
        return Outcome('connected')
    return classify(r)

def set_cap(I, cap):
    I.const_override = {'DEFAULT_BUFFER_CAPACITY': cap}

def sync_session(I, t, max_receives, connect=True):
    """connect (greeting) + up to max_receives receive() calls; returns (connect outcome, [Outcome], connection or None)"""
    r = I.call_repo('mpd_protocol::connection::Connection::<%s>::connect' % T, [t])
    co = classify_connect(r)
    outs = []
    conn = None
    if r.variant == 'Ok':
        conn = ValLoc(r.fields[0])
        for _ in range(max_receives):
            x = I.call_repo('mpd_protocol::connection::Connection::<%s>::receive' % T, [Ref(conn)])
            o = classify(x)
            outs.append(o)
            if o.kind != 'response':
                break
    return co, outs, conn

def async_session(I, t, max_receives, between=None):
    fut = I.call_repo('mpd_protocol::connection::AsyncConnection::<%s>::connect' % T, [t])
    r = drive(I, fut, between=between)
    co = classify_connect(r)
    outs = []
    conn = None
    if r.variant == 'Ok':
        conn = ValLoc(r.fields[0])
        for _ in range(max_receives):
            fut = I.call_repo('mpd_protocol::connection::AsyncConnection::<%s>::receive' % T, [Ref(conn)])
            x = drive(I, fut, between=between)
            o = classify(x)
            outs.append(o)
            if o.kind != 'response':
                break
    return co, outs, conn

def version_of(I, conn, is_async):
    path = 'mpd_protocol::connection::%s::<%s>::protocol_version' % ('AsyncConnection' if is_async else 'Connection', T)
    from models_core import explode
    return list(explode(I, I.call_repo(path, [Ref(conn)]).items()))

# ---------------------------------------------------------------------------- comparing outcomes
def items_eq(a, b):
    return seq_eq(a, b)

def frames_cond(fa, fb):
    """condition under which two normalised frame lists are equal (False when shapes differ)"""
    if len(fa) != len(fb):
        return False
    conds = []
    for (xa, ba), (xb, bb) in zip(fa, fb):
        if len(xa) != len(xb) or (ba is None) != (bb is None):
            return False
        for (ka, va), (kb, vb) in zip(xa, xb):
            conds += [items_eq(ka, kb), items_eq(va, vb)]
        if ba is not None:
            conds.append(items_eq(ba, bb))
    return b_and(*conds)

def error_cond(ea, eb):
    if (ea is None) != (eb is None):
        return False
    if ea is None:
        return True
    if (ea[2] is None) != (eb[2] is None):
        return False
    conds = [int_eq(bv(ea[0], 80), bv(eb[0], 80)), int_eq(bv(ea[1], 80), bv(eb[1], 80)), items_eq(ea[3], eb[3])]
    if ea[2] is not None:
        conds.append(items_eq(ea[2], eb[2]))
    return b_and(*conds)

def outcome_cond(a, b):
    if a.kind != b.kind:
        return False
    if a.kind != 'response':
        return True
    return b_and(frames_cond(a.frames, b.frames), error_cond(a.error, b.error))

def outcomes_cond(xs, ys):
    if len(xs) != len(ys):
        return False
    return b_and(*[outcome_cond(a, b) for a, b in zip(xs, ys)])

def show_outcomes(m, outs):
    from engine import model_bytes
    res = []
    for o in outs:
        if o.kind != 'response':
            res.append(o.kind)
        else:
            fr = [([(model_bytes(m, k).decode('latin1'), model_bytes(m, v).decode('latin1')) for k, v in f], model_bytes(m, b).decode('latin1') if b is not None else None) for f, b in o.frames]
            er = None
            if o.error:
                er = (str(m.eval(bv(o.error[0], 80), model_completion=True)), str(m.eval(bv(o.error[1], 80), model_completion=True)),
                      model_bytes(m, o.error[2]).decode('latin1') if o.error[2] is not None else None, model_bytes(m, o.error[3]).decode('latin1'))
            res.append({'frames': fr, 'error': er})
    return res
