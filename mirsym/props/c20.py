"""C20 - tags and subsystems compare, hash and parse by protocol name.

Real code executed (MIR): Tag::as_str, <Tag as TryFrom<&str>>::try_from (+ closure), Tag eq/cmp/partial_cmp/hash,
<Tag as Argument>::render, Subsystem::from_frame (+ Frame::get and its closures), Subsystem::as_str, Subsystem eq/hash.
Oracle: the protocol name tables below (MPD tag names / idle subsystem names; MusicBrainz names per the Picard mapping
the crate documents) and plain byte-string equality / ordering.
"""
import time
import z3
from values import *
import engine
from engine import explore, model_bytes
from props.common import Result, run_replay, hexs, unhex
from models_core import RecHasher, ascii_lower, val_cmp
from oracles import mpd_tokenizer as T

PROP = 'C20'
TAGS = [('Album', 'Album'), ('AlbumArtist', 'AlbumArtist'), ('AlbumArtistSort', 'AlbumArtistSort'), ('AlbumSort', 'AlbumSort'),
        ('Artist', 'Artist'), ('ArtistSort', 'ArtistSort'), ('Comment', 'Comment'), ('Composer', 'Composer'),
        ('ComposerSort', 'ComposerSort'), ('Conductor', 'Conductor'), ('Date', 'Date'), ('Disc', 'Disc'), ('Ensemble', 'Ensemble'),
        ('Genre', 'Genre'), ('Grouping', 'Grouping'), ('Label', 'Label'), ('Location', 'Location'), ('Movement', 'Movement'),
        ('MovementNumber', 'MovementNumber'), ('MusicBrainzArtistId', 'MUSICBRAINZ_ARTISTID'),
        ('MusicBrainzRecordingId', 'MUSICBRAINZ_TRACKID'), ('MusicBrainzReleaseArtistId', 'MUSICBRAINZ_ALBUMARTISTID'),
        ('MusicBrainzReleaseId', 'MUSICBRAINZ_ALBUMID'), ('MusicBrainzTrackId', 'MUSICBRAINZ_RELEASETRACKID'),
        ('MusicBrainzWorkId', 'MUSICBRAINZ_WORKID'), ('Name', 'Name'), ('OriginalDate', 'OriginalDate'), ('Performer', 'Performer'),
        ('Title', 'Title'), ('Track', 'Track'), ('Work', 'Work')]
SUBSYS = [('Database', 'database'), ('Message', 'message'), ('Mixer', 'mixer'), ('Options', 'options'), ('Output', 'output'),
          ('Partition', 'partition'), ('Player', 'player'), ('Queue', 'playlist'), ('Sticker', 'sticker'),
          ('StoredPlaylist', 'stored_playlist'), ('Subscription', 'subscription'), ('Update', 'update'), ('Neighbor', 'neighbor'),
          ('Mount', 'mount')]

def instances(tier, seed):
    out = []
    for v, n in TAGS:
        out.append({'kind': 'tagpair', 'variant': v, 'name': n})
        out.append({'kind': 'tagcase', 'variant': v, 'name': n})
    for v, n in SUBSYS:
        out.append({'kind': 'subpair', 'variant': v, 'name': n})
        out.append({'kind': 'subevent', 'name': n, 'variant': v})
        out.append({'kind': 'subevent_case', 'name': n, 'variant': v})
    for n in range(0, 5 if tier == 'quick' else 7):
        out.append({'kind': 'tagparse', 'n': n, 'wide': None})
    for n in ([4, 5, 6] if tier == 'quick' else [4, 5, 6, 7, 8, 9, 11, 14]):
        out.append({'kind': 'tagparse_near', 'n': n})
    for n, p in ([(1, 0), (2, 1)] if tier == 'quick' else [(1, 0), (2, 0), (2, 1), (3, 1), (4, 3)]):
        out.append({'kind': 'tagparse', 'n': n, 'wide': p})
    for n in range(0, 4 if tier == 'quick' else 6):
        out.append({'kind': 'otherpair', 'n': n, 'ty': 'Tag'})
        out.append({'kind': 'otherpair', 'n': n, 'ty': 'Subsystem'})
        out.append({'kind': 'subevent_unknown', 'n': n})
    return out

def bounds(tier):
    return {'quick': 'each of the 31 tag variants and 14 subsystem variants against Other(s), s symbolic ASCII of the name\'s length (==, both orders; cmp both orders; '
                     'hash feed); every known tag name and every known subsystem name with symbolic letter case; Tag::try_from on all ASCII strings of length 0..4 and, for lengths 4..6, on all strings that '
                     'match some known name case-insensitively in all but one symbolic position; one 2-byte scalar inside strings of length 1,2; Other(s) vs Other(t) and unknown subsystem '
                     'names of length 0..3',
            'thorough': 'as quick with Tag::try_from on all ASCII strings of length 0..6, near-name strings of lengths 4..14, Other/unknown names of length 0..5'}[tier]

def tag_value(P, variant, other=None):
    if variant == 'Other':
        return Adt('Tag', 'Other', P.variant_index('Tag', 'Other'), [StrBuf(other, 'Box<str>')])
    return Adt('Tag', variant, P.variant_index('Tag', variant), [])

def sub_value(P, variant, other=None):
    if variant == 'Other':
        return Adt('Subsystem', 'Other', P.variant_index('Subsystem', 'Other'), [StrBuf(other, 'Box<str>')])
    return Adt('Subsystem', variant, P.variant_index('Subsystem', variant), [])

def ascii_sym(I, prefix, n):
    bs = [z3.BitVec('%s%d' % (prefix, i), 8) for i in range(n)]
    for b in bs:
        I.ctx.assume(z3.ULT(b, 0x80))
    return bs

def bytes_cmp(D, xs, ys):
    """reference ordering of two byte strings (forking)"""
    for x, y in zip(xs, ys):
        if D.decide(z3.ULT(bv(x, 8), bv(y, 8)) if (is_sym(x) or is_sym(y)) else x < y): return -1
        if D.decide(z3.UGT(bv(x, 8), bv(y, 8)) if (is_sym(x) or is_sym(y)) else x > y): return 1
    return -1 if len(xs) < len(ys) else (1 if len(xs) > len(ys) else 0)

def frame_with(key, value_items):
    fc = Adt('FieldsContainer', None, 0, [VecObj([some(Tup([StrBuf(key, 'Arc<str>'), StrBuf(value_items)]))])])
    return Adt('Frame', None, 0, [fc, none()], ['fields', 'binary'])

def text_of(v):
    """the text of whatever string type a name accessor returns (&str, String, Cow<str>: the signature is not part of the property)"""
    from models_core import as_items
    return list(as_items(v))

def run_instance(payload):
    P = engine.load_program()
    res = Result(str(payload))
    t0 = time.time()
    kind = payload['kind']
    def viol(what, inp):
        res.violations.append({'what': what, 'input': inp})
    ty = 'Tag' if kind.startswith('tag') or payload.get('ty') == 'Tag' else 'Subsystem'
    mk = tag_value if ty == 'Tag' else sub_value
    tpath = 'mpd_client::tag::Tag' if ty == 'Tag' else 'mpd_client::client::Subsystem'

    def pair_harness(I, a, b):
        eq1 = I.call_repo('<%s as PartialEq>::eq' % tpath, [ref_to(a), ref_to(b)])
        eq2 = I.call_repo('<%s as PartialEq>::eq' % tpath, [ref_to(b), ref_to(a)])
        h1 = RecHasher(); h2 = RecHasher()
        I.call_repo('<%s as Hash>::hash::<RecHasher>' % tpath, [ref_to(a), ref_to(h1)])
        I.call_repo('<%s as Hash>::hash::<RecHasher>' % tpath, [ref_to(b), ref_to(h2)])
        cm1 = cm2 = None
        if ty == 'Tag':
            cm1 = I.call_repo('<%s as Ord>::cmp' % tpath, [ref_to(a), ref_to(b)]).vidx
            cm2 = I.call_repo('<%s as PartialOrd>::partial_cmp' % tpath, [ref_to(b), ref_to(a)]).fields[0].vidx
        return eq1, eq2, h1.fed, h2.fed, cm1, cm2

    def judge_pair(pr, na, nb, inp_of):
        ctx = pr.ctx
        eq1, eq2, f1, f2, cm1, cm2 = pr.value
        same = seq_eq(na, nb)
        issame = ctx.decide(same)           # fork: the two names are equal / differ
        def bad(what):
            viol(what, inp_of(ctx.model()))
        for nm, e in (('a == b', eq1), ('b == a', eq2)):
            if not ctx.must(e if issame else b_not(e)):
                bad('%s is %s although the protocol names are %s' % (nm, 'false' if issame else 'true', 'equal' if issame else 'different'))
        # hash: what is fed to the hasher is a function of the protocol name only
        fed_eq = len(f1) == len(f2) and all(x[0] == y[0] and (ctx.must(seq_eq(x[1], y[1])) if x[0] in ('str', 'bytes') else ctx.must(int_eq(x[1], y[1]))) for x, y in zip(f1, f2))
        if issame and not fed_eq:
            bad('equal names hash differently (%r vs %r)' % (f1[:1], f2[:1]))
        if ty == 'Tag':
            want = bytes_cmp(ctx, na, nb)
            if cm1 != want or cm2 != -want:
                bad('cmp gives %s/%s, byte order of the names is %s' % (cm1, cm2, want))
        res.cls('%s pair %s' % (ty, 'equal' if issame else 'different'), nontrivial=True)

    if kind in ('tagpair', 'subpair'):
        name = list(payload['name'].encode())
        def harness(I):
            s = ascii_sym(I, 's', len(name))
            I._s = s
            return pair_harness(I, mk(P, payload['variant']), mk(P, 'Other', s))
        for pr in explore(P, harness):
            res.paths += 1
            if pr.kind == 'panic':
                viol('comparison panics: ' + pr.error.msg, None); continue
            s = pr.interp._s
            judge_pair(pr, name, s, lambda m: {'kind': 'pair', 'ty': ty, 'a': payload['variant'], 'b': 'other:' + hexs(model_bytes(m, s))})
            res.take_stats(pr.ctx.stats); pr.ctx.stats.__init__()
        res.samples.append({'pair': [payload['variant'], 'Other(<%d symbolic bytes>)' % len(name)]})
    elif kind == 'otherpair':
        n = payload['n']
        def harness(I):
            s = ascii_sym(I, 's', n); t = ascii_sym(I, 't', n)
            I._s = (s, t)
            return pair_harness(I, mk(P, 'Other', s), mk(P, 'Other', t))
        for pr in explore(P, harness):
            res.paths += 1
            if pr.kind == 'panic':
                viol('comparison panics: ' + pr.error.msg, None); continue
            s, t = pr.interp._s
            judge_pair(pr, s, t, lambda m: {'kind': 'pair', 'ty': ty, 'a': 'other:' + hexs(model_bytes(m, s)), 'b': 'other:' + hexs(model_bytes(m, t))})
            res.take_stats(pr.ctx.stats); pr.ctx.stats.__init__()
        res.samples.append({'pair': ['Other(<%d bytes>)' % n, 'Other(<%d bytes>)' % n]})
    elif kind == 'tagcase':
        name = list(payload['name'].encode())
        def harness(I):
            s = ascii_sym(I, 'r', len(name))
            for b, c in zip(s, name):
                I.ctx.assume(ascii_lower(b) == ascii_lower(c))
            I._s = s
            r = I.call_repo('<mpd_client::tag::Tag as TryFrom<&str>>::try_from', [SliceRef(s, 0, len(s), 'str')])
            back = None
            if r.variant == 'Ok':
                cow = I.call_repo('mpd_client::tag::Tag::as_str', [ref_to(r.fields[0])])
                back = text_of(cow)
            return r, back
        for pr in explore(P, harness):
            res.paths += 1
            s = pr.interp._s
            inp = lambda: {'kind': 'parse', 'raw': hexs(model_bytes(pr.ctx.model(), s))}
            if pr.kind == 'panic':
                viol('Tag::try_from panics: ' + pr.error.msg, inp()); continue
            r, back = pr.value
            if r.variant != 'Ok' or r.fields[0].variant != payload['variant'] or back != name:
                viol('%s in some letter case parses to %r (protocol name %r)' % (payload['name'], r, bytes(back) if back and all(isinstance(x, int) for x in back) else back), inp())
            res.cls('known name, any case', nontrivial=True)
            res.take_stats(pr.ctx.stats); pr.ctx.stats.__init__()
        res.samples.append({'try_from': payload['name'] + ' (every letter case)', 'expect': payload['variant']})
    elif kind in ('tagparse', 'tagparse_near'):
        n = payload['n']
        def harness(I):
            from models_core import new_wchar
            if kind == 'tagparse':
                s = [new_wchar(I, 'w', 2) if payload['wide'] == i else None for i in range(n)]
                a = ascii_sym(I, 'r', n)
                s = [w if w is not None else b for w, b in zip(s, a)]
            else:
                # all but one position agree (case-insensitively) with some known name of this length
                s = ascii_sym(I, 'r', n)
                cands = [nm for _, nm in TAGS if len(nm) == n]
                if not cands:
                    raise PathInfeasible()
                hole = I.ctx.choose(n, 'hole')
                which = I.ctx.choose(len(cands), 'name')
                for i, (b, c) in enumerate(zip(s, cands[which].encode())):
                    if i != hole:
                        I.ctx.assume(ascii_lower(b) == ascii_lower(c))
            I._s = s
            r = I.call_repo('<mpd_client::tag::Tag as TryFrom<&str>>::try_from', [SliceRef(s, 0, len(s), 'str')])
            back = None
            if r.variant == 'Ok':
                cow = I.call_repo('mpd_client::tag::Tag::as_str', [ref_to(r.fields[0])])
                back = text_of(cow)
            return r, back
        for pr in explore(P, harness):
            res.paths += 1
            ctx = pr.ctx
            s = pr.interp._s
            inp = lambda *c: {'kind': 'parse', 'raw': hexs(model_bytes(ctx.model(*c), s))}
            if pr.kind == 'panic':
                viol('Tag::try_from panics: ' + pr.error.msg, inp()); continue
            r, back = pr.value
            valid = [False if isinstance(x, WChar) else b_or(T.is_alpha(x), int_eq(x, ord('_')), int_eq(x, ord('-'))) for x in s]
            allvalid = b_and(*valid) if n else True
            if r.variant == 'Ok':
                # accepted => non-empty, every character can be carried in a field name
                c = b_or(n == 0, b_not(allvalid))
                if c is True or (c is not False and ctx.check(c)):
                    viol('Tag::try_from accepts the empty string or a character the protocol cannot carry in a field name', inp(*([c] if is_sym(c) else [])))
                t = r.fields[0]
                lower = [ascii_lower(x) for x in s]
                if t.variant == 'Other':
                    # the raw string is preserved verbatim and is not a known name in any letter case
                    if not ctx.must(seq_eq(back, s)):
                        viol('Other tag does not preserve the raw name', inp())
                    for v, nm in TAGS:
                        if len(nm) == n:
                            c = seq_eq(lower, [ascii_lower(x) for x in nm.encode()])
                            if c is True or (c is not False and ctx.check(c)):
                                viol('known name %s (some letter case) parses to the catch-all' % nm, inp(*([c] if is_sym(c) else [])))
                    res.cls('parse Other', nontrivial=True)
                else:
                    nm = dict(TAGS)[t.variant]
                    if back != list(nm.encode()):
                        viol('as_str of %s is %r' % (t.variant, back), inp())
                    if len(nm) != n or not ctx.must(seq_eq(lower, [ascii_lower(x) for x in nm.encode()])):
                        viol('a string that is not %s in any letter case parses to %s' % (nm, t.variant), inp())
                    res.cls('parse named', nontrivial=True)
            else:
                e = r.fields[0]
                if e.variant == 'Empty':
                    if n != 0:
                        viol('non-empty string rejected as empty', inp())
                    res.cls('parse Err(Empty)')
                else:
                    # InvalidCharacter{chr,pos}: pos is the first invalid character
                    pos = e.field('pos')
                    okc = b_and(b_not(valid[pos]) if pos < n else False, *[valid[i] for i in range(min(pos, n))])
                    if not ctx.must(okc):
                        viol('InvalidCharacter position %d is not the first invalid character' % pos, inp(z3.Not(okc) if is_sym(okc) else z3.BoolVal(True)))
                    res.cls('parse Err(InvalidCharacter)', nontrivial=True)
            if len(res.samples) < 2:
                res.samples.append({'try_from': model_bytes(ctx.model(), s).decode('latin1'), 'result': repr(r)[:60]})
            res.take_stats(ctx.stats); ctx.stats.__init__()
    elif kind in ('subevent', 'subevent_unknown', 'subevent_case'):
        def harness(I):
            if kind == 'subevent':
                s = list(payload['name'].encode())
            elif kind == 'subevent_case':
                # the documented name in any letter case: only the exact (lower-case) spelling is the named subsystem,
                # every other spelling is an unknown name that has to be preserved verbatim
                s = []
                for i, ch in enumerate(payload['name'].encode()):
                    b = I.ctx.fresh_bv('sc%d' % i, 8)
                    I.ctx.assume(z3.And(z3.ULT(b, 0x80), ascii_lower(b) == ascii_lower(ch)))
                    s.append(b)
            else:
                s = ascii_sym(I, 'u', payload['n'])
                for b in s:
                    I.ctx.assume(b != 10)
            I._s = s
            fr_ = frame_with(b'changed', s)
            byref = any(e.func.argtypes and e.func.argtypes[0].lstrip().startswith('&') for e in P.impl_methods.get((None, 'from_frame'), []) if 'client' in e.func.name and 'Subsystem' in str(e.self_pat))
            r = I.call_repo('mpd_client::client::Subsystem::from_frame', [ref_to(fr_) if byref else fr_])
            back = None
            if r.variant == 'Some':
                sr = I.call_repo('mpd_client::client::Subsystem::as_str', [ref_to(r.fields[0])])
                back = text_of(sr)
            return r, back
        for pr in explore(P, harness):
            res.paths += 1
            ctx = pr.ctx
            s = pr.interp._s
            inp = lambda *c: {'kind': 'event', 'name': hexs(model_bytes(ctx.model(*c), s))}
            if pr.kind == 'panic':
                viol('Subsystem::from_frame panics: ' + pr.error.msg, inp()); continue
            r, back = pr.value
            if r.variant != 'Some':
                viol('a changed: line yields no subsystem', inp()); continue
            v = r.fields[0]
            if not ctx.must(seq_eq(back, s)):
                viol('the subsystem\'s protocol name differs from the name the server sent (variant %s)' % v.variant, inp())
            if kind == 'subevent' and v.variant != payload['variant']:
                viol('%s maps to variant %s' % (payload['name'], v.variant), inp())
            if kind in ('subevent_unknown', 'subevent_case') and v.variant != 'Other':
                want = [list(nm.encode()) for vv, nm in SUBSYS if vv == v.variant]
                if not want or not ctx.must(seq_eq(s, want[0])):
                    viol('unknown name maps to named variant %s' % v.variant, inp())
            res.cls('event ' + ('named' if v.variant != 'Other' else 'Other'), nontrivial=True)
            res.take_stats(ctx.stats); ctx.stats.__init__()
        res.samples.append({'changed': payload.get('name', '<%s symbolic bytes>' % payload.get('n'))})
    res.wall_s = time.time() - t0
    return res.to_dict()

# ---------------------------------------------------------------------------- native replay
def replay(rec):
    inp = rec.get('input') or rec
    if inp is None:
        return False, 'no input'
    if inp['kind'] == 'pair':
        cmd = 'tag' if inp['ty'] == 'Tag' else 'subsys'
        out = run_replay([cmd, 'pair', inp['a'], inp['b']])
        if 'panic' in out:
            return True, 'native panic'
        nx = unhex(out['name_x'][0]); ny = unhex(out['name_y'][0])
        same = nx == ny
        bad = (out['eq_xy'][0] == 'true') != same or (out['eq_yx'][0] == 'true') != same or (same and out['hash_eq'][0] != 'true')
        if cmd == 'tag':
            want = 'Less' if nx < ny else ('Greater' if nx > ny else 'Equal')
            inv = {'Less': 'Greater', 'Greater': 'Less', 'Equal': 'Equal'}[want]
            bad = bad or out['cmp_xy'][0] != want or out['cmp_yx'][0] != inv
            # PartialOrd agrees with Ord (the operators <, <=, ... and sort() go through it)
            bad = bad or out.get('pcmp_xy', ['Some(%s)' % want])[0] != 'Some(%s)' % want or out.get('pcmp_yx', ['Some(%s)' % inv])[0] != 'Some(%s)' % inv
            bad = bad or out.get('lt_xy', [str(want == 'Less').lower()])[0] != str(want == 'Less').lower()
        return bad, 'native: %s' % {k: v for k, v in out.items() if not k.startswith('_')}
    if inp['kind'] == 'parse':
        raw = unhex(inp['raw'])
        out = run_replay(['tag', 'parse', hexs(raw)])
        if 'panic' in out:
            return True, 'native panic'
        txt = raw.decode('utf-8')
        valid = len(txt) > 0 and all((c.isascii() and c.isalpha()) or c in '_-' for c in txt)
        known = {nm.lower(): v for v, nm in TAGS}
        if 'ok' in out:
            got = out['ok'][0]
            want = known.get(txt.lower(), 'other:' + hexs(raw))
            name = unhex(out['name'][0])
            wname = dict(TAGS)[want].encode() if not want.startswith('other:') else raw
            return (not valid or got != want or name != wname), 'native: ok=%s name=%r' % (got, name)
        err = out['err'][0]
        if valid:
            return True, 'native rejects a valid name: ' + err
        if not txt:
            return err != 'Empty', 'native: ' + err
        first = next(i for i, c in enumerate(txt) if not ((c.isascii() and c.isalpha()) or c in '_-'))
        bpos = len(txt[:first].encode())
        return ('pos: %d' % bpos) not in err, 'native: ' + err
    if inp['kind'] == 'event':
        name = unhex(inp['name'])
        out = run_replay(['subsys', 'event', hexs(name)])
        if 'panic' in out:
            return True, 'native panic'
        if 'event' not in out:
            return True, 'native: no subsystem event'
        want = dict((nm, v) for v, nm in SUBSYS).get(name.decode('latin1'), 'other:' + hexs(name))
        return (out['event'][0] != want or unhex(out['name'][0]) != name), 'native: event=%s name=%r' % (out['event'][0], unhex(out['name'][0]))
    return False, 'unknown record'

DESCR = {}
REQUIRED_CLASSES = ['Tag pair equal', 'Tag pair different', 'Subsystem pair equal', 'Subsystem pair different', 'known name, any case',
                    'parse Other', 'parse named', 'parse Err(Empty)', 'parse Err(InvalidCharacter)', 'event named', 'event Other']
EXPLANATION = ('Bounded symbolic execution of the real MIR of Tag/Subsystem comparison, ordering, hashing (through a recording Hasher: equal feeds => '
               'equal hashes for every hasher), Tag::try_from and Subsystem::from_frame/as_str against the protocol name tables; every branch and the '
               'final assertions are decided by z3; counterexamples are replayed natively (subsystem events through the real client)')
ASSUMPTIONS = ['strings are ASCII with symbolic bytes plus at most one 2-byte scalar; names longer than the bounds only in the per-name instances',
               'hash consistency is checked on the sequence fed to the Hasher (str::hash feeds the bytes and a 0xff terminator in std; the model records the string), '
               'which implies equal hashes for every Hasher',
               'oracle tables: MPD tag names / idle subsystem names written from the protocol reference, MusicBrainz names per the documented Picard mapping',
               'library models: str::eq_ignore_ascii_case/is_empty/char_indices/to_string, Cow eq/cmp/hash, Box<str> conversions, Option::map, Frame::get through Vec/IterMut/find_map']
RULE = ('one evaluation = one feasible path of one instance; instances: variant x Other(symbolic), known name x letter cases, all strings of a length, near-name strings, '
        'event names; non-trivial = everything except the empty-string rejection')
