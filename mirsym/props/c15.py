"""C15 - predefined commands render to the documented MPD request for all parameters.

Real code executed (MIR): every constructor / builder path of the predefined commands and their `command()`:
SongRange::{new, new_usize}, <SongRange / PositionOrRelative / SongId / SongPosition / Tag / Filter as Argument>::render,
the integer / bool / Duration / str Argument impls, Command::{new, argument, add_argument}, escape_argument.
Oracle: the MPD tokenizer (C06's port) on the rendered line + the expectation table below, written from the MPD protocol
reference (command reference): command name, argument count and position, numbers numerically, ranges as position sets.
"""
import time
from decimal import Decimal
import z3
from values import *
import engine
from engine import explore, model_bytes
from props.common import guarded, Undecided, Result, run_replay, hexs, unhex
from props.c20 import tag_value
from oracles import mpd_tokenizer as T
from models_core import explode

PROP = 'C15'
CMD = 'mpd_client::commands::definitions::'
MAXU = (1 << 64) - 1
DURS = [(0, 999_500_000), (2, 345_670_000), (0, 0), (1, 499_999), (5, 999_499_999), (3, 1_500_000), (4294967296, 250_000_000)]
DURS_THOROUGH = [(sec, n) for sec in (0, 1, 59, 3599, 86400, 4294967295, 4294967296)
                 for n in (0, 1, 499_999, 500_000, 500_001, 999_999, 1_000_000, 1_499_999, 1_500_000, 2_500_000, 123_456_789, 999_499_999, 999_500_000, 999_999_999)]
STRS = [b'x', b'a b']
TAGMENU = [('Artist', b'Artist'), ('MusicBrainzRecordingId', b'MUSICBRAINZ_TRACKID'), ('Other', b'foo')]

# ---------------------------------------------------------------------------- parameter generators: (mir value, rust literal fn(model), expectation)
class Params:
    def __init__(self, I, P):
        self.I = I; self.P = P; self.n = 0; self.rust = []        # rust: list of fn(model) -> literal text
        self.symstr = False
    def fresh(self, bits):
        self.n += 1
        return self.I.ctx.fresh_bv('p%d' % self.n, bits)
    def uint(self, bits):
        v = self.fresh(bits)
        self.rust.append(lambda m, v=v: str(m.eval(v, model_completion=True).as_long()))
        return v
    def string(self):
        # the first string parameter of a command may also be a symbolic text of three bytes from {blank, tab, a-z}: leading and
        # trailing blanks included (the quoting of other bytes is the subject of C06 and its recorded findings)
        k = self.I.ctx.choose(len(STRS) + (0 if self.symstr else 1), 'str')
        if k == len(STRS):
            self.symstr = True
            items = []
            for i in range(3):
                b = self.fresh(8)
                self.I.ctx.assume(z3.Or(b == 32, b == 9, z3.And(z3.UGE(b, 97), z3.ULE(b, 122))))
                items.append(b)
            self.rust.append(lambda m, items=items: hexs(model_bytes(m, items)))
            return SliceRef(items, 0, 3, 'str'), ('text', items)
        s = STRS[k]
        self.rust.append(lambda m, s=s: hexs(s))
        return str_ref(s), s
    def boolean(self):
        b = self.I.ctx.choose(2, 'bool') == 1
        self.rust.append(lambda m, b=b: '1' if b else '0')
        return b
    def bound(self, newtype='SongPosition'):
        k = self.I.ctx.choose(3, 'bound')
        if k == 2:
            self.rust.append(lambda m: 'u')
            return Adt('Bound', 'Unbounded', 2, []), ('u', None)
        v = self.fresh(64)
        inner = Adt(newtype, None, 0, [v]) if newtype else v
        self.rust.append(lambda m, v=v, k=k: ('i:' if k == 0 else 'e:') + str(m.eval(v, model_completion=True).as_long()))
        return Adt('Bound', 'Included' if k == 0 else 'Excluded', k, [inner]), ('i' if k == 0 else 'e', v)
    def rng(self, newtype='SongPosition'):
        a, ea = self.bound(newtype); b, eb = self.bound(newtype)
        return Tup([a, b]), ('range', ea, eb)
    def dur(self):
        menu = DURS_THOROUGH if TIER[0] == 'thorough' else DURS
        s, n = menu[self.I.ctx.choose(len(menu), 'dur')]
        self.rust.append(lambda m: '%d,%d' % (s, n))
        return Adt('Duration', None, 0, [s, n], ['secs', 'nanos']), (s, n)
    def tag(self):
        v, nm = TAGMENU[self.I.ctx.choose(len(TAGMENU), 'tag')]
        self.rust.append(lambda m: v if v != 'Other' else 'other:' + hexs(nm))
        return tag_value(self.P, v, list(nm) if v == 'Other' else None), nm
    def choice(self, names):
        k = self.I.ctx.choose(len(names), 'variant')
        self.rust.append(lambda m: names[k])
        return k
    def song(self):
        k = self.I.ctx.choose(2, 'song')
        v = self.fresh(64)
        self.rust.append(lambda m: ('id:' if k == 0 else 'pos:') + str(m.eval(v, model_completion=True).as_long()))
        if k == 0:
            return Adt('commands::Song', 'Id', 0, [Adt('SongId', None, 0, [v])]), ('id', v)
        return Adt('commands::Song', 'Position', 1, [Adt('SongPosition', None, 0, [v])]), ('pos', v)

def call(I, path, args):
    return I.call_repo(CMD + path, args)

RB = '(Bound<SongPosition>, Bound<SongPosition>)'
RBU = '(Bound<usize>, Bound<usize>)'
def enum(name, variant, idx):
    return Adt(name, variant, idx, [])
def filt(I, P):
    return I.call_repo('mpd_client::filter::Filter::tag::<&str>', [tag_value(P, 'Artist'), str_ref(b'x')])
FILTER_ARG = b'(Artist == "x")'
def filt2(I, P):
    """another filter: builder setters called twice keep the value given last (documented: the filter is replaced)"""
    return I.call_repo('mpd_client::filter::Filter::tag::<&str>', [tag_value(P, 'Album'), str_ref(b'y')])

# table: name -> (command type text, builder(I, P, p) -> (command value, expected tokens))
# expected tokens: bytes | ('num', term) | ('rel', sign, term) | ('range', sb, eb) | ('secs3', (s, n), prefix)
def t_simple(ty, name):
    return (ty, lambda I, P, p: (Adt(ty, None, 0, []), [name]))
def t_str1(ty, name):
    def b(I, P, p):
        s, e = p.string()
        return Adt(ty, None, 0, [s]), [name, e]
    return (ty + "<'_>", b)
def t_bool1(ty, name):
    def b(I, P, p):
        v = p.boolean()
        return Adt(ty, None, 0, [v]), [name, b'1' if v else b'0']
    return (ty, b)

def b_queue_song(I, P, p):
    s, e = p.song()
    c = call(I, 'Queue::song::<mpd_client::commands::Song>', [s])
    return c, [b'playlistid' if e[0] == 'id' else b'playlistinfo', ('num', e[1])]
def b_queue_range(I, P, p):
    r, e = p.rng()
    return call(I, 'Queue::range::<%s>' % RB, [r]), [b'playlistinfo', e]
def b_queuerange_range(I, P, p):
    r, e = p.rng()
    return call(I, 'QueueRange::range::<%s>' % RB, [r]), [b'playlistinfo', e]
def b_setvolume(I, P, p):
    v = p.uint(8)
    return Adt('SetVolume', None, 0, [v]), [b'setvol', ('num', z3.If(z3.ULT(v, 100), v, z3.BitVecVal(100, 8)))]
def b_setsingle(I, P, p):
    k = p.choice(['Enabled', 'Disabled', 'Oneshot'])
    return Adt('SetSingle', None, 0, [enum('SingleMode', ['Enabled', 'Disabled', 'Oneshot'][k], k)]), [b'single', [b'1', b'0', b'oneshot'][k]]
def b_setrg(I, P, p):
    k = p.choice(['Off', 'Track', 'Album', 'Auto'])
    return Adt('SetReplayGainMode', None, 0, [enum('ReplayGainMode', ['Off', 'Track', 'Album', 'Auto'][k], k)]), [b'replay_gain_mode', [b'off', b'track', b'album', b'auto'][k]]
def b_crossfade(I, P, p):
    d, (s, n) = p.dur()
    return Adt('Crossfade', None, 0, [d]), [b'crossfade', ('num', s)]
def b_seekto(I, P, p):
    s, e = p.song()
    d, dn = p.dur()
    return Adt('SeekTo', None, 0, [s, d]), [b'seekid' if e[0] == 'id' else b'seek', ('num', e[1]), ('secs3', dn, b'')]
def b_seek(I, P, p):
    k = p.choice(['Forward', 'Backward', 'Absolute'])
    d, dn = p.dur()
    return Adt('Seek', None, 0, [Adt('SeekMode', ['Forward', 'Backward', 'Absolute'][k], k, [d])]), [b'seekcur', ('secs3', dn, [b'+', b'-', b''][k])]
def b_shuffle_all(I, P, p):
    return call(I, 'Shuffle::all', []), [b'shuffle']
def b_shuffle_range(I, P, p):
    r, e = p.rng()
    return call(I, 'Shuffle::range::<%s>' % RB, [r]), [b'shuffle', e]
def b_play_current(I, P, p):
    return call(I, 'Play::current', []), [b'play']
def b_play_song(I, P, p):
    s, e = p.song()
    return call(I, 'Play::song::<mpd_client::commands::Song>', [s]), [b'playid' if e[0] == 'id' else b'play', ('num', e[1])]
def b_add(I, P, p):
    s, e = p.string()
    c = call(I, "Add::<'_>::uri", [s])
    k = p.choice(['none', 'at', 'before', 'after'])
    exp = [b'addid', e]
    if k == 1:
        v = p.uint(64)
        c = call(I, "Add::<'_>::at::<mpd_client::commands::SongPosition>", [c, Adt('SongPosition', None, 0, [v])]); exp.append(('num', v))
    elif k == 2:
        v = p.uint(64)
        c = call(I, "Add::<'_>::before_current", [c, v]); exp.append(('rel', b'-', v))
    elif k == 3:
        v = p.uint(64)
        c = call(I, "Add::<'_>::after_current", [c, v]); exp.append(('rel', b'+', v))
    return c, exp
def b_delete(I, P, p):
    k = p.choice(['id', 'position', 'range'])
    if k == 0:
        v = p.uint(64)
        return call(I, 'Delete::id', [Adt('SongId', None, 0, [v])]), [b'deleteid', ('num', v)]
    if k == 1:
        v = p.uint(64)
        # a single position is the range [pos, pos+1)
        return call(I, 'Delete::position', [Adt('SongPosition', None, 0, [v])]), [b'delete', ('range', ('i', v), ('i', v))]
    r, e = p.rng()
    return call(I, 'Delete::range::<%s>' % RB, [r]), [b'delete', e]
def b_move(I, P, p):
    k = p.choice(['id', 'position', 'range'])
    if k == 0:
        v = p.uint(64)
        mb = call(I, 'Move::id', [Adt('SongId', None, 0, [v])]); exp = [b'moveid', ('num', v)]
    elif k == 1:
        v = p.uint(64)
        mb = call(I, 'Move::position', [Adt('SongPosition', None, 0, [v])]); exp = [b'move', ('range', ('i', v), ('i', v))]
    else:
        a, ea = p.bound(); b, eb = p.bound()
        if eb[0] == 'u':
            raise PathInfeasible()            # documented panic: move ranges must not have an open end
        mb = call(I, 'Move::range::<%s>' % RB, [Tup([a, b])]); exp = [b'move', ('range', ea, eb)]
    j = p.choice(['to', 'after', 'before'])
    w = p.uint(64)
    if j == 0:
        return call(I, 'MoveBuilder::to_position', [mb, Adt('SongPosition', None, 0, [w])]), exp + [('num', w)]
    if j == 1:
        return call(I, 'MoveBuilder::after_current', [mb, w]), exp + [('rel', b'+', w)]
    return call(I, 'MoveBuilder::before_current', [mb, w]), exp + [('rel', b'-', w)]
def b_find(I, P, p):
    c = call(I, 'Find::new', [filt(I, P)])
    exp = [b'find', FILTER_ARG]
    if p.boolean():
        if p.boolean():
            c = call(I, 'Find::sort', [c, tag_value(P, 'Album')])
        t, nm = p.tag()
        c = call(I, 'Find::sort', [c, t]); exp += [b'sort', nm]
    if p.boolean():
        r, e = p.rng(newtype=None)
        c = call(I, 'Find::window::<%s>' % RBU, [c, r]); exp += [b'window', e]
    return c, exp
def b_list(I, P, p):
    t, nm = p.tag()
    c = call(I, 'List::<0>::new', [t]); exp = [b'list', nm]
    flt = p.boolean()
    if flt:
        if p.boolean():
            c = call(I, 'List::<0>::filter', [c, filt2(I, P)])
        c = call(I, 'List::<0>::filter', [c, filt(I, P)]); exp.append(FILTER_ARG)
    if p.boolean():
        g, gn = p.tag()
        c = call(I, 'List::<0>::group_by::<1>', [c, Array([g])]); exp += [b'group', gn]
        return ('List<1>', c), exp
    return ('List<0>', c), exp
def b_count(I, P, p):
    return call(I, 'Count::new', [filt(I, P)]), [b'count', FILTER_ARG]
def b_countgrouped(I, P, p):
    t, nm = p.tag()
    if p.boolean():        # the other way to get a grouped count: from a filtered count
        c = call(I, 'Count::group_by', [call(I, 'Count::new', [filt(I, P)]), t])
        return c, [b'count', FILTER_ARG, b'group', nm]
    c = call(I, 'CountGrouped::new', [t]); exp = [b'count']
    if p.boolean():
        if p.boolean():
            c = call(I, 'CountGrouped::filter', [c, filt2(I, P)])
        c = call(I, 'CountGrouped::filter', [c, filt(I, P)]); exp.append(FILTER_ARG)
    return c, exp + [b'group', nm]
def b_rename(I, P, p):
    a, ea = p.string(); b, eb = p.string()
    return call(I, "RenamePlaylist::<'_>::new", [a, b]), [b'rename', ea, eb]
def b_load(I, P, p):
    a, ea = p.string()
    c = call(I, "LoadPlaylist::<'_>::name", [a]); exp = [b'load', ea]
    if p.boolean():
        r, e = p.rng(newtype=None)
        c = call(I, "LoadPlaylist::<'_>::range::<%s>" % RBU, [c, r]); exp.append(e)
    return c, exp
def b_addtopl(I, P, p):
    a, ea = p.string(); b, eb = p.string()
    c = call(I, "AddToPlaylist::<'_>::new", [a, b]); exp = [b'playlistadd', ea, eb]
    if p.boolean():
        v = p.uint(64)
        c = call(I, "AddToPlaylist::<'_>::at::<mpd_client::commands::SongPosition>", [c, Adt('SongPosition', None, 0, [v])]); exp.append(('num', v))
    return c, exp
def b_rmfrompl(I, P, p):
    a, ea = p.string()
    if p.boolean():
        v = p.uint(64)
        return call(I, "RemoveFromPlaylist::<'_>::position", [a, v]), [b'playlistdelete', ea, ('num', v)]
    r, e = p.rng()
    return call(I, "RemoveFromPlaylist::<'_>::range::<%s>" % RB, [a, r]), [b'playlistdelete', ea, e]
def b_moveinpl(I, P, p):
    a, ea = p.string(); f = p.uint(64); t = p.uint(64)
    return call(I, "MoveInPlaylist::<'_>::new", [a, f, t]), [b'playlistmove', ea, ('num', f), ('num', t)]
def b_listallin(I, P, p):
    if p.boolean():
        return call(I, 'ListAllIn::root', []), [b'listallinfo']
    a, ea = p.string()
    return call(I, "ListAllIn::<'_>::directory", [a]), [b'listallinfo', ea]
def b_binlimit(I, P, p):
    v = p.uint(64)
    return Adt('SetBinaryLimit', None, 0, [v]), [b'binarylimit', ('num', v)]
def b_art(name, cmd):
    def b(I, P, p):
        a, ea = p.string()
        c = call(I, "%s::<'_>::new" % name, [a]); off = 0
        if p.boolean():
            off = p.uint(64)
            c = call(I, "%s::<'_>::offset" % name, [c, off])
        return c, [cmd, ea, ('num', off)]
    return b
def b_tagtypes(I, P, p):
    k = p.choice(['enable_all', 'disable_all', 'disable', 'enable'])
    if k == 0:
        return call(I, 'TagTypes::enable_all', []), [b'tagtypes', b'all']
    if k == 1:
        return call(I, 'TagTypes::disable_all', []), [b'tagtypes', b'clear']
    t1, n1 = p.tag(); t2, n2 = p.tag()
    arr = Array([t1, t2])
    sl = SliceRef(arr.items, 0, 2, 'slice')
    return call(I, "TagTypes::<'_>::%s" % ('disable' if k == 2 else 'enable'), [sl]), [b'tagtypes', b'disable' if k == 2 else b'enable', n1, n2]
def b_sticker(kind):
    def b(I, P, p):
        u, eu = p.string()
        if kind == 'list':
            return call(I, "StickerList::<'_>::new", [u]), [b'sticker', b'list', b'song', eu]
        n, en = p.string()
        if kind == 'get':
            return call(I, "StickerGet::<'_>::new", [u, n]), [b'sticker', b'get', b'song', eu, en]
        if kind == 'delete':
            return call(I, "StickerDelete::<'_>::new", [u, n]), [b'sticker', b'delete', b'song', eu, en]
        if kind == 'set':
            v, ev = p.string()
            return call(I, "StickerSet::<'_>::new", [u, n, v]), [b'sticker', b'set', b'song', eu, en, ev]
        c = call(I, "StickerFind::<'_>::new", [u, n]); exp = [b'sticker', b'find', b'song', eu, en]
        k = p.choice(['none', 'eq', 'gt', 'lt'])
        if k:
            v, ev = p.string()
            c = call(I, "StickerFind::<'_>::where_%s" % ['', 'eq', 'gt', 'lt'][k], [c, v]); exp += [[b'', b'=', b'>', b'<'][k], ev]
        return c, exp
    return b
def b_update(name, cmd):
    def b(I, P, p):
        c = call(I, "%s::<'_>::new" % name, [])
        if p.boolean():
            u, eu = p.string()
            return call(I, "%s::<'_>::uri" % name, [c, u]), [cmd, eu]
        return c, [cmd]
    return b
def b_sendmsg(I, P, p):
    a, ea = p.string(); b, eb = p.string()
    return call(I, "SendChannelMessage::<'_>::new", [a, b]), [b'sendmessage', ea, eb]

TABLE = {
    'ClearQueue': t_simple('ClearQueue', b'clear'), 'Next': t_simple('Next', b'next'), 'Ping': t_simple('Ping', b'ping'), 'Previous': t_simple('Previous', b'previous'),
    'Stop': t_simple('Stop', b'stop'), 'ReplayGainStatus': t_simple('ReplayGainStatus', b'replay_gain_status'), 'Status': t_simple('Status', b'status'),
    'Stats': t_simple('Stats', b'stats'), 'Queue': t_simple('Queue', b'playlistinfo'), 'CurrentSong': t_simple('CurrentSong', b'currentsong'),
    'GetPlaylists': t_simple('GetPlaylists', b'listplaylists'), 'GetEnabledTagTypes': t_simple('GetEnabledTagTypes', b'tagtypes'),
    'ReadChannelMessages': t_simple('ReadChannelMessages', b'readmessages'), 'ListChannels': t_simple('ListChannels', b'channels'),
    'ClearPlaylist': t_str1('ClearPlaylist', b'playlistclear'), 'DeletePlaylist': t_str1('DeletePlaylist', b'rm'), 'SaveQueueAsPlaylist': t_str1('SaveQueueAsPlaylist', b'save'),
    'SubscribeToChannel': t_str1('SubscribeToChannel', b'subscribe'), 'UnsubscribeFromChannel': t_str1('UnsubscribeFromChannel', b'unsubscribe'),
    'GetPlaylist': t_str1('GetPlaylist', b'listplaylistinfo'),
    'SetConsume': t_bool1('SetConsume', b'consume'), 'SetPause': t_bool1('SetPause', b'pause'), 'SetRandom': t_bool1('SetRandom', b'random'), 'SetRepeat': t_bool1('SetRepeat', b'repeat'),
    'Queue::song': ('QueueRange', b_queue_song), 'Queue::range': ('QueueRange', b_queue_range), 'QueueRange::range': ('QueueRange', b_queuerange_range),
    'SetVolume': ('SetVolume', b_setvolume), 'SetSingle': ('SetSingle', b_setsingle), 'SetReplayGainMode': ('SetReplayGainMode', b_setrg), 'Crossfade': ('Crossfade', b_crossfade),
    'SeekTo': ('SeekTo', b_seekto), 'Seek': ('Seek', b_seek), 'Shuffle::all': ('Shuffle', b_shuffle_all), 'Shuffle::range': ('Shuffle', b_shuffle_range),
    'Play::current': ('Play', b_play_current), 'Play::song': ('Play', b_play_song), 'Add': ("Add<'_>", b_add), 'Delete': ('Delete', b_delete), 'Move': ('Move', b_move),
    'Find': ('Find', b_find), 'List': (None, b_list), 'Count': ('Count', b_count), 'CountGrouped': ('CountGrouped', b_countgrouped), 'RenamePlaylist': ("RenamePlaylist<'_>", b_rename),
    'LoadPlaylist': ("LoadPlaylist<'_>", b_load), 'AddToPlaylist': ("AddToPlaylist<'_>", b_addtopl), 'RemoveFromPlaylist': ("RemoveFromPlaylist<'_>", b_rmfrompl),
    'MoveInPlaylist': ("MoveInPlaylist<'_>", b_moveinpl), 'ListAllIn': ("ListAllIn<'_>", b_listallin), 'SetBinaryLimit': ('SetBinaryLimit', b_binlimit),
    'AlbumArt': ("AlbumArt<'_>", b_art('AlbumArt', b'albumart')), 'AlbumArtEmbedded': ("AlbumArtEmbedded<'_>", b_art('AlbumArtEmbedded', b'readpicture')),
    'TagTypes': ("TagTypes<'_>", b_tagtypes), 'StickerGet': ("StickerGet<'_>", b_sticker('get')), 'StickerSet': ("StickerSet<'_>", b_sticker('set')),
    'StickerDelete': ("StickerDelete<'_>", b_sticker('delete')), 'StickerList': ("StickerList<'_>", b_sticker('list')), 'StickerFind': ("StickerFind<'_>", b_sticker('find')),
    'Update': ("Update<'_>", b_update('Update', b'update')), 'Rescan': ("Rescan<'_>", b_update('Rescan', b'rescan')), 'SendChannelMessage': ("SendChannelMessage<'_>", b_sendmsg),
}

TIER = ['quick']
def instances(tier, seed):
    return [{'cmd': k, 'tier': tier} for k in TABLE]

def bounds(tier):
    return ('every predefined command and every constructor / builder path listed in props/c15.py (62 entries); integer parameters are full-width symbolic values (one solver term each, rendered as one decimal token), '
            'ranges are pairs of symbolic Bound values (Included / Excluded / Unbounded x Included / Excluded / Unbounded with 64-bit symbolic positions), durations come from a menu of %s,' % (
            '7 values including 0.9995 s, 5.999499999 s and 2^32 + 0.25 s' if tier == 'quick' else '98 values: seconds in {0, 1, 59, 3599, 86400, 2^32-1, 2^32} x 14 nanosecond values around the rounding points (0, 1, 499999, 500000, 500001, ..., 999499999, 999500000, 999999999)') +
            ' strings from {"x", "a b"}, tags from {Artist, MUSICBRAINZ_TRACKID, Other("foo")}, every enum variant and optional builder step as a symbolic choice')

# ---------------------------------------------------------------------------- judging the rendered line
def digits_placeholder(I, wire):
    """replace every DecRun element by one fresh digit byte (digits are never special to the tokenizer); returns (bytes, map id -> DecRun)"""
    out = []
    back = {}
    for x in wire:
        if isinstance(x, DecRun):
            b = I.ctx.fresh_bv('digit', 8)
            I.ctx.assume(z3.And(z3.UGE(b, 48), z3.ULE(b, 57)))
            back[b.get_id()] = x
            out.append(b)
        else:
            out.append(x)
    return out, back

def tok_value(tok, back):
    """a token as a list of parts: bytes (concrete ints) and DecRun objects"""
    parts = []
    for b in tok:
        if is_sym(b) and b.get_id() in back:
            parts.append(back[b.get_id()])
        else:
            parts.append(b)
    return parts

def num_term(parts, ctx=None):
    """value of a token that is one number: a DecRun, concrete digits, or up to three bytes that are digits on every model
    of the path (a hand-written fast path such as `b'0' + v`); None if the token is not a number"""
    if len(parts) == 1 and isinstance(parts[0], DecRun):
        return parts[0].val
    if parts and all(isinstance(b, int) and 48 <= b <= 57 for b in parts):
        return int(bytes(parts))
    if ctx is not None and 0 < len(parts) <= 3 and all(isinstance(b, int) or (is_sym(b) and z3.is_bv(b) and b.size() == 8) for b in parts):
        v = z3.BitVecVal(0, 72)
        for b in parts:
            B = bv(b, 8)
            if not ctx.must(z3.And(z3.UGE(B, 48), z3.ULE(B, 57))):
                return None
            v = v * 10 + z3.ZeroExt(64, B - 48)
        if len(parts) > 1 and not ctx.must(bv(parts[0], 8) != 48):
            return None          # leading zero
        return z3.simplify(v)
    return None

def split_parts(parts, ch):
    for i, b in enumerate(parts):
        if isinstance(b, int) and b == ch:
            return parts[:i], parts[i+1:]
    return None

def in_rust_range(p, sb, eb):
    """membership of position p (z3 64-bit) in the Rust range with bounds sb, eb = ('i'|'e'|'u', term)"""
    c = []
    if sb[0] == 'i': c.append(z3.UGE(p, bv(sb[1], 64)))
    elif sb[0] == 'e': c.append(z3.UGT(p, bv(sb[1], 64)))
    if eb[0] == 'i': c.append(z3.ULE(p, bv(eb[1], 64)))
    elif eb[0] == 'e': c.append(z3.ULT(p, bv(eb[1], 64)))
    return z3.And(*c) if c else z3.BoolVal(True)

def check_token(ctx, exp, parts):
    """None or description"""
    if isinstance(exp, (bytes, bytearray)):
        if any(not isinstance(b, int) for b in parts) or bytes(parts) != bytes(exp):
            return 'argument %r instead of %r' % (parts, bytes(exp))
        return None
    kind = exp[0]
    if kind == 'text':
        c = seq_eq(list(parts), list(exp[1]))
        return None if ctx.must(c) else ('argument bytes differs from the parameter text', c)
    if kind == 'num':
        t = num_term(parts, ctx)
        if t is None:
            sb = [bv(b, 8) for b in parts if is_sym(b) and z3.is_bv(b) and b.size() == 8]
            return ('not a number: %r' % (parts,), z3.Or(*[z3.Or(z3.ULT(B, 48), z3.UGT(B, 57)) for B in sb]) if sb else z3.BoolVal(True))
        w = exp[1]
        c = int_eq(bv(t, 72), bv(w, 72))
        return None if ctx.must(c) else ('number differs from the parameter', c)
    if kind == 'rel':
        if not parts or parts[0] != exp[1][0]:
            return 'relative position without %r sign: %r' % (exp[1], parts)
        t = num_term(parts[1:], ctx)
        if t is None:
            return 'not a number after the sign'
        c = int_eq(bv(t, 72), bv(exp[2], 72))
        return None if ctx.must(c) else ('relative offset differs from the parameter', c)
    if kind == 'range':
        sp = split_parts(parts, ord(':'))
        if sp is None:
            return 'range without colon: %r' % (parts,)
        f = num_term(sp[0], ctx)
        t = num_term(sp[1], ctx) if sp[1] else None
        if f is None or (sp[1] and t is None):
            return 'range bounds are not numbers: %r' % (parts,)
        sb, eb = exp[1], exp[2]
        p = z3.BitVec('probe_position', 64)
        wire_in = z3.UGE(p, bv(f, 64)) if t is None else z3.And(z3.UGE(p, bv(f, 64)), z3.ULT(p, bv(t, 64)))
        # saturation at the integer maximum is documented: skip the equality when a bound sits at usize::MAX
        sat = z3.Or(*([bv(sb[1], 64) == MAXU] if sb[0] != 'u' else []) + ([bv(eb[1], 64) == MAXU] if eb[0] != 'u' else []) + [z3.BoolVal(False)])
        differs = z3.And(z3.Not(sat), wire_in != in_rust_range(p, sb, eb))
        # wire numbers must fit the positions (no wrap-around): a DecRun term wider than 64 bits cannot occur
        if ctx.check(differs):
            return ('the range on the wire does not denote the positions of the Rust range', differs)
        return None
    if kind == 'secs3':
        (s, n), prefix = exp[1], exp[2]
        if any(not isinstance(b, int) for b in parts):
            return 'duration is not concrete text'
        txt = bytes(parts)
        if not txt.startswith(prefix):
            return 'duration %r lacks the prefix %r' % (txt, prefix)
        body = txt[len(prefix):].decode()
        try:
            d = Decimal(body)
        except Exception:
            return 'duration %r is not a decimal number' % txt
        exact = Decimal(s) + Decimal(n) / Decimal(10 ** 9)
        import math
        tol = Decimal('0.0005') + Decimal(math.ulp(float(exact)))          # the value goes through f64 seconds (as_secs_f64)
        if '.' not in body or len(body.split('.')[1]) != 3 or abs(d - exact) > tol:
            return 'duration %r is not %s seconds rounded to milliseconds' % (txt, exact)
        return None
    return 'unknown expectation'

def run_instance(payload):
    P = engine.load_program()
    res = Result(str(payload))
    t0 = time.time()
    name = payload['cmd']
    TIER[0] = payload.get('tier', 'quick')
    ty, builder = TABLE[name]
    def harness(I):
        p = Params(I, P)
        I._p = p
        c, exp = builder(I, P, p)
        cty = ty
        if isinstance(c, tuple):
            cty, c = c
        raw = I.call_repo('<%s%s as mpd_client::commands::Command>::command' % (CMD, cty), [ref_to(c)])
        wire = list(raw.fields[0].b)
        I._p = p
        return exp, wire
    for pr in explore(P, guarded(harness)):
        res.paths += 1
        ctx = pr.ctx
        I = pr.interp
        def rec(*extra):
            m = ctx.model(*extra)
            return {'cmd': name, 'params': [f(m) for f in I._p.rust]}
        if isinstance(pr.value, Undecided):
            res.undecided_path(pr, replay, rec); continue
        if pr.kind == 'panic':
            res.violations.append({'what': 'building the command panics: ' + pr.error.msg[:100], 'input': rec()}); continue
        exp, wire = pr.value
        wire = explode(I, wire) if any(isinstance(x, WChar) for x in wire) else wire
        wb, back = digits_placeholder(I, wire)
        bad = None
        cond = None
        try:
            toks = T.tokenize_line(ctx, wb)
        except T.TokError as e:
            toks = None
            bad = 'tokenizer error: %s' % e
        if toks is not None:
            if len(toks) != len(exp):
                bad = 'request has %d words, the documented form has %d' % (len(toks), len(exp))
            else:
                for k, (e, t) in enumerate(zip(exp, toks)):
                    r = check_token(ctx, e, tok_value(t, back))
                    if r:
                        if isinstance(r, tuple):
                            bad, cond = 'word %d: %s' % (k, r[0]), r[1]
                        else:
                            bad = 'word %d: %s' % (k, r)
                        break
        res.cls('command with parameters' if len(exp) > 1 else 'plain command', nontrivial=len(exp) > 1)
        if bad:
            extra = []
            if cond is not None and is_sym(cond):
                extra = [z3.Not(cond)] if 'differs from the parameter' in bad else [cond]
            res.violations.append({'what': '%s: %s' % (name, bad), 'input': rec(*extra)})
        else:
            res.xval_path('cmd', replay, rec)
        if len(res.samples) < 1:
            m = ctx.model()
            res.samples.append({'cmd': name, 'params': [f(m) for f in I._p.rust], 'request': render_wire(m, wire)})
        res.take_stats(ctx.stats); ctx.stats.__init__()
    res.wall_s = time.time() - t0
    return res.finish()

def render_wire(m, wire):
    out = bytearray()
    for x in wire:
        if isinstance(x, DecRun):
            out += str(m.eval(x.val, model_completion=True).as_long()).encode()
        else:
            out += model_bytes(m, [x])
    return out.decode('latin1')

# ---------------------------------------------------------------------------- native replay: same table, concrete parameters
def replay(rec):
    inp = rec.get('input') or rec
    out = run_replay(['cmd', inp['cmd']] + list(inp['params']))
    if 'panic' in out:
        return True, 'native run panics: ' + unhex(out['panic'][0]).decode('utf-8', 'replace')[:100]
    if 'wire' not in out:
        return False, 'native executor has no entry for %s (%s)' % (inp['cmd'], out.get('_stderr', '')[-100:])
    wire = unhex(out['wire'][0])
    if not wire.endswith(b'\n'):
        return True, 'native request is not LF-terminated'
    # concrete expectation: re-run the builder concretely through a tiny parameter reader
    exp = concrete_expectation(inp['cmd'], list(inp['params']))
    D = T.ConcreteDecider()
    D.must = lambda c: c is True or (is_sym(c) and z3.is_true(z3.simplify(c)))
    D.check = lambda c: z3.is_true(z3.simplify(z3.Exists([z3.BitVec('probe_position', 64)], c))) if False else _check_range(c)
    try:
        toks = T.tokenize_line(D, list(wire[:-1]))
    except T.TokError as e:
        return True, 'native request %r: tokenizer error %s' % (wire, e)
    if len(toks) != len(exp):
        return True, 'native request %r has %d words, documented %d' % (wire, len(toks), len(exp))
    for k, (e, t) in enumerate(zip(exp, toks)):
        r = check_token(D, e, list(t))
        if r:
            return True, 'native request %r, word %d: %s' % (wire, k, r[0] if isinstance(r, tuple) else r)
    return False, 'native request %r matches the documented form' % wire

def _check_range(c):
    s = z3.Solver(); s.add(c)
    return s.check() == z3.sat

class ConcreteParams:
    """replays the parameter choices of a recorded counterexample through the same builder code (expectations only)"""
    def __init__(self, vals): self.vals = list(vals); self.i = 0; self.rust = []
    def nxt(self):
        v = self.vals[self.i]; self.i += 1
        return v
    def uint(self, bits): return z3.BitVecVal(int(self.nxt()), bits)
    def string(self):
        s = unhex(self.nxt()); return None, s
    def boolean(self): return self.nxt() == '1'
    def bound(self, newtype='SongPosition'):
        v = self.nxt()
        if v == 'u': return None, ('u', None)
        return None, (v[0], int(v[2:]))
    def rng(self, newtype='SongPosition'):
        _, a = self.bound(); _, b = self.bound()
        return None, ('range', a, b)
    def dur(self):
        s, n = self.nxt().split(','); return None, (int(s), int(n))
    def tag(self):
        v = self.nxt()
        if v.startswith('other:'): return None, unhex(v[6:])
        return None, dict(TAGMENU)[v]
    def choice(self, names): return names.index(self.nxt())
    def song(self):
        v = self.nxt(); k, _, n = v.partition(':')
        return None, (k, int(n))

class NullInterp:
    """stands in for the interpreter when only the expectation of a builder is wanted"""
    def call_repo(self, *a, **k): return None
    class ctx:
        @staticmethod
        def choose(n, name): raise RuntimeError('symbolic choice in concrete replay')

def concrete_expectation(name, params):
    ty, builder = TABLE[name]
    p = ConcreteParams(params)
    global tag_value
    saved = tag_value
    try:
        globals()['tag_value'] = lambda *a, **k: None
        c, exp = builder(NullInterp(), None, p)
    finally:
        globals()['tag_value'] = saved
    out = []
    for e in exp:
        if isinstance(e, tuple) and e[0] == 'num' and is_sym(e[1]):
            out.append(('num', z3.simplify(e[1]).as_long()))
        elif isinstance(e, tuple) and e[0] == 'rel' and is_sym(e[2]):
            out.append(('rel', e[1], z3.simplify(e[2]).as_long()))
        else:
            out.append(e)
    return out

DESCR = {}
REQUIRED_CLASSES = ['command with parameters', 'plain command']
EXPLANATION = ('Bounded symbolic execution of the real MIR of every predefined command\'s constructors, builder methods and command(): integer parameters are full-width solver terms whose decimal rendering is kept '
               'as one token (not bit-blasted), the rendered request is tokenised by the port of MPD\'s tokenizer and each word is compared with the expectation table by z3 (numbers as numbers, ranges as sets of '
               'queue positions via a universally quantified probe position, durations against exact decimal arithmetic within half a millisecond); counterexamples are replayed natively through a table of the same constructors')
ASSUMPTIONS = ['string parameters come from {"x", "a b"} (byte-level fidelity of arguments is C06), tags from three values, durations from a menu of seven',
               'integer Display is modelled as "the decimal digits of the value" (DecRun element); fmt of f64 with {:.3} is computed exactly on concrete values only',
               'documented panics (Move::range with an open end, empty TagTypes lists) are outside the claim',
               'expectation table written from the MPD protocol reference (command reference), not from the crate']
RULE = 'one evaluation = one feasible path = one constructor/builder path with its symbolic parameters; non-trivial = the request has arguments'
