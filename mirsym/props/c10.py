"""C10 - see props/parsergroup.py (shared machinery of the protocol-layer properties)."""
from props import parsergroup as PG
PROP = 'C10'
def instances(tier, seed): return PG.instances_for(PROP, tier, seed)
def run_instance(payload): return PG.run_for(PROP, payload)
def replay(rec): return PG.replay_for(PROP, rec)
def bounds(tier): return BOUNDS[tier]
DESCR = {}
EXPLANATION = PG.EXPL
ASSUMPTIONS = PG.ASSUME
BOUNDS = {'quick': 'every cut position (symbolic) of each of the fifteen stream templates (holes of 1 byte from 0x20..0x7e, so that the stream stays well-formed) followed by end of stream, under {one read, one byte per read; the pipelined templates also two reads split at 1/4, 1/2, 3/4 and 12 bytes before the cut}, blocking (8-byte buffer) and async; up to 5 receive calls; '
                   'the greeting line with a free 2-byte version cut at every position',
          'thorough': 'same (the cut positions are exhaustive within the templates)'}
REQUIRED_CLASSES = ['cut on boundary', 'cut on partial', 'greeting cut']
RULE = 'one evaluation = one feasible path (template x cut position x segmentation); non-trivial = the cut stream is well-formed so far'
