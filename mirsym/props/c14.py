"""C14 - song listings decode to the songs the server listed.

Real code executed (MIR): Queue / QueueRange-like (Queue::all), CurrentSong, Find, GetPlaylist, ListAllIn ::response,
SongInQueue::from_frame_single / from_frame_multi, Song::from_frame_multi, SongBuilder::{field, handle_start_field,
handle_song_field, finish, into_song}, is_start_field, SongRange / Duration / Timestamp / integer FromFieldValue,
parse_duration, Tag::try_from, <Frame as IntoIterator>.
Oracle: a reference decoder of the abstract listing the harness generated (one song per file entry; attributes between
the file line and the next entry; duration preferred over Time; tags per canonical tag name in order).
"""
import time
from fractions import Fraction
from decimal import Decimal
import z3
from values import *
import engine
from engine import explore, model_bytes
from props.common import guarded, Undecided, Result, run_replay, hexs, unhex
from props.resp_common import *
from props.c20 import TAGS

PROP = 'C14'
DURS = [b'0', b'1.001', b'123.456', b'0.0005', b'4294967296.5', b'7']
# attribute kinds of a song line:  name -> (wire key, value generator)
MENU = [2]
def dur_val(I, n):
    return list(DURS[1:][I.ctx.choose(min(len(DURS) - 1, MENU[0]), n + '_dur')] if MENU[0] < 6 else DURS[I.ctx.choose(len(DURS), n + '_dur')])
def range_val(I, n):
    k = I.ctx.choose(min(3, MENU[0]), n + '_rng')
    return list([b'1.5-2.25', b'0-', b'10.001-20'][k])
ATTRS = {
    'duration': ('duration', dur_val), 'Time': ('Time', lambda I, n: list([b'123', b'7', b'0'][I.ctx.choose(min(3, MENU[0]), n + '_t')])),
    'Range': ('Range', range_val), 'Format': ('Format', lambda I, n: list(b'44100:16:2')),
    'Last-Modified': ('Last-Modified', lambda I, n: list(b'2020-06-12T17:53:00Z')),
    'Prio': ('Prio', lambda I, n: v_dec(I, n, 8)), 'Pos': ('Pos', lambda I, n: v_dec(I, n, 64)), 'Id': ('Id', lambda I, n: v_dec(I, n, 64)),
    'Title': ('Title', None), 'title': ('title', None), 'Artist': ('Artist', None), 'MBTrack': ('MUSICBRAINZ_TRACKID', None),
    'Foo': ('Foo', None), 'x-y': ('x-y_Z', None),
}
SCALAR = ['duration', 'Time', 'Range', 'Format', 'Last-Modified', 'Prio', 'Pos', 'Id']
SUBSETS = [['duration', 'Time', 'Title', 'Pos'], ['Id', 'Prio', 'Range', 'Artist'], ['Title', 'title', 'Artist', 'Format'], ['Last-Modified', 'MBTrack', 'Foo', 'x-y'],
           ['Time', 'duration', 'Last-Modified', 'Id'], ['Pos', 'Id', 'Title', 'Title'], ['Range', 'Format', 'x-y', 'duration'], ['Prio', 'Time', 'Foo', 'MBTrack']]
ENTRY_CMDS = ['Queue', 'Find', 'ListAllIn', 'GetPlaylist', 'CurrentSong']

def instances(tier, seed):
    out = [{'kind': 'wire', 'cmd': 'Queue'}, {'kind': 'wire', 'cmd': 'Find'}]
    if tier == 'quick':
        others = ['Find', 'ListAllIn', 'GetPlaylist']
        for i, sub in enumerate(SUBSETS):
            queueish = any(a in ('Pos', 'Id', 'Prio', 'Range') for a in sub)
            out.append({'cmd': 'Queue' if queueish else others[(i + seed) % 3], 'attrs': sub, 'entries': 2, 'per': 2})
        out.append({'cmd': 'Queue', 'attrs': SUBSETS[seed % 8], 'entries': 3, 'per': 1})
        out.append({'cmd': 'ListAllIn', 'attrs': SUBSETS[(seed + 3) % 8], 'entries': 3, 'per': 1})
        out.append({'cmd': 'CurrentSong', 'attrs': SUBSETS[(seed + 1) % 8], 'entries': 1, 'per': 3})
        out.append({'cmd': 'Queue', 'attrs': SUBSETS[0], 'entries': 1, 'per': 3})
        out.append({'cmd': 'Queue', 'attrs': ['duration', 'Time', 'Range', 'Title'], 'entries': 1, 'per': 2, 'menu': 6})
        out.append({'cmd': 'Find', 'attrs': ['duration', 'Time', 'Format', 'Last-Modified'], 'entries': 1, 'per': 2, 'menu': 6})
    else:
        for i, sub in enumerate(SUBSETS):
            for cmd in ENTRY_CMDS[:4]:
                out.append({'cmd': cmd, 'attrs': sub, 'entries': 2, 'per': 2})
                out.append({'cmd': cmd, 'attrs': sub, 'entries': 3, 'per': 1})
            out.append({'cmd': 'Queue', 'attrs': sub, 'entries': 2, 'per': 3})
            out.append({'cmd': 'CurrentSong', 'attrs': sub, 'entries': 1, 'per': 4})
            out.append({'cmd': 'Queue', 'attrs': sub, 'entries': 1, 'per': 5})
    return out

def bounds(tier):
    return {'quick': 'listings of <= 2 entries (one instance each: 3 entries) where every entry is a symbolic choice of song / directory / playlist (directory and playlist entries with optional Last-Modified), '
                     'every song with 0..2 (one instance: 0..4) attribute lines, each a symbolic choice from a 4-element subset of {duration, Time, Range, Format, Last-Modified, Prio, Pos, Id, Title, title, Artist, '
                     'MUSICBRAINZ_TRACKID, Foo, x-y_Z} (8 subsets rotate over the commands Queue/Find/ListAllIn/GetPlaylist/CurrentSong), scalar attributes at most once per song, tags repeatable; '
                     'Pos/Id/Prio are numbers of any in-range magnitude (one solver term each), durations from a menu of 1-2 decimal texts in multi-entry listings and of all 6 (0, 1.001, 123.456, 0.0005, 4294967296.5, 7) in two single-song instances, ranges likewise from 3',
            'thorough': 'every subset x every command, 2 entries x 0..2 (Queue: 0..3) attributes and 3 entries x 0..1 attribute, single songs with 0..5 attributes'}[tier]

def canon_tag(key):
    for v, nm in TAGS:
        if nm.lower() == key.lower():
            return nm
    return key

def dur_ns(text):
    """exact nanoseconds of a decimal text, rounded half-even (reference, independent of f64)"""
    d = Decimal(text.decode() if isinstance(text, bytes) else text) * 10 ** 9
    return int(d.to_integral_value(rounding='ROUND_HALF_EVEN'))

def gen_listing(I, payload):
    """abstract listing + its wire fields"""
    entries = []
    fields = []
    vcount = [0]
    def fresh_val():
        # tag values come from a two-element alphabet so that repeated (also adjacent, identical) values occur
        vcount[0] += 1
        return list(b'va' if I.ctx.choose(2, 'tagval%d' % vcount[0]) == 0 else b'vb')
    for e in range(payload['entries']):
        kind = I.ctx.choose(3, 'entry%d' % e) if payload['cmd'] in ('ListAllIn', 'Queue', 'Find') or e > 0 else 0
        if payload['cmd'] == 'CurrentSong':
            kind = 0
        if kind == 0:
            url = list(b'f%d' % e)
            fields.append((list(b'file'), url))
            song = {'kind': 'song', 'url': url, 'scalars': {}, 'tags': []}
            used = set()
            nattr = I.ctx.choose(payload['per'] + 1, 'nattr%d' % e)
            for a in range(nattr):
                k = payload['attrs'][I.ctx.choose(len(payload['attrs']), 'attr%d_%d' % (e, a))]
                key, gen = ATTRS[k]
                if k in SCALAR:
                    if k in used:
                        raise PathInfeasible()
                    used.add(k)
                    v = gen(I, 'a%d_%d' % (e, a))
                    song['scalars'][k] = v
                else:
                    v = fresh_val()
                    song['tags'].append((key, v))
                fields.append((list(key.encode()), v))
            entries.append(song)
        else:
            nm = b'directory' if kind == 1 else b'playlist'
            fields.append((list(nm), list(b'd%d' % e)))
            if I.ctx.choose(2, 'dlm%d' % e) == 0:
                fields.append((list(b'Last-Modified'), list(b'2021-01-01T00:00:00Z')))
            entries.append({'kind': 'other'})
    return entries, fields

def expected_songs(entries):
    out = []
    for s in entries:
        if s['kind'] != 'song':
            continue
        sc = s['scalars']
        tags = {}
        for k, v in s['tags']:
            tags.setdefault(canon_tag(k), []).append(v)
        dur = sc.get('duration', sc.get('Time'))
        out.append({'url': s['url'], 'pos': sc.get('Pos'), 'id': sc.get('Id'), 'prio': sc.get('Prio'), 'range': sc.get('Range'), 'format': sc.get('Format'),
                    'lm': sc.get('Last-Modified'), 'dur': dur, 'tags': tags})
    return out

def num_of(items):
    """value term of a numeric wire value"""
    if items is None:
        return 0
    if len(items) == 1 and isinstance(items[0], DecRun):
        return items[0].val
    return int(bytes(items))

def dur_matches(d, text):
    if text is None:
        return d.variant == 'None'
    if d.variant != 'Some':
        return False
    s, n = d.fields[0].fields
    return abs(s * 10 ** 9 + n - dur_ns(bytes(text))) <= 1

def check_song(ctx, song, want, queue_part=None):
    """song: Song Adt; returns None or a description of the first difference"""
    from models_core import as_items
    f = lambda name: song.field(name)
    if bytes(as_items(f('url'))) != bytes(want['url']):
        return 'url %r instead of %r' % (bytes(as_items(f('url'))), bytes(want['url']))
    if not dur_matches(f('duration'), want['dur']):
        return 'duration %r for wire value %r' % (f('duration'), bytes(want['dur']) if want['dur'] else None)
    for name, key in (('format', 'format'), ('last_modified', 'lm')):
        got = f(name)
        w = want[key]
        if (got.variant == 'Some') != (w is not None):
            return '%s present=%s, listed=%s' % (name, got.variant == 'Some', w is not None)
        if w is not None:
            g = got.fields[0]
            g = g.field('raw') if isinstance(g, Adt) else g
            if bytes(as_items(g)) != bytes(w):
                return '%s %r instead of %r' % (name, bytes(as_items(g)), bytes(w))
    tags = f('tags')
    got = {}
    for k, v in tags.entries:
        nm = tag_name(k)
        got[nm] = [bytes(as_items(x)) for x in v.v]
    wt = {k: [bytes(x) for x in v] for k, v in want['tags'].items()}
    if got != wt:
        return 'tags %r instead of %r' % (got, wt)
    if queue_part is not None:
        q = queue_part
        for name, key, idx in (('position', 'pos', 0), ('id', 'id', 0)):
            g = q.field(name).fields[0]
            if not ctx.must(int_eq(bv(g, 64), bv(num_of(want[key]), 64))):
                return '%s differs from the listed value' % name
        if not ctx.must(int_eq(bv(q.field('priority'), 8), bv(num_of(want['prio']), 8))):
            return 'priority differs from the listed value'
        r = q.field('range')
        if (r.variant == 'Some') != (want['range'] is not None):
            return 'range present=%s, listed=%s' % (r.variant == 'Some', want['range'] is not None)
        if want['range'] is not None:
            a, _, b = bytes(want['range']).partition(b'-')
            rv = r.fields[0]
            if not dur_matches(some(rv.field('from')), a) or not dur_matches(rv.field('to'), b or None):
                return 'range %r for wire value %r' % (rv, bytes(want['range']))
    return None

def tag_name(t):
    if t.variant == 'Other':
        from models_core import as_items
        return bytes(as_items(t.fields[0])).decode()
    return dict(TAGS)[t.variant]

PRIOR_REPLIES = [b'volume: 5\nstate: play\ntime: 12:240\nelapsed: 12.5\nduration: 240.000\naudio: 44100:16:2\nOK\n',
                 b'file: x\ntitle: lower\nartist: lower\nTIME: 7\nformat: f\nlast-modified: 2020-01-01T00:00:00Z\npos: 9\nid: 9\nOK\n']
WIRE_LISTING = {'Queue': b'file: a.mp3\nLast-Modified: 2021-02-03T04:05:06Z\nFormat: 44100:16:2\nTime: 240\nduration: 240.500\nTitle: T\nArtist: A\nArtist: B\nPos: 3\nId: 17\nOK\n',
                'Find': b'file: a.mp3\nLast-Modified: 2021-02-03T04:05:06Z\nFormat: 44100:16:2\nTime: 240\nTitle: T\nArtist: A\nfile: b.mp3\nTime: 7\nOK\n'}

def run_wire(P, res, payload):
    """the listing is the second / third reply on a connection that has already decoded replies using the same field names in other
    letter cases (the connection interns field names): it must decode exactly like on a fresh connection"""
    from models_io import Transport
    from props.conn_common import T, set_cap
    cmd = payload['cmd']; flav = 'sync'
    listing = WIRE_LISTING[cmd]
    def harness(I):
        set_cap(I, 4096)
        nprior = 1 + I.ctx.choose(2, 'prior')
        prior = b''.join(PRIOR_REPLIES[:nprior])
        t = Transport(list(b'OK MPD 0.23.5\n' + prior + listing), cuts=[14], eof=True)
        r = I.call_repo('mpd_protocol::connection::Connection::<%s>::connect' % T, [t])
        conn = ValLoc(r.fields[0])
        frame = None
        for _ in range(nprior + 1):
            x = I.call_repo('mpd_protocol::connection::Connection::<%s>::receive' % T, [Ref(conn)])
            if x.variant != 'Ok' or x.fields[0].variant != 'Some':
                raise InternalError('the harness stream is not decoded: %r' % (x,))
            frame = x.fields[0].fields[0].field('frames').v[0]
        I._nprior = nprior
        return respond(I, P, cmd, frame)
    for pr in explore(P, harness):
        res.paths += 1
        ctx = pr.ctx
        nprior = getattr(pr.interp, '_nprior', 1)
        rec = {'cmd': cmd, 'wire': hexs(b''.join(PRIOR_REPLIES[:nprior]) + listing), 'skip': nprior}
        if pr.kind == 'panic':
            res.violations.append({'what': 'decoding the listing panics: ' + pr.error.msg[:100], 'input': rec}); continue
        r = pr.value
        bad = None
        if r.variant != 'Ok':
            bad = 'well-formed listing rejected after earlier replies on the same connection: %r' % (r.fields[0],)
        else:
            want = []
            for sng in ref_decode(listing):
                sc = {k: v.encode('latin1') for k, v in sng['scalars'].items()}
                want.append({'url': sng['url'].encode('latin1'), 'pos': sc.get('Pos'), 'id': sc.get('Id'), 'prio': sc.get('Prio'), 'range': sc.get('Range'), 'format': sc.get('Format'),
                             'lm': sc.get('Last-Modified'), 'dur': sc.get('duration', sc.get('Time')), 'tags': {k: [x.encode('latin1') for x in v] for k, v in sng['tags'].items()}})
            got = list(r.fields[0].v)
            if len(got) != len(want):
                bad = '%d songs decoded, %d file entries listed' % (len(got), len(want))
            else:
                for g, w in zip(got, want):
                    bad = check_song(ctx, g.field('song'), w, g) if cmd == 'Queue' else check_song(ctx, g, w)
                    if bad:
                        bad += ' (the listing was the reply number %d on its connection)' % (nprior + 1)
                        break
        res.cls('listing on a used connection', nontrivial=True)
        if bad:
            res.violations.append({'what': bad, 'input': rec})
        else:
            res.xval_path('used %d' % nprior, replay, lambda: rec)
        if len(res.samples) < 1:
            res.samples.append({'cmd': cmd, 'earlier replies': nprior, 'listing': listing.decode()})
        res.take_stats(ctx.stats); ctx.stats.__init__()

def run_instance(payload):
    P = engine.load_program()
    res = Result(str(payload))
    t0 = time.time()
    if payload.get('kind') == 'wire':
        run_wire(P, res, payload)
        res.wall_s = time.time() - t0
        return res.to_dict()
    cmd = payload['cmd']
    MENU[0] = payload.get('menu', 1 if payload['entries'] * payload['per'] >= 3 else 2)
    def harness(I):
        entries, fields = gen_listing(I, payload)
        I._fields = fields
        r = respond(I, P, cmd, mk_frame(fields))
        return entries, r
    for pr in explore(P, guarded(harness)):
        res.paths += 1
        ctx = pr.ctx
        I = pr.interp
        rec = lambda: {'cmd': cmd, 'wire': hexs(wire_of(ctx.model(), I._fields))}
        if isinstance(pr.value, Undecided):
            res.undecided_path(pr, replay, rec); continue
        if pr.kind == 'panic':
            res.violations.append({'what': 'decoding the listing panics: ' + pr.error.msg[:100], 'input': rec()})
            continue
        entries, r = pr.value
        want = expected_songs(entries)
        bad = None
        if r.variant != 'Ok':
            bad = 'well-formed listing rejected: %r' % (r.fields[0],)
        else:
            v = r.fields[0]
            if cmd == 'CurrentSong':
                got = [v.fields[0]] if v.variant == 'Some' else []
            else:
                got = list(v.v)
            if len(got) != len(want):
                bad = '%d songs decoded, %d file entries listed' % (len(got), len(want))
            else:
                for g, w in zip(got, want):
                    if cmd in ('Queue', 'CurrentSong'):
                        bad = check_song(ctx, g.field('song'), w, g)
                    else:
                        bad = check_song(ctx, g, w)
                    if bad:
                        break
        res.cls('listing with %d songs' % min(len(want), 2), nontrivial=len(want) > 0)
        if bad:
            res.violations.append({'what': bad, 'input': rec()})
        else:
            res.xval_path('listing %d' % len(want), replay, rec, )
        if len(res.samples) < 1:
            res.samples.append({'cmd': cmd, 'listing': wire_of(ctx.model(), I._fields).decode('latin1')})
        res.take_stats(ctx.stats); ctx.stats.__init__()
    res.wall_s = time.time() - t0
    return res.finish()

# ---------------------------------------------------------------------------- native replay: reference decoder on the concrete wire
def ref_decode(wire):
    """reference decoder of a well-formed listing (text level)"""
    songs = []
    cur = None
    for line in wire.decode('latin1').split('\n'):
        if line in ('OK', ''):
            continue
        k, _, v = line.partition(': ')
        if k in ('file', 'directory', 'playlist'):
            if cur is not None:
                songs.append(cur)
            cur = {'url': v, 'scalars': {}, 'tags': {}} if k == 'file' else None
        elif cur is not None:
            if k in SCALAR:
                cur['scalars'][k] = v
            else:
                cur['tags'].setdefault(canon_tag(k), []).append(v)
    if cur is not None:
        songs.append(cur)
    return songs

def ns_txt(ns):
    return '%d.%09d' % (ns // 10 ** 9, ns % 10 ** 9)

def ref_lines(cmd, wire):
    """(lower, upper) acceptable canonical observation lines: durations may differ by 1 ns, so they are compared separately"""
    songs = ref_decode(wire)
    out = ['songs=%d' % len(songs)]
    for s in songs:
        sc = s['scalars']
        dur = sc.get('duration', sc.get('Time'))
        tags = sorted((hexs(k.encode()), ','.join(hexs(v.encode()) for v in vs)) for k, vs in s['tags'].items())
        core = 'url=%s dur=%s format=%s lm=%s tags=%s' % (hexs(s['url'].encode()), 'D(%s)' % dur if dur is not None else 'none', hexs(sc['Format'].encode()) if 'Format' in sc else 'none',
                                                           hexs(sc['Last-Modified'].encode()) if 'Last-Modified' in sc else 'none', ';'.join('%s:%s' % t for t in tags))
        if cmd in ('Queue', 'CurrentSong'):
            rng = 'none'
            if 'Range' in sc:
                a, _, b = sc['Range'].partition('-')
                rng = 'D(%s)-%s' % (a, 'D(%s)' % b if b else 'none')
            core = 'pos=%s id=%s prio=%s range=%s %s' % (sc.get('Pos', '0'), sc.get('Id', '0'), sc.get('Prio', '0'), rng, core)
        out.append(core)
    return out

def lines_match(got, want):
    import re
    if len(got) != len(want):
        return False
    for g, w in zip(got, want):
        parts = re.split(r'D\(([^)]*)\)', w)
        pat = ''
        vals = []
        for i, p in enumerate(parts):
            if i % 2 == 0:
                pat += re.escape(p)
            else:
                pat += r'(\d+\.\d{9})'; vals.append(p)
        m = re.fullmatch(pat, g)
        if not m:
            return False
        for txt, gv in zip(vals, m.groups()):
            s, n = gv.split('.')
            if abs(int(s) * 10 ** 9 + int(n) - dur_ns(txt)) > 1:
                return False
    return True

def replay(rec):
    inp = rec.get('input') or rec
    wire = unhex(inp['wire'])
    if inp.get('skip'):
        out = run_replay(['resp', inp['cmd'], hexs(wire), 'skip=%d' % inp['skip']])
        wire = WIRE_LISTING[inp['cmd']]
    else:
        out = run_replay(['resp', inp['cmd'], hexs(wire)])
    if 'panic' in out:
        return True, 'native run panics'
    if 'err' in out:
        return True, 'native run rejects the listing: ' + out['err'][0]
    got = out.get('obs', [])
    want = ref_lines(inp['cmd'], wire)
    if inp['cmd'] == 'CurrentSong' and want[0] not in ('songs=0', 'songs=1'):
        return False, 'listing with several songs is not a currentsong reply'
    return (not lines_match(got, want)), 'native %s / reference %s' % (got[:3], want[:3])

DESCR = {}
REQUIRED_CLASSES = ['listing on a used connection', 'listing with 0 songs', 'listing with 1 songs', 'listing with 2 songs']
EXPLANATION = ('Bounded symbolic execution of the real MIR of the song listing decoders on frames encoding abstract listings generated under symbolic choices (entry kinds, '
               'attribute kinds and order, numbers of any in-range magnitude); on every feasible path the decoded songs are compared with a reference decoder of the abstract '
               'listing (durations against exact decimal arithmetic, +-1 ns); counterexample listings are replayed natively through the real parser and the typed command')
ASSUMPTIONS = ['listings are well-formed: every attribute line follows a file line, directory/playlist entries carry at most a Last-Modified line, scalar attributes occur at most once per song',
               'URLs, formats and dates are short distinct markers (the decoders move values without inspecting them), tag values are symbolic choices from {va, vb} (so identical repeated values occur); URLs are non-empty',
               'without the chrono feature',
               'concrete f64 parsing and Duration::from_secs_f64 are modelled exactly (python float / exact rational rounding)']
RULE = 'one evaluation = one feasible path = one abstract listing shape (with symbolic numbers); non-trivial = the listing contains at least one song'
