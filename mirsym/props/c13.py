"""C13 - command lists are framed as one batch and typed replies pair positionally.

Real code executed (MIR): mpd_protocol CommandList::{new, add, command, extend, len, render}, Connection::{send, send_list},
AsyncConnection::{send, send_list} (coroutines) over a transport with short writes; mpd_client
`impl CommandList for Vec<C>` and the eight tuple impls (command_list, responses) with a harness command type.
"""
import time
import z3
from values import *
import engine
from engine import explore, model_bytes
from interp import model
from props.common import Result, run_replay, hexs, unhex
from models_core import deref

PROP = 'C13'
BEGIN = list(b'command_list_ok_begin\n')
END = list(b'command_list_end\n')

class HCmd:
    """harness command: request `c<k>`; its response is (k, the frame it was given) or a symbolic failure"""
    def __init__(self, k): self.k = k
    def __repr__(self): return 'HCmd(%d)' % self.k

def raw_command(data):
    return Adt('Command', None, 0, [ByteBuf(data)])

@model('Command::command')
def m_hcmd_command(I, c, args, fr):
    o = deref(args[0])
    if not isinstance(o, HCmd):
        raise Unsupported('Command::command on %r' % (o,))
    return raw_command([ord('c'), 97 + o.k])

@model('Command::response')
def m_hcmd_response(I, c, args, fr):
    o = deref(args[0])
    if not isinstance(o, HCmd):
        raise Unsupported('Command::response on %r' % (o,))
    if isinstance(I.world, list):
        I.world.append(('response', o.k, args[1]))
    if getattr(o, 'nofail', False):
        return ok(Tup([o.k, args[1]]))
    fail = I.ctx.fresh_bool('resp%d_fails' % o.k)
    if I.ctx.decide(fail):
        if isinstance(I.world, list):
            I.world.append(('failed', o.k, None))
        return err(Adt('TypedResponseError', None, 0, [str_ref('f'), Adt('ErrorKind', 'Missing', 0, [])], ['field', 'kind']))
    return ok(Tup([o.k, args[1]]))

def mk_frame(k):
    fc = Adt('FieldsContainer', None, 0, [VecObj([some(Tup([StrBuf(b'id', 'Arc<str>'), StrBuf(str(k).encode())]))])])
    return Adt('Frame', None, 0, [fc, none()], ['fields', 'binary'])

def frame_id(f):
    return int(bytes(f.fields[0].fields[0].v[0].fields[0].items[1].b))

def instances(tier, seed):
    out = []
    nmax = 4 if tier == 'quick' else 6
    for n in range(1, nmax + 1):
        for how in ('add', 'command', 'extend', 'mixed'):
            out.append({'kind': 'raw', 'n': n, 'how': how})
    for flav in ('sync', 'async'):
        for n in ((1, 2, 3) if tier == 'quick' else (1, 2, 3, 4)):
            out.append({'kind': 'send', 'n': n, 'flav': flav})
        out.append({'kind': 'send', 'n': 1, 'flav': flav, 'single': True})
    from props import clientgroup as CG
    for sc in CG.instances_for(PROP, tier, seed):
        out.append({'kind': 'client', 'scenario': sc})
    for n in ((2, 3, 4) if tier == 'quick' else (2, 3, 4, 5, 6)):
        out.append({'kind': 'wire', 'n': n, 'flav': 'sync'})
        out.append({'kind': 'wire', 'n': n, 'flav': 'async'})
    # request + reply in one call (Connection::command / command_list, both flavours), the reply arriving in two reads, one
    # read (a symbolic one) possibly failing once with ErrorKind::Interrupted
    for flav in ('sync', 'async'):
        for n in ((1, 2, 3) if tier == 'quick' else (1, 2, 3, 4)):
            out.append({'kind': 'shorthand', 'n': n, 'flav': flav})
    for n in range(1, 9):
        out.append({'kind': 'tuple', 'n': n})
    for n in range(0, 5 if tier == 'quick' else 8):
        out.append({'kind': 'vec', 'n': n})
    return out

def bounds(tier):
    return {'quick': 'raw lists of 1..4 commands built through add / command / extend / a mix, command bytes symbolic (2..3 bytes, no LF); '
                     'typed tuples of every arity 1..8 and vectors of 0..4 commands, each response symbolically succeeding or failing',
            'thorough': 'raw lists of 1..6 commands (same builders); tuples of arity 1..8; vectors of 0..7 commands'}[tier] + (
            '; typed lists of 0, 2 and 3 commands through the real Client::command_list on the client engine (C01): 2..4 free scheduler steps, the empty list also on a connection that is closed by the peer at a symbolic step' +
            '; replies to lists of 2..%d commands decoded by both real connections (8-byte buffer) and paired frame by frame' % (4 if tier == 'quick' else 6) +
            '; lists of 1..%d commands sent through Connection::send_list / AsyncConnection::send_list (and send) over a transport that accepts all / 1 / 5 bytes per write call' % (3 if tier == 'quick' else 4))

def run_instance(payload):
    if payload['kind'] == 'client':
        from props import clientgroup as CG
        return CG.run_for(PROP, payload['scenario'])
    P = engine.load_program()
    res = Result(str(payload))
    t0 = time.time()
    if payload['kind'] == 'raw':
        run_raw(P, res, payload)
    elif payload['kind'] == 'send':
        run_send(P, res, payload)
    elif payload['kind'] == 'wire':
        run_wire(P, res, payload)
    elif payload['kind'] == 'shorthand':
        run_shorthand(P, res, payload)
    else:
        run_typed(P, res, payload)
    res.wall_s = time.time() - t0
    return res.to_dict()

def expected_wire(cmds):
    if len(cmds) == 1:
        return cmds[0] + [10]
    w = list(BEGIN)
    for c in cmds:
        w += c + [10]
    return w + list(END)

def run_raw(P, res, payload):
    n = payload['n']; how = payload['how']
    def harness(I):
        datas = []
        for k in range(n):
            bs = [z3.BitVec('c%d_%d' % (k, i), 8) for i in range(2 + (k % 2))]
            for b in bs:
                I.ctx.assume(b != 10)
            datas.append(bs)
        cmds = [raw_command(d) for d in datas]
        lst = I.call_repo('mpd_protocol::CommandList::new', [cmds[0]])
        cell = ValLoc(lst)
        rest = cmds[1:]
        if how == 'add':
            for c in rest:
                I.call_repo('mpd_protocol::CommandList::add', [Ref(cell), c])
        elif how == 'command':
            for c in rest:
                cell.set(I.call_repo('mpd_protocol::CommandList::command', [cell.get(), c]))
        elif how == 'extend':
            I.call_repo('<mpd_protocol::CommandList as Extend<mpd_protocol::Command>>::extend::<Vec<mpd_protocol::Command>>', [Ref(cell), VecObj(rest)])
        else:
            for i, c in enumerate(rest):
                if i % 3 == 0:
                    I.call_repo('mpd_protocol::CommandList::add', [Ref(cell), c])
                elif i % 3 == 1:
                    cell.set(I.call_repo('mpd_protocol::CommandList::command', [cell.get(), c]))
                else:
                    I.call_repo('<mpd_protocol::CommandList as Extend<mpd_protocol::Command>>::extend::<Vec<mpd_protocol::Command>>', [Ref(cell), VecObj([c])])
        ln = I.call_repo('mpd_protocol::CommandList::len', [Ref(cell)])
        wire = I.call_repo('mpd_protocol::CommandList::render', [cell.get()])
        return [list(d) for d in datas], ln, list(wire.b)
    for pr in explore(P, harness):
        res.paths += 1
        ctx = pr.ctx
        if pr.kind == 'panic':
            res.violations.append({'what': 'list building/rendering panics: ' + pr.error.msg, 'input': {'kind': 'raw', 'n': n, 'how': how, 'cmds': None}})
            continue
        datas, ln, wire = pr.value
        c = b_and(seq_eq(wire, expected_wire(datas)), ln == n)
        if not ctx.must(c):
            m = ctx.model(z3.Not(c)) if is_sym(c) else ctx.model()
            res.violations.append({'what': 'list of %d commands (%s) is not rendered as %s' % (n, how, 'the bare command' if n == 1 else 'one ok_begin/end block in order'),
                                   'input': {'kind': 'raw', 'n': n, 'how': how, 'cmds': [hexs(model_bytes(m, d)) for d in datas]}})
        res.cls('raw n=%d' % n if n < 3 else 'raw n>=3', nontrivial=n >= 2)
        res.xval_path('raw', replay, lambda: {'kind': 'raw', 'n': n, 'how': how, 'cmds': [hexs(model_bytes(ctx.model(), d)) for d in datas]})
        if len(res.samples) < 1:
            m = ctx.model()
            res.samples.append({'builder': how, 'commands': [model_bytes(m, d).decode('latin1') for d in datas], 'wire': model_bytes(m, wire).decode('latin1')})
        res.take_stats(ctx.stats); ctx.stats.__init__()

MAXW = [None, 1, 5]
def run_send(P, res, payload):
    """the list as it reaches the transport: Connection::send_list / AsyncConnection::send_list (send for a single Command) over a
    transport that accepts at most a symbolically chosen number of bytes per write call (short writes are legal)"""
    from models_io import Transport, drive
    from props.conn_common import T
    n = payload['n']; flav = payload['flav']; single = payload.get('single', False)
    conn_ty = 'Connection' if flav == 'sync' else 'AsyncConnection'
    def harness(I):
        datas = []
        for k in range(n):
            bs = [z3.BitVec('c%d_%d' % (k, i), 8) for i in range(2 + (k % 2))]
            for b in bs:
                I.ctx.assume(b != 10)
            datas.append(bs)
        cmds = [raw_command(d) for d in datas]
        t = Transport(list(b'OK MPD 0.23.5\n'), eof=False)
        r = I.call_repo('mpd_protocol::connection::%s::<%s>::connect' % (conn_ty, T), [t])
        if flav == 'async':
            r = drive(I, r)
        if r.variant != 'Ok':
            raise InternalError('connect failed in the harness prefix')
        conn = ValLoc(r.fields[0])
        mw = MAXW[I.ctx.choose(len(MAXW), 'max_write')]
        t.max_write = mw
        if flav == 'async' and mw is not None:
            t.write_budget = None
        if single:
            x = I.call_repo('mpd_protocol::connection::%s::<%s>::send' % (conn_ty, T), [Ref(conn), cmds[0]])
        else:
            lst = I.call_repo('mpd_protocol::CommandList::new', [cmds[0]])
            cell = ValLoc(lst)
            for c in cmds[1:]:
                I.call_repo('mpd_protocol::CommandList::add', [Ref(cell), c])
            x = I.call_repo('mpd_protocol::connection::%s::<%s>::send_list' % (conn_ty, T), [Ref(conn), cell.get()])
        if flav == 'async':
            x = drive(I, x)
        return [list(d) for d in datas], x, list(t.out), mw
    for pr in explore(P, harness):
        res.paths += 1
        ctx = pr.ctx
        rec = {'kind': 'send', 'n': n, 'flav': flav, 'single': single, 'max_write': None, 'cmds': None}
        if pr.kind == 'panic':
            res.violations.append({'what': 'sending panics: ' + pr.error.msg, 'input': rec})
            continue
        datas, x, out, mw = pr.value
        rec['max_write'] = mw
        c = b_and(seq_eq(out, expected_wire(datas)), x.variant == 'Ok')
        if not ctx.must(c):
            m = ctx.model(z3.Not(c)) if is_sym(c) else ctx.model()
            rec['cmds'] = [hexs(model_bytes(m, d)) for d in datas]
            res.violations.append({'what': '%s %s of %d command(s) over a transport taking %s bytes per write: the transport received %r' % (
                flav, 'send' if single else 'send_list', n, mw or 'all', model_bytes(m, out)), 'input': rec})
        res.cls('sent n=%d' % min(n, 2), nontrivial=True)
        res.xval_path('sent %s' % mw, replay, lambda: dict(rec, cmds=[hexs(model_bytes(ctx.model(), d)) for d in datas]))
        if len(res.samples) < 1:
            m = ctx.model()
            res.samples.append({'sent': flav, 'max_write': mw, 'wire': model_bytes(m, out).decode('latin1')})
        res.take_stats(ctx.stats); ctx.stats.__init__()

def list_reply(n):
    """(reply bytes, expected frames) of the simulated server for a list of n commands (n = 1: a single command)"""
    if n == 1:
        return b'id: 0\nOK\n', [[(b'id', b'0')]]
    body = b''; want = []
    for k in range(n):
        fs = [] if (n >= 3 and k == n // 2) else ([(b'id', b'%d' % k)] + ([(b'extra', b'%d' % k)] if k else []))
        want.append(fs)
        body += b''.join(a + b': ' + b + b'\n' for a, b in fs) + (b'binary: 2\nXY\n' if (n >= 3 and k == n - 1) else b'') + b'list_OK\n'
    return body + b'OK\n', want

def run_shorthand(P, res, payload):
    """Connection::command / command_list (send + receive in one call): the request is written once and completely, the result is
    the server's reply to it - or an error; never a response with other frames"""
    from models_io import Transport, drive
    from props.conn_common import T, set_cap
    n = payload['n']; flav = payload['flav']
    conn_ty = 'Connection' if flav == 'sync' else 'AsyncConnection'
    body, want = list_reply(n)
    cut = body.index(b'\n') + 1 + (8 if n > 1 else 0)         # the second read starts after the first line (+ list_OK)
    def harness(I):
        set_cap(I, 8 if flav == 'sync' else 4096)
        t = Transport(list(b'OK MPD 0.23.5\n' + body), cuts=[14, 14 + min(cut, len(body) - 1)], eof=True)
        intr = I.ctx.choose(4, 'interrupt')
        I._intr = intr
        r = I.call_repo('mpd_protocol::connection::%s::<%s>::connect' % (conn_ty, T), [t])
        if flav == 'async':
            r = drive(I, r)
        conn = ValLoc(r.fields[0])
        if intr:
            t.interrupt_at = t.read_calls + intr - 1
            I._intr = t.interrupt_at + 1           # recorded as 1 + the index of the failing read call, counted from the start of the connection
        cmds = [I.call_repo('mpd_protocol::Command::new', [str_ref(b'c' + bytes([97 + k]))]) for k in range(n)]
        if n == 1:
            x = I.call_repo('mpd_protocol::connection::%s::<%s>::command' % (conn_ty, T), [Ref(conn), cmds[0]])
        else:
            lst = I.call_repo('mpd_protocol::CommandList::new', [cmds[0]])
            for c in cmds[1:]:
                lst = I.call_repo('mpd_protocol::CommandList::command', [lst, c])
            x = I.call_repo('mpd_protocol::connection::%s::<%s>::command_list' % (conn_ty, T), [Ref(conn), lst])
        if flav == 'async':
            x = drive(I, x)
        I._hit = bool(intr) and t.read_calls > t.interrupt_at
        return x, list(t.out)
    for pr in explore(P, harness):
        res.paths += 1
        I = pr.interp
        rec = {'kind': 'shorthand', 'n': n, 'flav': flav, 'interrupt': getattr(I, '_intr', 0)}
        if pr.kind == 'panic':
            res.violations.append({'what': 'command/command_list panics: ' + pr.error.msg, 'input': rec}); continue
        x, out = pr.value
        bad = None
        wantw = expected_wire([[ord('c'), 97 + k] for k in range(n)])
        if out != wantw:
            bad = 'the request was written as %r' % (bytes(out),)
        elif x.variant == 'Ok':
            resp = x.fields[0]
            frames = [[(bytes(kk.b), bytes(vv.b)) for kk, vv in (e.fields[0].items for e in f.fields[0].fields[0].v if e.variant == 'Some')] for f in resp.field('frames').v]
            if frames != want or resp.field('error').variant != 'None':
                bad = 'the call returns a response with the frames %r, the server produced %r' % (frames, want)
        elif not I._hit:
            bad = 'the call fails although the complete reply was delivered'
        res.cls('shorthand %s%s' % (x.variant, ' after an interrupted read' if I._hit else ''), nontrivial=True)
        if bad:
            res.violations.append({'what': bad, 'input': rec})
        else:
            res.xval_path('shorthand %s' % x.variant, replay, lambda: rec)
        if len(res.samples) < 1:
            res.samples.append({'shorthand': flav, 'n': n, 'result': x.variant})
        res.take_stats(pr.ctx.stats); pr.ctx.stats.__init__()

def run_wire(P, res, payload):
    """end to end: the server's reply bytes to a list of n commands are decoded by the real connection (parser, ResponseBuilder) and the
    resulting frames are handed to the typed list impl: response i must come from the frame the server produced for command i"""
    from models_io import Transport, drive
    from props.conn_common import T, set_cap
    n = payload['n']; flav = payload['flav']
    conn_ty = 'Connection' if flav == 'sync' else 'AsyncConnection'
    def harness(I):
        I.world = []
        set_cap(I, 8)
        body = b''
        for k in range(n):
            # command k answers with its id and (from the second command on) a second field, the command in the middle with nothing
            body += (b'' if (n >= 3 and k == n // 2) else (b'id: %d\n' % k + (b'extra: %d\n' % k if k else b''))) + (b'binary: 2\nXY\n' if (n >= 3 and k == n - 1) else b'') + b'list_OK\n'
        body += b'OK\n'
        t = Transport(list(b'OK MPD 0.23.5\n' + body), cuts=[14], eof=True)
        r = I.call_repo('mpd_protocol::connection::%s::<%s>::connect' % (conn_ty, T), [t])
        if flav == 'async':
            r = drive(I, r)
        conn = ValLoc(r.fields[0])
        x = I.call_repo('mpd_protocol::connection::%s::<%s>::receive' % (conn_ty, T), [Ref(conn)])
        if flav == 'async':
            x = drive(I, x)
        if x.variant != 'Ok' or x.fields[0].variant != 'Some':
            return None, None
        resp = x.fields[0].fields[0]
        frames = list(resp.field('frames').v)
        return frames, resp.field('error').variant
    for pr in explore(P, harness):
        res.paths += 1
        rec = {'kind': 'wire', 'n': n, 'flav': flav}
        if pr.kind == 'panic':
            res.violations.append({'what': 'decoding the list reply panics: ' + pr.error.msg, 'input': rec}); continue
        frames, errv = pr.value
        bad = None
        if frames is None or errv != 'None' or len(frames) != n:
            bad = 'the reply to %d commands is decoded into %s frames' % (n, None if frames is None else len(frames))
        else:
            for k, f in enumerate(frames):
                fields = [(bytes(kk.b), bytes(vv.b)) for kk, vv in (e.fields[0].items for e in f.fields[0].fields[0].v if e.variant == 'Some')]
                want = [] if (n >= 3 and k == n // 2) else ([(b'id', b'%d' % k)] + ([(b'extra', b'%d' % k)] if k else []))
                if fields != want:
                    bad = 'frame %d of the list reply holds %r, the server produced %r for command %d' % (k, fields, want, k); break
        res.cls('wire n=%d' % min(n, 3), nontrivial=True)
        if bad:
            res.violations.append({'what': bad, 'input': rec})
        else:
            res.xval_path('wire', replay, lambda: rec)
        if len(res.samples) < 1:
            res.samples.append({'wire': flav, 'n': n, 'frames': None if frames is None else len(frames)})
        res.take_stats(pr.ctx.stats); pr.ctx.stats.__init__()

def run_typed(P, res, payload):
    n = payload['n']; kind = payload['kind']
    def harness(I):
        I.world = []
        cmds = [HCmd(k) for k in range(n)]
        if kind == 'tuple':
            ty = '(' + ', '.join('HCmd' for _ in range(n)) + (',)' if n == 1 else ')')
            val = Tup(cmds)
        else:
            ty = 'Vec<HCmd>'
            val = VecObj(cmds)
        lst = I.call_repo('<%s as mpd_client::commands::CommandList>::command_list' % ty, [ref_to(val)])
        wire = None
        if lst.variant == 'Some':
            wire = list(I.call_repo('mpd_protocol::CommandList::render', [lst.fields[0]]).b)
        frames = [mk_frame(k) for k in range(n)]
        r = I.call_repo('<%s as mpd_client::commands::CommandList>::responses' % ty, [val, VecObj(frames)])
        return wire, r, list(I.world)
    for pr in explore(P, harness):
        res.paths += 1
        ctx = pr.ctx
        rec = {'kind': kind, 'n': n}
        if pr.kind == 'panic':
            res.violations.append({'what': 'typed list panics: ' + pr.error.msg, 'input': rec})
            continue
        wire, r, world = pr.value
        bad = None
        want = None if n == 0 else expected_wire([[ord('c'), 97 + k] for k in range(n)])
        if wire != want:
            bad = 'typed %s list of %d commands is written as %r' % (kind, n, bytes(wire) if wire is not None else None)
        failed = [w for w in world if w[0] == 'failed']
        world = [w for w in world if w[0] == 'response']
        if r.variant != 'Ok' and not failed:
            bad = 'typed %s list of %d commands given %d well-formed frames fails although every response conversion succeeded' % (kind, n, n)
        # pairing: the k-th response conversion that ran was given frame k, in order
        for j, (_, k, f) in enumerate(world):
            if k != j or frame_id(f) != k:
                bad = 'response of command %d was decoded from frame %d (call %d)' % (k, frame_id(f), j)
        if r.variant == 'Ok':
            items = r.fields[0].items if kind == 'tuple' else r.fields[0].v
            if len(items) != n or len(world) != n:
                bad = 'typed list of %d commands yields %d responses' % (n, len(items))
            for i, it in enumerate(items):
                if it.items[0] != i or frame_id(it.items[1]) != i:
                    bad = 'response %d is the response of command %d from frame %d' % (i, it.items[0], frame_id(it.items[1]))
            res.cls('%s all ok' % kind, nontrivial=n >= 2)
        else:
            res.cls('%s error propagated' % kind, nontrivial=True)
        if bad:
            res.violations.append({'what': bad, 'input': rec})
        elif not failed:
            res.xval_path('typed ' + r.variant, replay, lambda: rec)
        if len(res.samples) < 1:
            res.samples.append({'typed': kind, 'n': n, 'wire': bytes(wire).decode() if wire else None, 'result': r.variant,
                                'conversions': [(k, frame_id(f)) for _, k, f in world]})
        res.take_stats(ctx.stats); ctx.stats.__init__()

# ---------------------------------------------------------------------------- native replay
def replay(rec):
    inp = rec.get('input') or rec
    if 'scenario' in inp:
        from props import clientgroup as CG
        return CG.replay_for(PROP, rec)
    if inp['kind'] == 'wire':
        n = inp['n']
        body = b''
        for k in range(n):
            body += (b'' if (n >= 3 and k == n // 2) else (b'id: %d\n' % k + (b'extra: %d\n' % k if k else b''))) + (b'binary: 2\nXY\n' if (n >= 3 and k == n - 1) else b'') + b'list_OK\n'
        body += b'OK\n'
        out = run_replay(['recv', inp['flav'], hexs(b'OK MPD 0.23.5\n' + body), '1', '14'], small=True)
        if 'panic' in out:
            return True, 'native run panics'
        frames = out.get('frame', [])
        want = []
        for k in range(n):
            fs = [] if (n >= 3 and k == n // 2) else ([(b'id', b'%d' % k)] + ([(b'extra', b'%d' % k)] if k else []))
            want.append(','.join('%s:%s' % (hexs(a), hexs(b)) for a, b in fs) + ('|5859' if (n >= 3 and k == n - 1) else '|none'))
        return frames != want, 'native frames %s, the server produced %s' % (frames, want)
    if inp['kind'] == 'shorthand':
        n = inp['n']
        body, want = list_reply(n)
        cut = body.index(b'\n') + 1 + (8 if n > 1 else 0)
        args = ['shorthand', inp['flav'], str(n), hexs(b'OK MPD 0.23.5\n' + body), '14', str(14 + min(cut, len(body) - 1))]
        if inp.get('interrupt'):
            args.append('i%d' % (inp['interrupt'] - 1))
        out = run_replay(args, small=inp['flav'] == 'sync')
        if 'panic' in out:
            return True, 'native run panics'
        wire = unhex(out['wire'][0]) if 'wire' in out else None
        if wire != bytes(expected_wire([[ord('c'), 97 + k] for k in range(n)])):
            return True, 'native: the request was written as %r' % wire
        kinds = out.get('out', [])
        if kinds and kinds[0].startswith('response'):
            wantf = [','.join('%s:%s' % (hexs(a), hexs(b)) for a, b in fs) + ('|5859' if (n >= 3 and k == n - 1) else '|none') for k, fs in enumerate(want)]
            return (out.get('frame', []) != wantf or 'error' in out), 'native frames %s, the server produced %s' % (out.get('frame', []), wantf)
        return (not inp.get('interrupt')), 'native: the call fails with %s' % kinds
    if inp['kind'] == 'send':
        n = inp['n']
        names = [b'c' + bytes([97 + k]) for k in range(n)]
        args = ['sendlist', inp['flav'], str(inp.get('max_write') or 0), str(n)]
        for nm in names:
            args += [hexs(nm), '0']
        if inp.get('single'):
            args.append('single')
        out = run_replay(args)
        if 'panic' in out:
            return True, 'native run panics'
        wire = unhex(out['wire'][0])
        want = bytes(expected_wire([list(nm) for nm in names]))
        return (wire != want or out.get('send') != ['ok']), 'native: transport received %r, send=%s' % (wire, out.get('send'))
    if inp['kind'] == 'raw':
        if inp.get('cmds') is None:
            return False, 'no concrete input'
        # natively the commands are built through the public API, so their bytes must be valid names: map every command to a
        # distinct valid name of the same shape (rendering does not look at the bytes)
        n = inp['n']
        names = [b'c' + bytes([97 + k]) for k in range(n)]
        args = ['list', str(n)]
        for nm in names:
            args += [hexs(nm), '0']
        out = run_replay(args)
        if 'panic' in out:
            return True, 'native run panics'
        wire = unhex(out['wire'][0])
        want = bytes(expected_wire([list(nm) for nm in names]))
        return wire != want, 'native wire %r' % wire
    out = run_replay(['typed', inp['kind'], str(inp['n'])])
    if 'panic' in out:
        return True, 'native run panics: ' + unhex(out['panic'][0]).decode('utf-8', 'replace')
    n = inp['n']
    want = None if n == 0 else bytes(expected_wire([[ord('c'), 97 + k] for k in range(n)]))
    wire = unhex(out['wire'][0]) if 'wire' in out else None
    pairs = out.get('pair', [])
    okp = pairs == ['%d:%d' % (k, k) for k in range(n)]
    return (wire != want or not okp), 'native wire %r pairs %s' % (wire, pairs)

DESCR = {}
REQUIRED_CLASSES = ['schedule with request', 'shorthand Ok', 'shorthand Err', 'wire n=2', 'wire n=3', 'sent n=1', 'sent n=2', 'raw n=1', 'raw n=2', 'raw n>=3', 'tuple all ok', 'vec all ok', 'vec error propagated']
EXPLANATION = ('Bounded symbolic execution of the real MIR of list building/rendering (command bytes symbolic; the rendered stream is compared '
               'with the specified framing by z3) and of the typed list impls for Vec<C> and all eight tuple arities with a harness command type '
               'whose response conversions succeed or fail symbolically (pairing command k <-> frame k asserted on every path); '
               'violations are replayed natively')
ASSUMPTIONS = ['frame count equals command count (other counts are the subject of C12)',
               'the harness command type stands for any Command impl: request c<k>, response = (k, frame)',
               'client scenarios: the models and scheduler of the client properties (see C01)',
               'library models: Vec push/pop/len/iter/into_iter/extend/with_capacity, Iterator map/next/zip/sum, BytesMut with_capacity/put_slice/put_u8, Option/Result Try']
RULE = 'one evaluation = one feasible path of one instance (list size x builder, or typed list shape); non-trivial = two or more commands or an error path'
