"""Shared by C12 / C14 / C16: abstract replies -> Frame values (as the real ResponseBuilder builds them), value kinds,
entry points (typed commands), wire encoding of a concrete reply for the native replay."""
import decimal
import z3
from values import *
from engine import model_bytes
from props.c20 import tag_value

# ---------------------------------------------------------------------------- frames
def mk_frame(fields, binary=None):
    """fields: list of (key items, value items)"""
    from models_core import text_items
    fs = [some(Tup([StrBuf(text_items(None, k), 'Arc<str>'), StrBuf(text_items(None, v))])) for k, v in fields]
    fc = Adt('FieldsContainer', None, 0, [VecObj(fs)])
    return Adt('Frame', None, 0, [fc, some(ByteBuf(list(binary))) if binary is not None else none()], ['fields', 'binary'])

# ---------------------------------------------------------------------------- value kinds
def v_dec(I, name, bits=72):
    """decimal number of any magnitude below 2^bits"""
    return [DecRun(I.ctx.fresh_bv(name, bits), bits)]

def v_float(I, name):
    """plain decimal text (at most 40 bytes) of any non-negative finite f64"""
    f = z3.Real('%s!%d' % (name, I.ctx.nfresh)); I.ctx.nfresh += 1
    I.ctx.assume(f >= 0)
    I.ctx.assume(f <= z3.RealVal(2) ** 1000)
    ln = I.ctx.fresh_bv(name + '_len', 64)
    I.ctx.assume(z3.And(z3.UGE(ln, 1), z3.ULE(ln, 40)))          # the text is at most 40 bytes long (stated in the bounds)
    return [FloatLit(f, ln)]

def v_sym(I, name, n):
    out = []
    for i in range(n):
        b = I.ctx.fresh_bv('%s_%d' % (name, i), 8)
        I.ctx.assume(z3.And(z3.ULT(b, 0x80), b != 10))
        out.append(b)
    return out

def key_sym(I, name, n):
    """field name of n symbolic bytes from the alphabet the protocol layer accepts ([A-Za-z_-])"""
    out = []
    for i in range(n):
        b = I.ctx.fresh_bv('%s_%d' % (name, i), 8)
        I.ctx.assume(z3.Or(z3.And(z3.UGE(b, 65), z3.ULE(b, 90)), z3.And(z3.UGE(b, 97), z3.ULE(b, 122)), b == 95, b == 45))
        out.append(b)
    return out

def choose_value(I, name, menu):
    """symbolic choice among value generators: each entry is bytes / str (concrete) or a callable(I, name)"""
    k = I.ctx.choose(len(menu), name + '_kind')
    m = menu[k]
    if callable(m):
        return m(I, name)
    if isinstance(m, str):
        m = m.encode()
    return list(m)

NUM = [lambda I, n: v_dec(I, n), b'', b'-1', b'+5', lambda I, n: v_sym(I, n, 1)]
FLT = [lambda I, n: v_float(I, n), lambda I, n: v_dec(I, n), b'', b'-1', b'NaN', b'inf', b'1e400', b'1.5', lambda I, n: v_sym(I, n, 1)]
TXT = [b'v', b'', lambda I, n: v_sym(I, n, 2)]
BOOL = [b'0', b'1', b'2', b'', lambda I, n: v_sym(I, n, 1)]

# ---------------------------------------------------------------------------- wire
def float_text(f):
    d = decimal.Decimal(f)
    s = format(d, 'f')
    return s if '.' in s else s + '.0'

def concrete_items(m, items):
    out = bytearray()
    for x in items:
        if isinstance(x, DecRun):
            if x.as_float is not None and m.eval(z3.UGE(x.val, 1 << 53), model_completion=True):
                out += str(int(real_to_float(m.eval(x.as_float, model_completion=True)))).encode()
            else:
                out += str(m.eval(x.val, model_completion=True).as_long()).encode()
        elif isinstance(x, FloatLit):
            v = m.eval(x.val, model_completion=True)
            out += float_text(real_to_float(v)).encode()
        else:
            out += model_bytes(m, [x])
    return bytes(out)

def real_to_float(v):
    from fractions import Fraction
    if z3.is_rational_value(v):
        return float(Fraction(v.numerator_as_long(), v.denominator_as_long()))
    return float(v.approx(30).as_fraction()) if hasattr(v, 'approx') else 0.0

def fp_to_float(v):
    import struct
    if z3.is_fp_value(v) if hasattr(z3, 'is_fp_value') else True:
        try:
            if v.isNaN():
                return float('nan')
            if v.isInf():
                return float('-inf') if v.isNegative() else float('inf')
            if v.isZero():
                return 0.0
        except Exception:
            pass
    bvv = z3.simplify(z3.fpToIEEEBV(v))
    return struct.unpack('<d', struct.pack('<Q', bvv.as_long()))[0]

def wire_of(m, fields, binary=None):
    out = bytearray()
    for k, v in fields:
        out += concrete_items(m, k) + b': ' + concrete_items(m, v) + b'\n'
    if binary is not None:
        out += b'binary: %d\n' % len(binary) + bytes(binary) + b'\n'
    return bytes(out + b'OK\n')

# ---------------------------------------------------------------------------- entries: typed commands and their reply field names
CMD = 'mpd_client::commands::definitions::'
TR = 'mpd_client::commands::Command'

def unit(name):
    return lambda I, P: Adt('definitions::' + name if name in __import__('rtypes').AMBIG else name, None, 0, [])

def cmd_list(n):
    def mk(I, P):
        l = I.call_repo(CMD + 'List::<0>::new', [tag_value(P, 'Artist')])
        if n == 1:
            l = I.call_repo(CMD + 'List::<0>::group_by::<1>', [l, Array([tag_value(P, 'Album')])])
        elif n == 2:
            l = I.call_repo(CMD + 'List::<0>::group_by::<2>', [l, Array([tag_value(P, 'Album'), tag_value(P, 'Date')])])
        return l
    return mk

def cmd_filtered(name):
    def mk(I, P):
        f = I.call_repo('mpd_client::filter::Filter::tag::<&str>', [tag_value(P, 'Artist'), str_ref(b'x')])
        c = I.call_repo(CMD + name + '::new', [f])
        return c
    return mk

def cmd_count_grouped(I, P):
    f = I.call_repo('mpd_client::filter::Filter::tag::<&str>', [tag_value(P, 'Artist'), str_ref(b'x')])
    c = I.call_repo(CMD + 'Count::new', [f])
    return I.call_repo(CMD + 'Count::group_by', [c, tag_value(P, 'Artist')])

def cmd_ctor(path, *args):
    return lambda I, P: I.call_repo(CMD + path, [a(I, P) if callable(a) else a for a in args])

# name -> (command type path for <T as Command>::response, constructor)
ENTRIES = {
    'Status': ('Status', unit('Status')),
    'Stats': ('Stats', unit('Stats')),
    'ReplayGainStatus': ('ReplayGainStatus', unit('ReplayGainStatus')),
    'Count': ('Count', cmd_filtered('Count')),
    'CountGrouped': ('CountGrouped', cmd_count_grouped),
    'List0': ('List<0>', cmd_list(0)),
    'List1': ('List<1>', cmd_list(1)),
    'List2': ('List<2>', cmd_list(2)),
    'GetPlaylists': ('GetPlaylists', unit('GetPlaylists')),
    'TagTypes': ('GetEnabledTagTypes', unit('GetEnabledTagTypes')),
    'Queue': ('Queue', cmd_ctor('Queue::all')),
    'CurrentSong': ('CurrentSong', unit('CurrentSong')),
    'Find': ('Find', cmd_filtered('Find')),
    'GetPlaylist': ("GetPlaylist<'_>", lambda I, P: Adt('GetPlaylist', None, 0, [str_ref(b'p')])),
    'ListAllIn': ("ListAllIn<'_>", cmd_ctor('ListAllIn::root')),
    'StickerGet': ("StickerGet<'_>", cmd_ctor('StickerGet::new', str_ref(b'u'), str_ref(b'n'))),
    'StickerList': ("StickerList<'_>", cmd_ctor('StickerList::new', str_ref(b'u'))),
    'StickerFind': ("StickerFind<'_>", cmd_ctor('StickerFind::new', str_ref(b'u'), str_ref(b'n'))),
    'AlbumArt': ("AlbumArt<'_>", cmd_ctor('AlbumArt::new', str_ref(b'u'))),
    'AlbumArtEmbedded': ("AlbumArtEmbedded<'_>", cmd_ctor('AlbumArtEmbedded::new', str_ref(b'u'))),
    'Add': ("Add<'_>", cmd_ctor('Add::uri', str_ref(b'u'))),
    'Update': ("Update<'_>", cmd_ctor('Update::new')),
    'Rescan': ("Rescan<'_>", cmd_ctor('Rescan::new')),
    'ReadChannelMessages': ('ReadChannelMessages', unit('ReadChannelMessages')),
    'ListChannels': ('ListChannels', unit('ListChannels')),
}

def respond(I, P, entry, frame):
    ty, ctor = ENTRIES[entry]
    cmd = ctor(I, P)
    return I.call_repo('<%s%s as %s>::response' % (CMD, ty, TR), [cmd, frame])
