"""Shared by C01 / C04 / C05 / C08 / C17 / C18(password): the real client (Client::connect*, do_connect, run_loop,
run_loop_iteration, handle_command, handle_idle_response, Client::{do_send, raw_command, raw_command_list, command,
command_list, album_art, is_connection_closed}, ConnectionEvents::next - all as the compiler's coroutine state machines,
on top of the real AsyncConnection / ResponseBuilder / parser) driven by an explicit scheduler against a simulated MPD
server with a protocol monitor.  Scheduling decisions are symbolic choices (one feasible path = one schedule)."""
import z3
from values import *
import engine
from models_io import Transport, poll_value, CX, PyFuture
from models_tokio import world, World, USender, UReceiver
from props.conn_common import norm_response, set_cap
from models_core import as_items, deref

GREETING = b'OK MPD 0.23.5\n'

class Server:
    """simulated MPD: idle rules, replies that identify the request, change notifications, protocol monitor"""
    def __init__(self, t):
        self.t = t
        self.buf = []
        self.idle = False
        self.pending_changes = []
        self.lines = []              # every request line received, in order
        self.violations = []
        self.changed_written = []    # subsystem names written in 'changed:' lines, in order
        self.in_list = None
        self.requests = []           # (kind, ids) of every answered request in order
        self.password = None         # expected password reply: 'OK' | 'ACK' | 'close' | 'garbage'
        self.closed = False
        self.art = None              # album art store: dict
        self.multi_changed = False
        self.idle_reply_open_at = None
        self.custom = None
        self.noidle_inside_idle_reply = False
        self.known_lines = None
        self.barriers = []           # absolute stream offsets at which a delivery ends even without a line feed
        self.ack_next_idle = False
        self.idle_acked = False
        t.on_write = self.on_write
    def send(self, data):
        self.t.stream.extend(data)
    def on_write(self, I, t, data):
        for b in data:
            if b == 10:
                line = bytes(self.buf); self.buf = []
                self.handle(line)
            else:
                self.buf.append(b)
    def change(self, name):
        """a subsystem changes on the server"""
        if self.idle:
            self.idle = False
            self.changed_written.append(name)
            self.send(b'changed: ' + name + b'\nOK\n')
        else:
            if name not in self.pending_changes:
                self.pending_changes.append(name)
    def handle(self, line):
        self.lines.append(line)
        undelivered = self.t.pos < len(self.t.stream)
        if line == b'idle' and self.ack_next_idle:
            # the server refuses this idle (e.g. a permission error): an error response, no idling
            self.ack_next_idle = False
            self.idle_acked = True
            self.send(b'ACK [4@0] {idle} you do not have permission for idle\n')
            return
        if line == b'idle':
            if self.idle:
                self.violations.append('idle while already idling')
            if undelivered and self.in_list is None:
                self.violations.append('request written before the previous reply was consumed: idle')
            if self.pending_changes:
                if len(self.pending_changes) > 1:
                    self.multi_changed = True
                for n in self.pending_changes:
                    self.changed_written.append(n)
                    self.send(b'changed: ' + n + b'\n')
                self.send(b'OK\n')
                self.pending_changes = []
            else:
                self.idle = True
            return
        if line == b'noidle':
            if self.idle_reply_partial():
                self.noidle_inside_idle_reply = True
            if self.idle:
                self.idle = False
                self.send(b'OK\n')
            # outside idle: ignored without a reply
            return
        if self.idle:
            self.violations.append('%r written while the server is idling' % line)
            return
        if self.known_lines is not None and line not in self.known_lines and not line.startswith((b'password', b'readpicture', b'albumart')):
            self.violations.append('%r is not a request any caller issued (torn or merged request lines)' % line)
        if undelivered and self.in_list is None and line != b'command_list_end':
            self.violations.append('request %r written before the previous reply was consumed' % line)
        if line.startswith(b'password'):
            v = self.password or 'OK'
            if v == 'OK': self.send(b'OK\n')
            elif v == 'ACK': self.send(b'ACK [3@0] {password} incorrect password\n')
            elif v == 'ACKempty': self.send(b'ACK [3@0] {password} \n')                     # any error response is the verdict "incorrect", also one without text
            elif v == 'ACKperm': self.send(b'ACK [4@0] {} you don\'t have permission for "password"\n')
            elif v == 'listACK': self.send(b'list_OK\nACK [3@1] {password} incorrect password\n')       # an error response that carries a frame before the error
            elif v == 'garbage': self.send(b'\x01\x02\n')
            elif v == 'close': self.closed = True; self.t.eof = True
            return
        if line == b'command_list_ok_begin':
            self.in_list = []
            return
        if line == b'command_list_end':
            cmds = self.in_list or []
            self.in_list = None
            ids = []
            for k, c in enumerate(cmds):
                if c.startswith(b'p'):
                    self.send(b'file: x\nTitle: y\nACK [50@%d] {%s} failed half-way\n' % (k, c.split()[0]))
                    self.requests.append(('list', cmds, k))
                    return
                if c.startswith(b'f'):
                    self.send(b'ACK [5@%d] {%s} failing\n' % (k, c.split()[0]))
                    self.requests.append(('list', cmds, k))
                    return
                self.send(b'id: ' + c + (b'\nbinary: 2\nXY' if c.startswith(b'b') else b'') + b'\nlist_OK\n')
            self.send(b'OK\n')
            self.requests.append(('list', cmds, None))
            return
        if self.in_list is not None:
            self.in_list.append(line)
            return
        if self.custom is not None:
            r = self.custom(self, line)
            if r is not None:
                self.send(r)
                self.requests.append(('cmd', [line], None))
                return
        if line.startswith(b'p'):
            self.send(b'file: x\nTitle: y\nACK [50@0] {%s} failed half-way\n' % line.split()[0])
        elif line.startswith(b'f'):
            self.send(b'ACK [5@0] {%s} failing\n' % line.split()[0])
        else:
            self.send(b'id: ' + line + (b'\nbinary: 2\nXY' if line.startswith(b'b') else b'') + b'\nOK\n')
        self.requests.append(('cmd', [line], None))

class Caller:
    def __init__(self, idx, script):
        self.idx = idx; self.script = list(script); self.next = 0
        self.fut = None; self.dirty = True; self.current = None
        self.results = []            # (request, outcome)
        self.cancelled = []
        self.client = None

class Session:
    """one client session under construction; methods are the scheduler's actions"""
    def __init__(self, I, P, callers, deliver='lines', password=None):
        self.I = I; self.P = P
        I.world = World()
        self.t = Transport(list(GREETING), [], eof=False)
        self.t.limit = len(GREETING)
        self.server = Server(self.t)
        self.deliver_mode = deliver
        self.loop = None; self.loop_done = False; self.loop_dirty = True
        self.callers = [Caller(i, s) for i, s in enumerate(callers)]
        kl = {b'command_list_ok_begin', b'command_list_end'}
        for sc in callers:
            for req in sc:
                if req[0] == 'cmd': kl.add(req[1])
                elif req[0] == 'list': kl.update(req[1])
        self.server.known_lines = kl
        self.events = []; self.events_done = False
        self.client = None; self.ev_rx = None
        self.connect_result = None
        self.clients = []
        self.steps = []
        self.password = password
        self.partial_idle_then_request = False
        self.flags = set()

    # ---- connect
    def connect(self):
        I = self.I
        entry = getattr(self, 'connect_entry', None)
        if entry == 'opt':
            pw = none() if self.password is None else some(str_ref(self.password))
            fut = I.call_repo('mpd_client::client::Client::connect_with_password_opt::<Transport>', [self.t, pw])
        elif self.password is None:
            fut = I.call_repo('mpd_client::client::Client::connect::<Transport>', [self.t])
        else:
            fut = I.call_repo('mpd_client::client::Client::connect_with_password::<Transport>', [self.t, str_ref(self.password)])
        for _ in range(40):
            self.t.limit = len(self.t.stream)
            r = poll_value(I, fut, CX)
            if r.variant == 'Ready':
                break
        else:
            if getattr(self, 'connect_may_hang', False):
                return None                 # (the password families judge a handshake that never completes themselves)
            raise InternalError('connect does not finish')
        res = r.fields[0]
        self.connect_result = res
        if res.variant == 'Ok':
            client, events = res.fields[0].items
            self.client = client; self.ev_rx = events
            self.clients = [client]
            for c in self.callers:
                c.client = client
            w = world(I)
            if w.spawned:
                self.loop = w.spawned.pop(0)
        self.t.limit = self.t.pos if self.deliver_mode != 'eager' else None
        self.mark_dirty()
        return res

    def queue_len(self):
        c = self.clients[0] if self.clients else None
        for x in ([c] if c is not None else []):
            snd = x.fields[0]
            return len(snd.ch.queue)
        return getattr(self, '_last_qlen', 0)

    def mark_dirty(self):
        self.loop_dirty = True
        for c in self.callers:
            c.dirty = True

    # ---- actions
    def poll_loop(self):
        if self.loop is None or self.loop_done:
            return
        before = (len(self.t.out), self.t.pos, len(world(self.I).spawned))
        qlen = self.queue_len()
        was_partial = self.server.idle_reply_partial()
        r = poll_value(self.I, self.loop, CX)
        self.loop_dirty = False
        if r.variant == 'Ready':
            self.loop_done = True
            self.I.drop_value(self.loop)      # the task's future is dropped when it completes
        if (was_partial or self.server.idle_reply_partial()) and (self.queue_len() < qlen or self.loop_done):
            # the loop took a request from the queue (or ended) although it had consumed a changed: line of an idle reply
            # whose OK it has not consumed: the receive future holding that line was dropped
            self.flags.add('idle_reply_dropped')
        for c in self.callers:
            c.dirty = True
        self.steps.append('loop')

    def issue(self, i):
        c = self.callers[i]
        req = c.script[c.next]; c.next += 1
        c.current = req
        I = self.I
        if req[0] == 'cmd':
            cmd = I.call_repo('mpd_protocol::Command::new', [str_ref(req[1])])
            c.fut = I.call_repo('mpd_client::client::Client::raw_command', [ref_to(c.client), cmd])
        elif req[0] == 'list':
            lst = None
            for nm in req[1]:
                cmd = I.call_repo('mpd_protocol::Command::new', [str_ref(nm)])
                if lst is None:
                    lst = I.call_repo('mpd_protocol::CommandList::new', [cmd])
                else:
                    lst = I.call_repo('mpd_protocol::CommandList::command', [lst, cmd])
            c.fut = I.call_repo('mpd_client::client::Client::raw_command_list', [ref_to(c.client), lst])
        elif req[0] == 'typed':
            # a typed command list (Vec of harness commands c<k>) through Client::command_list
            from props.c13 import HCmd
            cmds = []
            for k, nm in enumerate(req[1]):
                assert nm == bytes([ord('c'), 97 + k])
                h = HCmd(k); h.nofail = True
                cmds.append(h)
            c.fut = I.call_repo('mpd_client::client::Client::command_list::<Vec<HCmd>>', [ref_to(c.client), VecObj(cmds)])
        elif req[0] == 'art':
            c.fut = I.call_repo('mpd_client::client::Client::album_art', [ref_to(c.client), str_ref(req[1])])
        else:
            raise KeyError(req[0])
        if self.server.idle_reply_partial():
            self.flags.add('partial_idle_then_request')
        self.steps.append('issue%d' % i)
        self.poll_caller(i, log=False)          # a request is sent on the first poll of its future
        self.loop_dirty = True

    def poll_caller(self, i, log=True):
        c = self.callers[i]
        if c.fut is None:
            return
        r = poll_value(self.I, c.fut, CX)
        c.dirty = False
        if r.variant == 'Ready':
            c.results.append((c.current, r.fields[0]))
            c.fut = None; c.current = None
        if log:
            self.steps.append('poll%d' % i)
        self.loop_dirty = True

    def cancel(self, i):
        c = self.callers[i]
        self.I.drop_value(c.fut)
        c.cancelled.append(c.current)
        c.fut = None; c.current = None
        self.loop_dirty = True
        self.steps.append('cancel%d' % i)

    def undelivered(self):
        lim = self.t.limit if self.t.limit is not None else len(self.t.stream)
        return len(self.t.stream) - lim

    def deliver(self, partial=False, cut=None):
        """release the next line (or the first half of it, or its first `cut` bytes) of server output to the client"""
        t = self.t
        lim = t.limit
        rest = t.stream[lim:]
        if not rest:
            return
        try:
            e = rest.index(10) + 1
        except ValueError:
            e = len(rest)
        if partial and e > 1:
            e = max(1, e // 2)
        if cut is not None:
            e = max(1, min(e, cut))
        for b in list(self.server.barriers):
            if lim < b < lim + e:
                e = b - lim
                self.server.barriers.remove(b)
                break
        t.limit = lim + e
        self.mark_dirty()
        self.steps.append('deliver%s' % ('/2' if partial else ('@%d' % cut if cut is not None else '')))

    def change(self, name):
        self.server.change(name)
        self.mark_dirty()
        self.steps.append('change:' + name.decode())

    def tick(self):
        world(self.I).clock += 150
        self.mark_dirty()
        self.steps.append('tick')

    def longtick(self):
        world(self.I).clock += 60_000
        self.mark_dirty()
        self.steps.append('longtick')

    def drop_events(self):
        """the user drops the ConnectionEvents receiver (allowed by the API)"""
        if self.ev_rx is not None:
            self.I.drop_value(self.ev_rx)
            self.ev_rx = None
        self.mark_dirty()
        self.steps.append('dropevents')

    def drop_client(self, k=0):
        c = self.clients.pop(k)
        self.I.drop_value(c)
        self.mark_dirty()
        self.steps.append('dropclient')

    def clone_client(self):
        c = self.I.call_path('<mpd_client::client::Client as Clone>::clone', [ref_to(self.clients[0])])
        self.clients.append(c)
        return c

    def fault(self, kind):
        t = self.t
        if kind == 'eof':
            lim = t.limit if t.limit is not None else len(t.stream)
            delivered = list(t.stream[len(GREETING):lim])
            # the stream is cut inside a reply iff the reference decoder says the delivered bytes end inside a response
            from oracles import line_grammar as G
            from oracles.mpd_tokenizer import ConcreteDecider
            _, status, _ = G.decode(ConcreteDecider(), delivered)
            if status == 'partial':
                self.flags.add('eof_inside_reply')
            t.stream = t.stream[:lim]
            t.eof = True
        elif kind == 'read_error':
            t.fail_read_at = t.pos
        elif kind == 'write_error':
            t.fail_write_at = len(t.writes)
        elif kind == 'idleack':
            self.server.ack_next_idle = True
        elif kind == 'garbage':
            lim = t.limit if t.limit is not None else len(t.stream)
            t.stream[lim:lim] = list(b'\x01 junk\n')
        self.mark_dirty()
        self.flags.add('fault:' + kind)
        self.steps.append('fault:' + kind)

    def drain_events(self, limit=400):
        """poll ConnectionEvents::next until pending / closed"""
        I = self.I
        if self.ev_rx is None or self.events_done:
            return
        for _ in range(limit):
            fut = I.call_repo('mpd_client::client::ConnectionEvents::next', [ref_to(self.ev_rx)])
            r = poll_value(I, fut, CX)
            if r.variant != 'Ready':
                I.drop_value(fut)
                return
            o = r.fields[0]
            if o.variant == 'None':
                self.events_done = True
                self.events.append(('end',))
                return
            e = o.fields[0]
            if e.variant == 'SubsystemChange':
                name = I.call_repo('mpd_client::client::Subsystem::as_str', [ref_to(e.fields[0])])
                self.events.append(('change', bytes(name.items())))
            else:
                self.events.append(('closed', e.fields[0]))

    # ---- free scheduling
    def enabled(self, budget):
        acts = []
        if self.loop is not None and not self.loop_done and self.loop_dirty:
            acts.append(('loop',))
        for c in self.callers:
            if c.fut is None and c.next < len(c.script) and c.client is not None:
                acts.append(('issue', c.idx))
            if c.fut is not None and c.dirty:
                acts.append(('poll', c.idx))
            if c.fut is not None and budget.get('cancel', 0) > 0:
                acts.append(('cancel', c.idx))
        if self.undelivered() > 0:
            acts.append(('deliver',))
            if budget.get('partial', 0) > 0:
                acts.append(('deliver2',))
            if budget.get('cutat', 0) > 0:
                rest = self.t.stream[self.t.limit:]
                try:
                    ln = rest.index(10) + 1
                except ValueError:
                    ln = len(rest)
                for n in range(1, ln):
                    acts.append(('cutat', n))
        if budget.get('dropevents', 0) > 0 and self.ev_rx is not None:
            acts.append(('dropevents',))
        if budget.get('change', 0) > 0:
            acts.append(('change',))
        if budget.get('tick', 0) > 0:
            acts.append(('tick',))
        if budget.get('longtick', 0) > 0:
            acts.append(('longtick',))
        if budget.get('slowwrite', 0) > 0 and self.t.write_budget is None:
            acts.append(('slowwrite',))
        if self.t.write_budget is not None and self.t.write_budget == 0:
            acts.append(('unblock',))
        for f in budget.get('faults', []):
            acts.append(('fault', f))
        if budget.get('dropclient', 0) > 0 and self.clients:
            acts.append(('dropclient',))
        return acts

    def do(self, act, budget):
        k = act[0]
        if k == 'loop': self.poll_loop()
        elif k == 'issue': self.issue(act[1])
        elif k == 'poll': self.poll_caller(act[1])
        elif k == 'cancel': budget['cancel'] -= 1; self.cancel(act[1])
        elif k == 'deliver': self.deliver()
        elif k == 'deliver2': budget['partial'] -= 1; self.deliver(partial=True)
        elif k == 'cutat': budget['cutat'] -= 1; self.deliver(cut=act[1])
        elif k == 'dropevents': budget['dropevents'] -= 1; self.drop_events()
        elif k == 'change':
            names = budget.get('names', [b'player', b'mixer', b'foo'])
            n = names[budget.get('nchanged', 0) % len(names)]
            if isinstance(n, str):
                n = n.encode('latin1')
            budget['nchanged'] = budget.get('nchanged', 0) + 1
            budget['change'] -= 1; self.change(n)
        elif k == 'tick': budget['tick'] -= 1; self.tick()
        elif k == 'longtick': budget['longtick'] -= 1; self.longtick()
        elif k == 'slowwrite':
            budget['slowwrite'] -= 1
            self.t.write_budget = 1; self.steps.append('slowwrite')
        elif k == 'unblock':
            self.t.write_budget = None; self.mark_dirty(); self.steps.append('unblock')
        elif k == 'fault': budget['faults'] = []; self.fault(act[1])
        elif k == 'dropclient':
            budget['dropclient'] -= 1
            self.drop_client()
            if not self.clients:
                for c in self.callers:
                    c.client = None

    def free_steps(self, k, budget):
        self.free_from = len(self.steps)
        try:
            self._free_steps(k, budget)
        finally:
            self.free_to = len(self.steps)

    def _free_steps(self, k, budget):
        for s in range(k):
            acts = self.enabled(budget)
            if not acts:
                break
            a = acts[self.I.ctx.choose(len(acts), 'step%d' % s)]
            self.do(a, budget)

    def settle(self, rounds=12, tick=True):
        """deterministic run to quiescence: deliver everything, poll everything, let the re-idle timer expire"""
        ticked = 0
        if self.t.write_budget is not None:
            # a blocked write stays blocked for one more round of polls (so that a timer can fire while it is blocked)
            if self.loop is not None and not self.loop_done and self.loop_dirty:
                self.poll_loop()
            self.t.write_budget = None; self.mark_dirty(); self.steps.append('unblock')
        step = getattr(self, 'step_deliver', False)          # deliver one segment, then let everything run (instead of draining)
        if step:
            rounds = max(rounds, 60)
        for r in range(rounds):
            progress = False
            while self.undelivered() > 0:
                self.deliver(); progress = True
                if step:
                    break
            for _ in range(6):
                moved = False
                if self.loop is not None and not self.loop_done and self.loop_dirty:
                    before = (len(self.t.out), self.t.pos, self.loop_done)
                    self.poll_loop()
                    moved = moved or before != (len(self.t.out), self.t.pos, self.loop_done)
                for c in self.callers:
                    if c.fut is not None and c.dirty:
                        n = len(c.results)
                        self.poll_caller(c.idx)
                        moved = moved or len(c.results) != n
                if self.undelivered() > 0 and not step:
                    moved = True
                    while self.undelivered() > 0:
                        self.deliver()
                progress = progress or moved
                if not moved:
                    break
            if not progress:
                if tick and r < rounds - 1 and ticked < 2:
                    ticked += 1
                    self.tick()
                    continue
                break
        self.drain_events()

def idle_reply_partial(self):
    """the client has read a complete 'changed:' line of an idle reply but not yet the complete OK line that ends it
    (bytes of an incomplete line stay in the connection's buffer; completely parsed lines live in the receive future)"""
    t = self.t
    consumed = bytes(t.stream[:t.pos])
    complete = consumed[:consumed.rfind(b'\n') + 1]
    if not complete:
        return False
    return complete[:-1].split(b'\n')[-1].startswith(b'changed: ')
Server.idle_reply_partial = idle_reply_partial

# ---------------------------------------------------------------------------- interpreting results
def outcome_of(r):
    """Result<Frame | Vec<Frame>, CommandError> -> python description"""
    if r.variant == 'Ok':
        v = r.fields[0]
        if isinstance(v, VecObj) and v.v and isinstance(v.v[0], Tup):
            return ('typed', [(it.items[0], frame_fields(it.items[1])) for it in v.v])
        if isinstance(v, VecObj) and getattr(v, 'typed_result', False):
            return ('typed', [])
        if isinstance(v, VecObj):
            return ('frames', [frame_fields(f) for f in v.v])
        if isinstance(v, Adt) and v.ty.endswith('Frame'):
            return ('frame', frame_fields(v))
        if isinstance(v, Adt) and v.ty == 'Option':
            if v.variant == 'None':
                return ('none',)
            data, mime = v.fields[0].items
            return ('art', bytes(data.b), bytes(as_items(mime.fields[0])) if mime.variant == 'Some' else None)
        return ('ok', v)
    e = r.fields[0]
    if e.variant == 'ConnectionClosed':
        return ('closed',)
    if e.variant == 'Protocol':
        pe = e.fields[0]
        if pe.variant == 'InvalidMessage':
            return ('protocol', 'invalid')
        io = pe.fields[0]
        return ('protocol', io.data[0] if isinstance(io, Opaque) else 'io')
    if e.variant == 'ErrorResponse':
        er = e.field('error'); fr = e.field('succesful_frames')
        cc = er.field('current_command')
        return ('ack', er.field('code'), er.field('command_index'), bytes(as_items(cc.fields[0])) if cc.variant == 'Some' else None, [frame_fields(f) for f in fr.v])
    if e.variant == 'InvalidTypedResponse':
        return ('typed_error',)
    return ('error', e.variant)

def frame_fields(f):
    out = []
    for e in f.field('fields').fields[0].v:
        if e.variant == 'Some':
            k, v = e.fields[0].items
            out.append((bytes(as_items(k)), bytes(as_items(v))))
    b = f.field('binary')
    if b.variant == 'Some':
        out.append((b'#binary', bytes(as_items(b.fields[0]))))
    return out

def _frame_of(nm):
    return [(b'id', nm)] + ([(b'#binary', b'XY')] if nm.startswith(b'b') else [])

def expected_reply(req):
    """what the simulated server answers to request `req`"""
    if req[0] == 'cmd':
        nm = req[1]
        if nm.startswith(b'p'):
            return ('ack', 50, 0, nm, [])
        if nm.startswith(b'f'):
            return ('ack', 5, 0, nm, [])
        return ('frame', _frame_of(nm))
    if req[0] == 'list':
        frames = []
        if len(req[1]) == 1:
            nm = req[1][0]
            if nm.startswith(b'p'):
                return ('ack', 50, 0, nm, [])
            if nm.startswith(b'f'):
                return ('ack', 5, 0, nm, [])
            return ('frames', [_frame_of(nm)])
        for k, nm in enumerate(req[1]):
            if nm.startswith(b'p'):
                return ('ack', 50, k, nm, frames)
            if nm.startswith(b'f'):
                return ('ack', 5, k, nm, frames)
            frames.append(_frame_of(nm))
        return ('frames', frames)
    if req[0] == 'typed':
        return ('typed', [(k, [(b'id', nm)]) for k, nm in enumerate(req[1])])
    raise KeyError(req)

def request_lines(req):
    if req[0] == 'cmd':
        return [req[1]]
    if len(req[1]) == 1:
        return [req[1][0]]
    return [b'command_list_ok_begin'] + list(req[1]) + [b'command_list_end']
