"""C06 - command arguments reach the server byte for byte.

Real code executed (MIR): Command::build, Command::add_argument::<&str>, <&A as Argument>::render,
<str as Argument>::render, escape_argument (+ its closure), should_escape, validate_command_part,
validate_argument, CommandList::new, CommandList::render.
Oracle: port of MPD's Tokenizer applied to the rendered line (oracles/mpd_tokenizer.py).
"""
import time
import z3
from values import *
import engine
from engine import explore, model_bytes
from props.common import guarded, Undecided, Result, known_keys, run_replay, hexs, unhex
from oracles import mpd_tokenizer as T
from models_core import new_wchar, explode

PROP = 'C06'
NAME = b'cmd'

def instances(tier, seed):
    out = []
    if tier == 'quick':
        single = range(0, 5); pairs = [(a, b) for a in range(0, 3) for b in range(0, 3)]; triples = [(1, 1, 1), (0, 1, 0)]
        wide = [(1, 0), (2, 0), (2, 1), (3, 1)]
    else:
        single = range(0, 7); pairs = [(a, b) for a in range(0, 4) for b in range(0, 4)]
        triples = [(a, b, c) for a in range(0, 3) for b in range(0, 3) for c in range(0, 3)]
        wide = [(n, p) for n in range(1, 5) for p in range(n)]
    for n in single:
        out.append({'lens': [n], 'wide': None})
    for p in pairs:
        out.append({'lens': list(p), 'wide': None})
    for t in triples:
        out.append({'lens': list(t), 'wide': None})
    # the other built-in string argument types (String, Cow::Borrowed, Cow::Owned) go through their own Argument impls
    for ty in ('string', 'cowb', 'cowo'):
        for n in (range(0, 4) if tier == 'quick' else range(0, 5)):
            out.append({'lens': [n], 'wide': None, 'ty': ty})
        out.append({'lens': [1, 2], 'wide': None, 'ty': ty})
    # what reaches the transport when the rendered request is sent (short writes are legal): the complete line(s)
    for flav in ('sync', 'async'):
        out.append({'kind': 'send', 'n': 2, 'flav': flav})
    for n, p in wide:
        out.append({'lens': [n], 'wide': [0, p]})
        if tier != 'quick':
            out.append({'lens': [1, n], 'wide': [1, p]})
    return out

def bounds(tier):
    return {'quick': 'one argument of every length 0..4; two arguments of lengths 0..2 each; three arguments (1,1,1),(0,1,0); '
                     'every byte an independent symbolic value in 0x00..0x7f except LF; plus single arguments of length 1..3 '
                     'with one symbolic 2-byte UTF-8 scalar (U+0080..U+07FF) at a fixed position',
            'thorough': 'one argument of every length 0..6; two arguments 0..3 each; three arguments 0..2 each; bytes symbolic in '
                        '0x00..0x7f except LF; single/second arguments of length 1..4 with one symbolic 2-byte scalar at every position'}[tier]

# ---- classes of the recorded findings (see known_findings.json): predicates over the argument bytes
def has(arg, pred):
    return b_or(*[pred(b) for b in arg if not isinstance(b, WChar)])
def blank(arg): return has(arg, lambda b: b_or(int_eq(b, 32), int_eq(b, 9)))
def special(arg): return has(arg, lambda b: b_or(int_eq(b, 34), int_eq(b, 39), int_eq(b, 92)))
def ctl(arg): return has(arg, lambda b: b_and(T.le(b, 0x20), b_not(int_eq(b, 32)), b_not(int_eq(b, 9))))
def nul(arg): return has(arg, lambda b: int_eq(b, 0))
CLASSES = {
    'F-C06-a': lambda args: b_or(*[b_and(b_not(blank(a)), special(a)) for a in args]),
    'F-C06-b': lambda args: any(len(a) == 0 for a in args),
    'F-C06-c': lambda args: b_or(*[b_or(b_and(b_not(blank(a)), ctl(a)), nul(a)) for a in args]),
}
DESCR = {
    'F-C06-a': "argument without blank containing ' \" or \\ is sent unquoted with backslashes (e.g. Joe's -> Joe\\'s): MPD rejects it or keeps the backslashes",
    'F-C06-b': 'empty argument renders as nothing: the argument vanishes',
    'F-C06-c': 'argument with a byte <= 0x20 other than space/tab (or any NUL) is not protected: split at the control byte / truncated at NUL',
}

def zb(x):
    return x if is_sym(x) else z3.BoolVal(bool(x))

def run_instance(payload):
    if payload.get('kind') == 'send':
        from props import c13
        P = engine.load_program()
        res = Result(str(payload))
        t0 = time.time()
        c13.run_send(P, res, payload)
        res.wall_s = time.time() - t0
        return res.to_dict()
    P = engine.load_program()
    res = Result('lens=%s wide=%s' % (payload['lens'], payload['wide']))
    t0 = time.time()
    lens = payload['lens']; wide = payload['wide']; ty = payload.get('ty', 'str')
    known = known_keys(PROP)
    TY = {'str': '&str', 'string': 'String', 'cowb': "std::borrow::Cow<'_, str>", 'cowo': "std::borrow::Cow<'_, str>"}[ty]
    def mkarg(items):
        if ty == 'str': return SliceRef(items, 0, len(items), 'str')
        if ty == 'string': return StrBuf(list(items))
        if ty == 'cowb': return Adt('Cow', 'Borrowed', 0, [SliceRef(items, 0, len(items), 'str')])
        return Adt('Cow', 'Owned', 1, [StrBuf(list(items))])

    def harness(I):
        args = []
        for k, n in enumerate(lens):
            items = []
            for i in range(n):
                if wide and wide[0] == k and wide[1] == i:
                    items.append(new_wchar(I, 'w%d_%d' % (k, i), 2))
                else:
                    b = z3.BitVec('a%d_%d' % (k, i), 8)
                    I.ctx.assume(z3.And(z3.ULT(b, 0x80), b != 10))
                    items.append(b)
            args.append(items)
        I._args = args
        r = I.call_repo('mpd_protocol::Command::build', [str_ref(NAME)])
        assert r.variant == 'Ok', r
        cmd = r.fields[0]
        cell = ValLoc(cmd)
        for items in args:
            rr = I.call_repo('mpd_protocol::Command::add_argument::<%s>' % TY, [Ref(cell), mkarg(items)])
            if rr.variant != 'Ok':
                return ('rejected', args, None)
        lst = I.call_repo('mpd_protocol::CommandList::new', [cell.get()])
        wire = I.call_repo('mpd_protocol::CommandList::render', [lst])
        return ('sent', args, explode(I, wire.b))

    for pr in explore(P, guarded(harness), stats=None):
        res.paths += 1
        ctx = pr.ctx
        if isinstance(pr.value, Undecided):
            # (witnesses outside the recorded findings' classes only: those would reproduce for the known reason)
            def mk():
                a = pr.interp._args
                m = ctx.model(*[z3.Not(zb(CLASSES[k](a))) for k in known])
                return None if m is None else {'args': [hexs(model_bytes(m, x)) for x in a], 'ty': ty}
            res.undecided_path(pr, replay, mk); continue
        if pr.kind == 'panic':
            add_violation(res, ctx, None, 'panic while building the command: %s' % pr.error.msg, known)
            continue
        kind, args, wire = pr.value
        ctx._I = pr.interp
        ctx._ty = ty
        if kind == 'rejected':
            res.cls('rejected')
            # all inputs exclude LF, so a rejection is itself a violation of "accepted arguments round-trip"
            add_violation(res, ctx, args, 'argument without LF rejected', known)
            continue
        verdict, detail = judge(ctx, args, wire)
        quoted = any(int_eq(b, 34) is True for b in wire)
        res.cls(('quoted' if quoted else 'plain') + ('' if verdict else '/mismatch'), nontrivial=any(isinstance(b, int) and b in (34, 92) for b in wire))
        if len(res.samples) < 3:
            m = ctx.model()
            res.samples.append({'args': [model_bytes(m, a).decode('latin1') for a in args], 'wire': model_bytes(m, wire).decode('latin1'),
                                'round_trip': verdict})
        if not verdict:
            add_violation(res, ctx, args, detail, known)
        if res.want_xval(('quoted' if quoted else 'plain') + ty):
            m = ctx.model()
            cargs = [model_bytes(m, a) for a in args]
            try:
                bytes(b for a in cargs for b in a).decode('utf-8')
                out = run_replay(['linety', ty, hexs(NAME)] + [hexs(a) for a in cargs])
                want = model_bytes(m, wire)
                got = unhex(out['wire'][0]) if 'wire' in out else None
                res.xval_result(got == want, 'native wire %r, symbolic wire %r' % (got, want), {'args': [hexs(a) for a in cargs], 'ty': ty})
            except UnicodeDecodeError:
                pass
        res.take_stats(ctx.stats)
        ctx.stats.__init__()
    res.wall_s = time.time() - t0
    return res.finish()

def judge(D, args, wire):
    """apply the tokenizer to the wire bytes and compare with the arguments; D decides symbolic comparisons"""
    lines, rest = T.split_lines(D, wire)
    if len(lines) != 1 or rest:
        return False, 'not exactly one LF-terminated line'
    try:
        toks = T.tokenize_line(D, lines[0])
    except T.TokError as e:
        return False, 'tokenizer error: %s' % e
    if len(toks) != len(args) + 1:
        return False, 'server sees %d arguments instead of %d' % (len(toks) - 1, len(args))
    flat_args = [explode_plain(D, a) for a in args]
    conds = [seq_eq(toks[0], list(NAME))]
    for t, a in zip(toks[1:], flat_args):
        conds.append(seq_eq(t, a))
    c = b_and(*conds)
    okv = D.must(c) if hasattr(D, 'must') else (c is True or (is_sym(c) and z3.is_true(z3.simplify(c))))
    return (True, '') if okv else (False, 'argument bytes differ')

def explode_plain(D, a):
    I = getattr(D, 'interp', None)
    if any(isinstance(x, WChar) for x in a):
        from models_core import wchar_bytes
        out = []
        for x in a:
            out.extend(wchar_bytes(D._I, x) if isinstance(x, WChar) else [x])
        return out
    return a

def add_violation(res, ctx, args, what, known):
    """attribute the violating path to known-finding classes; what is outside all of them is a new violation"""
    if args is None:
        m = ctx.model()
        res.violations.append({'what': what, 'input': None})
        return
    outside = []
    for k in known:
        c = CLASSES[k](args)
        if c is True or (c is not False and ctx.check(zb(c))):
            if k not in res.known:
                m = ctx.model(zb(c))
                res.known[k] = {'args': [hexs(model_bytes(m, a)) for a in args], 'what': what, 'ty': getattr(ctx, '_ty', 'str')}
        outside.append(z3.Not(zb(c)))
    m = ctx.model(*outside)
    if m is not None:
        res.violations.append({'what': what, 'input': {'args': [hexs(model_bytes(m, a)) for a in args], 'ty': getattr(ctx, '_ty', 'str')}})

# ---------------------------------------------------------------------------- native replay
def replay(rec):
    """run the real crate natively on the concrete arguments; True iff the violation reproduces"""
    inp = rec.get('input') or rec
    if inp.get('kind') == 'send':
        from props import c13
        return c13.replay(rec)
    args = [unhex(a) for a in inp['args']]
    out = run_replay(['linety', inp.get('ty', 'str'), hexs(NAME)] + [hexs(a) for a in args])
    if 'panic' in out:
        return True, 'native run panics: ' + unhex(out['panic'][0]).decode('utf-8', 'replace')
    if any(v == 'err' for k, vs in out.items() if k.startswith('add') for v in vs):
        return True, 'native run rejects the argument'
    wire = list(unhex(out['wire'][0]))
    D = T.ConcreteDecider()
    okv, detail = judge(D, [list(a) for a in args], wire)
    return (not okv), 'wire=%r %s' % (bytes(wire), detail)

REQUIRED_CLASSES = ['quoted', 'plain']
EXPLANATION = ('Bounded symbolic execution of the real MIR of the command builder (every feasible path, branch feasibility and '
               'the final round-trip equality decided by z3) against a port of MPD\'s Tokenizer; counterexamples are replayed '
               'against the natively compiled crate before they are reported')
ASSUMPTIONS = ['argument bytes are ASCII (0x00-0x7f, LF excluded: LF arguments are rejected by the builder, see C07) plus at most one 2-byte UTF-8 scalar per instance',
               'lengths are concrete and enumerated; longer arguments and more than three arguments are outside the claim',
               'library models: str::contains/chars/len, String::with_capacity/push, Iterator::filter/count/position, BytesMut put_u8/put_slice/split_off/truncate/freeze, slice indexing',
               'the command name is the fixed word "cmd" (names are the subject of C07)',
               'oracle: MPD 0.23 Tokenizer::NextWord/NextParam/NextString/NextUnquoted, StripRight of the line, C-string semantics (NUL ends the line)']
RULE = ('one evaluation = one feasible path through builder + oracle for one instance (argument-length vector); paths are distinct by '
        'construction (different decision traces); non-trivial = the rendered line needed quoting or escaping')
