"""C02 / C03 / C09 / C10 / C18 (protocol layer): the real parser, ResponseBuilder and both connections driven over a
scripted transport with symbolic stream bytes.

Real code executed (MIR): parser.rs (ParsedComponent::parse, greeting, number, error, error_code_and_index,
error_current_command, key_value_field, field_value, binary_prefix, binary_field and all their closures),
RawError::into_owned_error, ResponseFieldCache::{new, insert}, ResponseBuilder::{new, parse, field, binary,
finish_frame, finish, error, is_frame_in_progress}, Frame::empty, FieldsContainer::push_field, Response::empty,
Connection::{connect, receive}, read_to_buffer, AsyncConnection::{connect, receive} (coroutines).
"""
import time
import z3
from values import *
import engine
from engine import explore, model_bytes
from props.common import Result, run_replay, hexs, unhex, known_findings, guarded, Undecided
from props.conn_common import *
from oracles import line_grammar as G
from oracles.mpd_tokenizer import ConcreteDecider
from models_io import Transport, drive

# ---------------------------------------------------------------------------- stream templates
WF = [False]
def hole(I, name, n, lo=0, hi=255, exclude=()):
    if WF[0] and lo == 0 and hi == 255:
        lo, hi = 0x20, 0x7e           # keep the stream well-formed (C10: the cut position is the subject)
    out = []
    for i in range(n):
        b = z3.BitVec('%s_%d' % (name, i), 8)
        c = []
        if lo > 0: c.append(z3.UGE(b, lo))
        if hi < 255: c.append(z3.ULE(b, hi))
        for e in exclude: c.append(b != e)
        if c: I.ctx.assume(z3.And(*c))
        out.append(b)
    return out

def tmpl(I, name, v=2):
    """returns the body bytes (after the greeting) of template `name`; `v` = size of the symbolic holes"""
    c = lambda s: list(s)
    if name == 'field':         # one response with one field, key and value free
        return hole(I, 'k', 1) + c(b': ') + hole(I, 'v', v) + c(b'\nOK\n')
    if name == 'keys':          # field names of two free bytes (the alphabet lemma)
        return hole(I, 'k', 2) + c(b': v\nOK\n')
    if name == 'field2':        # value that may look like protocol lines, second field
        return c(b'a: ') + hole(I, 'v', v) + c(b'\nB_-b: ') + hole(I, 'w', 1) + c(b'\nOK\n')
    if name == 'ack':
        return c(b'ACK [') + hole(I, 'c', 1) + c(b'@') + hole(I, 'i', 1) + c(b'] {') + hole(I, 'n', 1) + c(b'} ') + hole(I, 'm', v) + c(b'\n')
    if name == 'ackbig':        # code / index magnitudes: up to 21 digits through concrete digit strings chosen symbolically
        code = [b'0', b'18446744073709551615', b'18446744073709551616', b'99999999999999999999999'][I.ctx.choose(4, 'code')]
        return c(b'ACK [') + c(code) + c(b'@') + hole(I, 'i', 1, 48, 57) + c(b'] {} x\n')
    if name == 'binary':
        n = hole(I, 'n', 1)
        return c(b'binary: ') + n + c(b'\n') + hole(I, 'p', v + 1) + c(b'\nOK\n')
    if name == 'binhdr':        # header magnitudes
        ln = [b'0', b'3', b'18446744073709551615', b'18446744073709551616', b'9223372036854775808'][I.ctx.choose(5, 'len')]
        return c(b'size: 3\nbinary: ') + c(ln) + c(b'\n') + hole(I, 'p', 3) + c(b'\nOK\n')
    if name == 'list':
        return c(b'a: ') + hole(I, 'v', 1) + c(b'\nlist_OK\n') + hole(I, 'k', 1) + c(b': x\nlist_OK\nOK\n')
    if name == 'list4':         # four list frames: distinct keys, a repeated key, an empty frame in the middle
        return c(b'a: 1\nlist_OK\nb: 2\nlist_OK\nlist_OK\na: ') + hole(I, 'v', 1) + c(b'\nlist_OK\nOK\n')
    if name == 'bin0':          # an empty binary chunk as the first component of a response
        return c(b'binary: 0\n\nsize: ') + hole(I, 'v', 1, 48, 57) + c(b'\nOK\n')
    if name == 'bin2':          # two binary fields in one frame (the second replaces the first) - unusual but well-formed by the grammar
        return c(b'binary: 1\n') + hole(I, 'p', 1) + c(b'\nbinary: 2\n') + hole(I, 'q', 2) + c(b'\nOK\n')
    if name == 'ackbrace':      # ACK line whose closing brace / following blank are free bytes, followed by more data
        return c(b'ACK [5@0] {play') + hole(I, 'b', 2) + c(b'No such song\nfoo: } bar\nOK\n')
    if name == 'ackthen':       # an error response followed by the next (pipelined) reply
        return c(b'ACK [5@0] {x} ') + hole(I, 'm', 1) + c(b'\nvolume: ') + hole(I, 'v', 1) + c(b'\nstate: stop\nOK\n')
    if name == 'listerr':
        return c(b'a: b\nlist_OK\nc: ') + hole(I, 'v', 1) + c(b'\nACK [5@1] {x} ') + hole(I, 'm', 1) + c(b'\n')
    if name == 'listbin':       # a binary blob in a later frame of a list reply (the frames completed before it stay)
        return c(b'a: ') + hole(I, 'v', 1) + c(b'\nlist_OK\nsize: 2\nbinary: 2\n') + hole(I, 'p', 2) + c(b'\nlist_OK\nb: c\nlist_OK\nOK\n')
    if name == 'ackempty':      # an error response whose message text is empty, then the next reply
        return c(b'ACK [') + hole(I, 'c', 1, 48, 57) + c(b'@0] {') + hole(I, 'n', 1) + c(b'} \nx: y\nOK\n')
    if name == 'fielderr':      # a single command that fails after partial output (no list): the fields before the ACK are not a frame
        return c(b'file: ') + hole(I, 'v', 1) + c(b'\nTitle: ') + hole(I, 'w', 1) + c(b'\nACK [50@0] {lsinfo} ') + hole(I, 'm', 1) + c(b'\nOK\n')
    if name == 'two':
        return c(b'a: ') + hole(I, 'v', 1) + c(b'\nOK\nb: c\n') + hole(I, 'e', 3)
    if name == 'okok':
        return c(b'OK\n') + hole(I, 'x', 3) + c(b'\n')
    if name.startswith('free'):
        return hole(I, 'x', int(name[4:]))
    if name == 'long':          # longer than the (small) receive buffer and its first doublings
        return c(b'file: ') + hole(I, 'v', 2) + c(b'aaaaaaaaaaaaaaaaaaaaaaaaaaaaaaaa\nTitle: bbbbbbbbbbbbbbbbbbbbbbbb\nOK\nx: ') + hole(I, 'w', 1) + c(b'cccccccccccc\nOK\ny: dddd\nOK\n')
    if name == 'longbin':
        return c(b'binary: 20\n') + hole(I, 'p', 2) + c(b'ABCDEFGHIJKLMNOPQR\nOK\nk: v\nOK\n')
    raise KeyError(name)

TEMPLATES_WF = ['field', 'keys', 'field2', 'ack', 'ackthen', 'fielderr', 'listbin', 'ackempty', 'binary', 'bin2', 'list', 'list4', 'bin0', 'listerr', 'two', 'okok', 'long', 'longbin']

# ---------------------------------------------------------------------------- sessions
def run_session(I, flavour, body, cuts, cap, max_receives=4, greeting=GREETING, pending=False, interrupt_at=None):
    set_cap(I, cap)
    st = list(greeting) + list(body)
    g = len(greeting)
    cs = sorted(set([g] + [g + c for c in cuts]))
    t = Transport(st, cs)
    t.interrupt_at = interrupt_at
    if flavour == 'sync':
        co, outs, conn = sync_session(I, t, max_receives)
    else:
        co, outs, conn = async_session(I, t, max_receives)
    return co, outs, t, conn

def expected_from_reference(ctx, body):
    """reference decode of the body (complete stream followed by EOF): list of Outcome"""
    resps, status, consumed = G.decode(ctx, list(body))
    outs = [Outcome('response', [(f, b) for f, b in frames], err_) for frames, err_ in resps]
    if status == 'boundary':
        outs.append(Outcome('closed'))
    elif status == 'partial':
        outs.append(Outcome('eof'))
    else:
        outs.append(Outcome('invalid'))
    return outs, status

def ref_error_norm(o):
    return o

def cmp_outcomes(ctx, got, want, limit):
    """None or a description; compares at most `limit` outcomes (sessions stop after max_receives)"""
    g = got[:limit]; w = want[:limit]
    # an EOF / invalid verdict may be reported while the reference still lists complete responses only if counts differ
    c = outcomes_cond(g, w)
    if c is False:
        return 'outcomes %s, reference %s' % (g, w)
    if not ctx.must(c):
        return 'decoded content differs from what the server encoded (%s)' % (g,)
    return None

def keys_in_alphabet(ctx, outs):
    conds = []
    for o in outs:
        if o.kind == 'response':
            for fields, _ in o.frames:
                for k, _v in fields:
                    if not k:
                        return False
                    conds += [G.is_key_char(b) for b in k]
    return b_and(*conds)

# ---------------------------------------------------------------------------- instances
def instances_for(prop, tier, seed):
    out = []
    q = tier == 'quick'
    if prop == 'C03':
        for tname in TEMPLATES_WF:
            for flav, mode in (('sync', 'whole'), ('async', 'bytes')) if q else (('sync', 'whole'), ('sync', 'bytes'), ('async', 'whole'), ('async', 'bytes')):
                out.append({'t': tname, 'flav': flav, 'seg': mode, 'cap': 8 if tname.startswith('long') or (seed + len(out)) % 2 else 4096, 'v': 2 if q else 3})
    elif prop == 'C02':
        for tname in TEMPLATES_WF + (['free4'] if q else ['free4', 'free5', 'free6']):
            # the long templates have many split points: their segmentation plans are distributed over several instances (workers)
            parts = 4 if tname in ('long', 'longbin') else (2 if tname in ('list4', 'two', 'listerr', 'field2', 'bin0', 'ackthen', 'fielderr', 'listbin', 'bin2') else 1)
            for part in range(parts):
                out.append({'t': tname, 'mode': 'splits', 'cap': 8, 'v': 1 if q else 2, 'astep': 3 if q else 1, 'part': part, 'parts': parts})
            if not q:
                out.append({'t': tname, 'mode': 'splits', 'cap': 4096, 'v': 2})
        for n in ((3, 4) if q else (3, 4, 5, 6)):
            out.append({'t': 'free%d' % n, 'mode': 'prefix'})
        out.append({'t': 'greeting', 'mode': 'prefix', 'n': 9 if q else 11})
    elif prop == 'C09':
        for n in ((1, 2, 3, 4) if q else (1, 2, 3, 4, 5, 6)):
            out.append({'t': 'free%d' % n, 'flav': 'sync', 'cap': 8})
            out.append({'t': 'free%d' % n, 'flav': 'async', 'cap': 8})
        for tname in ('ackbig', 'binhdr', 'ack', 'ackbrace', 'bin2', 'binary', 'field'):
            out.append({'t': tname, 'flav': 'sync', 'cap': 8})
            out.append({'t': tname, 'flav': 'async', 'cap': 4096})
        for tname in ('long', 'longbin', 'two', 'list4'):           # pipelined / long well-formed data (buffer growth and reuse must not panic either)
            out.append({'t': tname, 'flav': 'sync', 'cap': 8})
            out.append({'t': tname, 'flav': 'async', 'cap': 8})
        for n in ((1, 2, 3) if q else (1, 2, 3, 4, 5)):
            out.append({'t': 'greetfree%d' % n, 'flav': 'sync', 'cap': 8})
            out.append({'t': 'greetfree%d' % n, 'flav': 'async', 'cap': 8})
        out.append({'t': 'greetfreelong', 'flav': 'sync', 'cap': 4096})
        out.append({'t': 'greetfreelong', 'flav': 'async', 'cap': 4096})
    elif prop == 'C10':
        for tname in TEMPLATES_WF:
            for flav in ('sync', 'async'):
                out.append({'t': tname, 'flav': flav, 'cap': 8 if tname.startswith('long') else (4096 if flav == 'async' else 8), 'v': 1})
        out.append({'t': 'greetcut', 'flav': 'sync', 'cap': 8}); out.append({'t': 'greetcut', 'flav': 'async', 'cap': 8})
        for tname in ('two', 'list', 'field2'):
            for flav in ('sync', 'async'):
                out.append({'t': tname, 'flav': flav, 'cap': 8 if flav == 'sync' else 4096, 'v': 1, 'interrupt': True})
    elif prop == 'C18':
        for n in ((0, 1, 2, 3) if q else (0, 1, 2, 3, 4, 5)):
            for flav in ('sync', 'async'):
                out.append({'t': 'version', 'n': n, 'flav': flav})
        for n in ((1, 2, 3) if q else (1, 2, 3, 4)):
            for flav in ('sync', 'async'):
                out.append({'t': 'prefix', 'n': n, 'flav': flav})
        out.append({'t': 'anyfirst', 'n': 8 if q else 9, 'flav': 'sync'}); out.append({'t': 'anyfirst', 'n': 8 if q else 9, 'flav': 'async'})
    return out

# ---------------------------------------------------------------------------- runners
def record(ctx, body, extra):
    m = ctx.model()
    return dict(extra, stream=hexs(model_bytes(m, body)))

def run_for(prop, payload):
    P = engine.load_program()
    res = Result(str(payload))
    t0 = time.time()
    {'C03': run_c03, 'C02': run_c02, 'C09': run_c09, 'C10': run_c10, 'C18': run_c18}[prop](P, res, payload)
    res.wall_s = time.time() - t0
    return res.finish()

def cuts_for(mode, n):
    if mode == 'whole':
        return []
    return list(range(1, n))

def run_c03(P, res, pl):
    def harness(I):
        body = tmpl(I, pl['t'], pl['v'])
        I._body = body
        want, status = expected_from_reference(I.ctx, body)
        co, outs, t, conn = run_session(I, pl['flav'], body, cuts_for(pl['seg'], len(body)), pl['cap'], max_receives=4)
        return want, status, co, outs
    for pr in explore(P, guarded(harness)):
        res.paths += 1
        ctx = pr.ctx
        body = pr.interp._body
        rec = lambda: record(ctx, body, {'flav': pl['flav'], 'cuts': cuts_for(pl['seg'], len(body)), 'cap': pl['cap'], 'check': 'decode'})
        if isinstance(pr.value, Undecided):
            res.undecided_path(pr, lambda r: replay_for('C03', r), rec); continue
        if pr.kind == 'panic':
            res.violations.append({'what': 'receive panics: ' + pr.error.msg[:100], 'input': rec()}); continue
        want, status, co, outs = pr.value
        res.cls('stream ' + status, nontrivial=any(o.kind == 'response' and (o.frames or o.error) for o in want))
        bad = None
        if co.kind != 'connected':
            bad = 'valid greeting rejected'
        else:
            # every complete well-formed response must be decoded exactly; the verdict after them must agree
            bad = cmp_outcomes(ctx, outs, want, 4)
            if not bad:
                kc = keys_in_alphabet(ctx, outs)
                if not ctx.must(kc):
                    bad = 'a decoded field name has a character outside [A-Za-z_-] (lemma used by C12)'
        if bad:
            res.violations.append({'what': bad, 'input': rec()})
        else:
            res.xval_path('stream ' + status, lambda r: replay_for('C03', r), rec)
        if len(res.samples) < 1:
            res.samples.append({'stream': model_bytes(ctx.model(), body).decode('latin1'), 'decoded': str(show_outcomes(ctx.model(), outs))[:300]})
        res.take_stats(ctx.stats); ctx.stats.__init__()

def run_c02(P, res, pl):
    if pl['mode'] == 'prefix':
        return run_c02_prefix(P, res, pl)
    def harness(I):
        body = tmpl(I, pl['t'], pl['v'])
        I._body = body
        base = run_session(I, 'sync', body, [], pl['cap'])
        sessions = [('sync', [], base)]
        n = len(body)
        # every two-way split, one byte at a time, one three-way split - for both flavours
        step = pl.get('astep', 1)
        plans = [('async', [])] + [('sync', [j]) for j in range(1, n)] + [('async', [j]) for j in range(1, n, step)] + [('sync', list(range(1, n))), ('async', list(range(1, n)))]
        if n >= 6:
            plans.append(('sync', [n // 3, 2 * n // 3])); plans.append(('async', [1, n - 1]))
        plans = plans[pl.get('part', 0)::pl.get('parts', 1)]
        for f, cuts in plans:
            sessions.append((f, cuts, run_session(I, f, body, cuts, pl['cap'])))
        return sessions
    for pr in explore(P, guarded(harness)):
        res.paths += 1
        ctx = pr.ctx
        body = pr.interp._body
        if isinstance(pr.value, Undecided):
            res.undecided_path(pr, lambda r: replay_for('C02', r), lambda: record(ctx, body, {'flav': 'sync', 'cuts': [], 'cap': pl['cap'], 'check': 'segmentation', 'allsplits': True})); continue
        if pr.kind == 'panic':
            res.violations.append({'what': 'receive panics: ' + pr.error.msg[:100], 'input': record(ctx, body, {'flav': 'sync', 'cuts': [], 'cap': pl['cap'], 'check': 'segmentation'})}); continue
        sessions = pr.value
        f0, c0, (co0, outs0, t0_, _) = sessions[0]
        res.cls('stream with %d responses' % min(2, sum(1 for o in outs0 if o.kind == 'response')), nontrivial=len(outs0) > 1)
        for f, cuts, (co, outs, t, _) in sessions[1:]:
            bad = None
            if co.kind != co0.kind:
                bad = 'connect outcome differs'
            else:
                c = outcomes_cond(outs, outs0)
                if c is False or not ctx.must(c):
                    bad = 'result depends on the segmentation: %s reads cut at %s give %s, one read gives %s' % (f, cuts, outs, outs0)
            if bad:
                res.violations.append({'what': bad, 'input': record(ctx, body, {'flav': f, 'cuts': cuts, 'cap': pl['cap'], 'check': 'segmentation'})})
                break
        else:
            f, cuts = sessions[-1][0], sessions[-1][1]
            res.xval_path('stream %d' % len(outs0), lambda r: replay_for('C02', r), lambda: record(ctx, body, {'flav': f, 'cuts': cuts, 'cap': pl['cap'], 'check': 'segmentation'}))
        if len(res.samples) < 1:
            res.samples.append({'stream': model_bytes(ctx.model(), body).decode('latin1'), 'sessions': len(sessions), 'outcomes': str(outs0)})
        res.take_stats(ctx.stats); ctx.stats.__init__()

def run_c02_prefix(P, res, pl):
    """L1: prefix stability of the line grammar and of the greeting grammar"""
    from models_coll import MapObj
    greet = pl['t'] == 'greeting'
    def comp_sig(r):
        """(kind, consumed, payload) of an IResult"""
        if r.variant == 'Err':
            e = r.fields[0]
            return ('incomplete',) if e.variant == 'Incomplete' else ('error',)
        rest, o = r.fields[0].items
        return ('ok', len(as_slice_(rest)), o)
    def harness(I):
        if greet:
            x = list(b'OK MPD ') + hole(I, 'x', pl['n'] - 7)
        else:
            x = tmpl(I, pl['t'])
        I._body = x
        sigs = []
        for k in range(len(x) + 1):
            p = x[:k]
            if greet:
                r = I.call_repo('mpd_protocol::parser::greeting', [bytes_ref_items(p)])
            else:
                cache = Adt('ResponseFieldCache', None, 0, [MapObj('HashSet')])
                r = I.call_repo('mpd_protocol::parser::ParsedComponent::parse', [bytes_ref_items(p), ref_to(cache)])
            sigs.append((k, r))
        return sigs
    for pr in explore(P, harness):
        res.paths += 1
        ctx = pr.ctx
        x = pr.interp._body
        if pr.kind == 'panic':
            res.violations.append({'what': 'parser panics: ' + pr.error.msg[:100], 'input': {'stream': hexs(model_bytes(ctx.model(), x)), 'check': 'prefix', 'greeting': greet}}); continue
        sigs = pr.value
        full = sigs[-1][1]
        bad = None
        for k, r in sigs[:-1]:
            if r.variant == 'Err' and r.fields[0].variant == 'Incomplete':
                continue
            if r.variant == 'Err':
                if not (full.variant == 'Err' and full.fields[0].variant != 'Incomplete'):
                    bad = 'prefix of length %d is rejected but the longer input is %s' % (k, 'accepted' if full.variant == 'Ok' else 'incomplete')
            else:
                if full.variant != 'Ok':
                    bad = 'prefix of length %d parses, the longer input does not' % k
                else:
                    rk, ok_ = r.fields[0].items; rf, of = full.fields[0].items
                    if k - len(rk) != len(x) - len(rf):
                        bad = 'prefix of length %d consumes %d bytes, the longer input %d' % (k, k - len(rk), len(x) - len(rf))
                    elif not same_component(ctx, ok_, of):
                        bad = 'prefix of length %d parses to a different component' % k
            if bad:
                break
        res.cls('line ' + ('ok' if full.variant == 'Ok' else full.fields[0].variant), nontrivial=full.variant == 'Ok')
        if bad:
            res.violations.append({'what': bad, 'input': {'stream': hexs(model_bytes(ctx.model(), x)), 'check': 'prefix', 'greeting': greet}})
        elif not greet:
            # (greeting prefixes are not cross-validated at connection level: both connect functions discard what arrives in the same
            # read after the greeting line - stated in the assumptions - so a witness with bytes after the line end differs by design)
            res.xval_path('line ' + full.variant, lambda r: replay_for('C02', r), lambda: {'stream': hexs(model_bytes(ctx.model(), x)), 'check': 'prefix', 'greeting': greet})
        res.take_stats(ctx.stats); ctx.stats.__init__()

def as_slice_(v):
    from models_core import as_slice
    return as_slice(v)

def bytes_ref_items(items):
    return SliceRef(list(items), 0, len(items), 'slice')

def same_component(ctx, a, b):
    from models_core import val_eq
    try:
        c = val_eq(None, a, b) if not isinstance(a, Adt) or a.ty != 'ParsedComponent' else comp_eq(a, b)
    except Exception:
        return False
    return ctx.must(c)

def comp_eq(a, b):
    from models_core import as_items
    if a.variant != b.variant:
        return False
    if a.variant == 'Field':
        return b_and(seq_eq(list(as_items(a.fields[0])), list(as_items(b.fields[0]))), seq_eq(list(as_items(a.fields[1])), list(as_items(b.fields[1]))))
    if a.variant == 'BinaryField':
        return int_eq(a.fields[0], b.fields[0])
    if a.variant == 'Error':
        ea, eb = a.fields[0], b.fields[0]
        return b_and(int_eq(ea.fields[0], eb.fields[0]), int_eq(ea.fields[1], eb.fields[1]), seq_eq(list(as_items(ea.fields[3])), list(as_items(eb.fields[3]))))
    return True

def run_c09(P, res, pl):
    t = pl['t']
    def harness(I):
        if t == 'greetfreelong':
            # a long first line with two free bytes (any values: a multi-byte character, a replacement character ...) right before /
            # across a power-of-two offset: whatever connect does with a rejected or accepted greeting (excerpts in logs, slices)
            L = [13, 14, 15, 16, 29, 30, 31, 32, 61, 62, 63, 64, 125, 126, 127, 128, 253, 254, 255, 256][I.ctx.choose(20, 'fill')]
            pre = list(b'OK MPD ') if I.ctx.choose(2, 'prefix') == 0 else list(b'Welcome')
            greeting = pre + [0x78] * (L - len(pre)) + hole(I, 'g', 2) + list(b'yyy\n')
            body = []
        elif t.startswith('greetfree'):
            greeting = hole(I, 'g', int(t[9:]))
            body = []
        else:
            greeting = GREETING
            body = tmpl(I, t)
        I._body = list(greeting) + list(body) if t.startswith('greetfree') else body
        I._greet = greeting
        want = None
        if not t.startswith('greetfree'):
            want = expected_from_reference(I.ctx, body)
        n = len(body)
        seg = I.ctx.choose(3, 'seg')
        cuts = [] if seg == 0 else (list(range(1, n)) if seg == 1 else [max(1, n // 2)])
        I._cuts = cuts
        co, outs, tr, conn = run_session(I, pl['flav'], body, cuts, pl['cap'], greeting=greeting)
        # "receiving never panics": a caller may call receive again after an error (the API does not consume the connection)
        I._again = None
        if conn is not None and outs and outs[-1].kind in ('invalid', 'eof', 'ioerror'):
            I._again = 'started'
            path = 'mpd_protocol::connection::%s::<%s>::receive' % ('Connection' if pl['flav'] == 'sync' else 'AsyncConnection', T)
            x = I.call_repo(path, [Ref(conn)])
            if pl['flav'] != 'sync':
                x = drive(I, x)
            I._again = classify(x).kind
        return want, co, outs, tr
    for pr in explore(P, guarded(harness)):
        res.paths += 1
        ctx = pr.ctx
        I = pr.interp
        body = I._body
        rec = lambda: record(ctx, body, {'flav': pl['flav'], 'cuts': getattr(I, '_cuts', []), 'cap': pl['cap'], 'check': 'robust', 'rawgreeting': t.startswith('greetfree'),
                                         'again': getattr(I, '_again', None) is not None})
        if isinstance(pr.value, Undecided):
            res.undecided_path(pr, lambda r: replay_for('C09', r), rec); continue
        if pr.kind == 'panic':
            res.cls('panic', nontrivial=True)
            res.violations.append({'what': 'panic on peer bytes: ' + pr.error.msg[:120], 'input': rec()}); continue
        want, co, outs, tr = pr.value
        bad = None
        total = len(tr.stream)
        if tr.reads > total + 3 + len(outs):
            bad = 'connection read %d times for a %d byte stream' % (tr.reads, total)
        if want is not None and not bad:
            w, status = want
            if status == 'invalid':
                # malformed line => invalid-message error right after the complete responses before it
                k = len(w) - 1
                if len(outs) <= k or outs[k].kind != 'invalid':
                    bad = 'malformed input is not reported as InvalidMessage: outcomes %s, reference %s' % (outs, w)
            else:
                bad = cmp_outcomes(ctx, outs, w, 4)
        res.cls('peer bytes: ' + (outs[-1].kind if outs else co.kind), nontrivial=True)
        if bad:
            res.violations.append({'what': bad, 'input': rec()})
        else:
            res.xval_path('peer bytes: ' + (outs[-1].kind if outs else co.kind), lambda r: replay_for('C09', r), rec)
        if len(res.samples) < 1:
            res.samples.append({'stream': model_bytes(ctx.model(), tr.stream).decode('latin1'), 'connect': co.kind, 'outcomes': str(outs), 'reads': tr.reads})
        res.take_stats(ctx.stats); ctx.stats.__init__()

def run_c10(P, res, pl):
    t = pl['t']
    def harness(I):
        WF[0] = True
        try:
            return harness_(I)
        finally:
            WF[0] = False
    def harness_(I):
        if t == 'greetcut':
            g = list(b'OK MPD ') + hole(I, 'v', 2, exclude=(10,)) + [10]
            cut = 1 + I.ctx.choose(len(g) - 1, 'cut')
            I._body = g[:cut]
            co, outs, tr, conn = run_session(I, pl['flav'], [], [], pl['cap'], greeting=g[:cut])
            return None, co, outs
        body = tmpl(I, t, pl['v'])
        cut = I.ctx.choose(len(body) + 1, 'cut')
        body = body[:cut]
        I._body = body
        want, status = expected_from_reference(I.ctx, body)
        # reads: everything at once | one byte per read | (pipelined templates) two reads split at a quarter / half / three quarters
        seg = I.ctx.choose(3 if t in ('long', 'longbin', 'two', 'list4') else 2, 'seg')
        if seg == 2:
            pos = [len(body) // 4, len(body) // 2, 3 * len(body) // 4, len(body) - 12][I.ctx.choose(4, 'split')]
            I._cuts = [pos] if 0 < pos < len(body) else []
        else:
            I._cuts = [] if seg == 0 else list(range(1, len(body)))
        I._intr = None
        if pl.get('interrupt'):
            # one read call (a symbolic one of the first four after the greeting) fails with ErrorKind::Interrupted: a read error is
            # not an end of stream - it has to surface as that I/O error, never as a clean close or an unexpected EOF
            I._intr = 1 + I.ctx.choose(4, 'interrupt')
        co, outs, tr, conn = run_session(I, pl['flav'], body, I._cuts, pl['cap'], max_receives=5, interrupt_at=I._intr)
        if I._intr is not None:
            I._intr_hit = tr.read_calls > I._intr
        return (want, status), co, outs
    for pr in explore(P, guarded(harness)):
        res.paths += 1
        ctx = pr.ctx
        I = pr.interp
        body = I._body
        rec = lambda: record(ctx, body, {'flav': pl['flav'], 'cuts': getattr(I, '_cuts', []), 'cap': pl['cap'], 'check': 'eof', 'rawgreeting': t == 'greetcut',
                                         # (an interrupt position the run never reached is not part of the input)
                                         'interrupt': getattr(I, '_intr', None) if (pr.kind == 'panic' or getattr(I, '_intr_hit', False)) else None})
        if isinstance(pr.value, Undecided):
            res.undecided_path(pr, lambda r: replay_for('C10', r), rec); continue
        if pr.kind == 'panic':
            res.violations.append({'what': 'panic: ' + pr.error.msg[:100], 'input': rec()}); continue
        want, co, outs = pr.value
        bad = None
        if t == 'greetcut':
            if co.kind != 'eof':
                bad = 'greeting cut before its line end is reported as %s' % co.kind
            res.cls('greeting cut', nontrivial=True)
        else:
            w, status = want
            if status == 'invalid':
                res.cls('cut stream invalid')       # the cut made a malformed stream (free holes): not the subject here
                continue
            if getattr(I, '_intr', None) is not None and getattr(I, '_intr_hit', False):
                # the responses before the interrupted read are the reference's, the call that hit it reports the I/O error
                k = len(outs) - 1
                bad = None
                if co.kind != 'connected':
                    if co.kind != 'ioerror':
                        bad = 'a read interrupted by a signal during connect is reported as %s' % co.kind
                elif not outs or outs[-1].kind != 'ioerror':
                    bad = 'a read interrupted by a signal (ErrorKind::Interrupted) is reported as %s' % (outs[-1].kind if outs else 'nothing')
                elif cmp_outcomes(ctx, outs[:k], w[:k], 5):
                    bad = 'responses before the interrupted read differ from the reference: ' + str(cmp_outcomes(ctx, outs[:k], w[:k], 5))
                res.cls('interrupted read', nontrivial=True)
            else:
                bad = cmp_outcomes(ctx, outs, w, 5)
                res.cls('cut on ' + status, nontrivial=True)
        if bad:
            res.violations.append({'what': bad, 'input': rec()})
        else:
            res.xval_path('cut %s %s' % (co.kind, outs[-1].kind if outs else '-'), lambda r: replay_for('C10', r), rec)
        if len(res.samples) < 1:
            res.samples.append({'stream': model_bytes(ctx.model(), body).decode('latin1'), 'outcomes': str(outs)})
        res.take_stats(ctx.stats); ctx.stats.__init__()

def greeting_reference(ctx, g):
    """'ok' (version items) | 'invalid' | 'eof'   for first-line bytes g followed by EOF"""
    pre = list(b'OK MPD ')
    n = min(len(g), len(pre))
    if not ctx.decide(seq_eq(g[:n], pre[:n])):
        return 'invalid', None
    if len(g) <= len(pre):
        return 'eof', None
    e = G.find_lf(ctx, g, len(pre))
    if e is None:
        # no line end: incomplete unless the version so far is already invalid UTF-8 in a way more bytes cannot fix -
        # the grammar only looks at UTF-8 once the line is complete, so: eof
        return 'eof', None
    v = g[len(pre):e]
    if len(v) == 0 or not G.utf8_ok(ctx, v):
        return 'invalid', None
    return 'ok', v

def run_c18(P, res, pl):
    def harness(I):
        if pl['t'] == 'version':
            g = list(b'OK MPD ') + hole(I, 'v', pl['n']) + [10]
        elif pl['t'] == 'prefix':
            g = hole(I, 'p', pl['n']) + list(b'OK MPD 0.1\n')[pl['n']:]
        else:
            g = list(b'OK MPD ')[:pl['n'] - 2] + hole(I, 'x', 2) if pl['n'] - 2 <= 7 else list(b'OK MPD ') + hole(I, 'x', pl['n'] - 7)
        I._body = g
        want = greeting_reference(I.ctx, g)
        seg = I.ctx.choose(3, 'seg')
        cuts = [] if seg == 0 else (list(range(1, len(g))) if seg == 1 else [len(g) // 2])
        I._cuts = cuts
        set_cap(I, 8)
        t = Transport(list(g), sorted(set(cuts)))
        if pl['flav'] == 'sync':
            co, outs, conn = sync_session(I, t, 0)
        else:
            co, outs, conn = async_session(I, t, 0)
        ver = version_of(I, conn, pl['flav'] == 'async') if conn is not None else None
        return want, co, ver
    for pr in explore(P, guarded(harness)):
        res.paths += 1
        ctx = pr.ctx
        I = pr.interp
        g = I._body
        rec = lambda: record(ctx, g, {'flav': pl['flav'], 'cuts': getattr(I, '_cuts', []), 'cap': 8, 'check': 'greeting', 'rawgreeting': True})
        if isinstance(pr.value, Undecided):
            res.undecided_path(pr, lambda r: replay_for('C18', r), rec); continue
        if pr.kind == 'panic':
            res.violations.append({'what': 'connect panics: ' + pr.error.msg[:100], 'input': rec()}); continue
        (wk, wv), co, ver = pr.value
        bad = None
        got = {'connected': 'ok', 'invalid': 'invalid', 'eof': 'eof'}.get(co.kind, co.kind)
        if got != wk:
            bad = 'first line is %s by the greeting grammar, connect reports %s' % (wk, co.kind)
        elif wk == 'ok' and not ctx.must(seq_eq(ver, wv)):
            bad = 'protocol_version() is not the greeting\'s version string'
        res.cls('greeting ' + wk, nontrivial=True)
        if bad:
            res.violations.append({'what': bad, 'input': rec()})
        else:
            res.xval_path('greeting ' + wk, lambda r: replay_for('C18', r), rec)
        if len(res.samples) < 1:
            res.samples.append({'first_line': model_bytes(ctx.model(), g).decode('latin1'), 'connect': co.kind})
        res.take_stats(ctx.stats); ctx.stats.__init__()

# ---------------------------------------------------------------------------- native replay
def native_outcomes(out):
    """parse the native executor's output into Outcome objects"""
    outs = []
    cur = None
    for k, v in out['_order']:
        if k == 'out':
            kind = v.split()[0]
            if kind == 'response':
                cur = Outcome('response', [], None)
            else:
                outs.append(Outcome(kind))
        elif k == 'frame':
            fs, _, b = v.partition('|')
            fields = []
            for f in filter(None, fs.split(',')):
                a, _, c = f.partition(':')
                fields.append((list(unhex(a)), list(unhex(c))))
            cur.frames.append((fields, None if b == 'none' else list(unhex(b))))
        elif k == 'error':
            code, idx, cmd, msg = v.split(':')
            cur.error = (int(code), int(idx), None if cmd == 'none' else list(unhex(cmd)), list(unhex(msg)))
        elif k == 'end':
            outs.append(cur); cur = None
    return outs

def native_session(stream, flav, cuts, small, max_receives=5, again=False, interrupt=None):
    # `<n>+`: after an error receive is called once more (it must not panic); `i<k>`: read call k fails once with ErrorKind::Interrupted
    out = run_replay(['recv', flav, hexs(stream), str(max_receives) + ('+' if again else '')] + [str(c) for c in cuts] + (['i%d' % interrupt] if interrupt is not None else []), small=small)
    if 'panic' in out:
        return 'panic', [], out
    cv = out.get('connect', ['?'])[0]
    conn = cv.split()[0] if cv.split() else 'err'
    if conn != 'ok':
        # connect errors are printed as `connect=out=<kind>`
        co = cv.split('=', 1)[1].split()[0] if '=' in cv else 'err'
        return co, [], out
    return 'connected', native_outcomes(out), out

def replay_for(prop, rec):
    inp = rec.get('input') or rec
    D = ConcreteDecider()
    D.must = lambda c: c is True or (is_sym(c) and z3.is_true(z3.simplify(c)))
    stream = unhex(inp['stream'])
    check = inp.get('check')
    if check == 'prefix':
        # replayed at connection level: the complete input and each prefix followed by the rest in a second read must agree
        return replay_for(prop, {'input': {'stream': inp['stream'], 'flav': 'sync', 'cuts': [], 'cap': 8, 'check': 'segmentation', 'rawgreeting': inp.get('greeting', False), 'allsplits': True}})
    small = inp.get('cap', 8) != 4096
    raw = inp.get('rawgreeting', False)
    full = stream if raw else bytes(GREETING) + stream
    g = 0 if raw else len(GREETING)
    cuts = sorted(set(([g] if g else []) + [g + c for c in inp.get('cuts', [])]))
    co, outs, out = native_session(full, inp['flav'], cuts, small, again=bool(inp.get('again')), interrupt=inp.get('interrupt'))
    if co == 'panic':
        return True, 'native run panics: ' + unhex(out['panic'][0]).decode('utf-8', 'replace')[:100]
    if check == 'segmentation':
        base = native_session(full, 'sync', [g] if g else [], small)
        plans = [(inp['flav'], cuts)]
        if inp.get('allsplits'):
            plans = [(f, sorted(set(([g] if g else []) + [j]))) for j in range(g + 1, len(full)) for f in ('sync', 'async')]
        for f, cs in plans:
            co2, outs2, _ = native_session(full, f, cs, small)
            c = co2 == base[0] and outcomes_cond(outs2, base[1])
            if c is not True:
                return True, 'native: %s reads cut at %s give %s %s, one read gives %s %s' % (f, cs, co2, outs2, base[0], base[1])
        return False, 'native results do not depend on the segmentation'
    if check == 'greeting':
        wk, wv = greeting_reference(D, list(stream))
        got = {'connected': 'ok', 'invalid': 'invalid', 'eof': 'eof'}.get(co, co)
        ver = unhex(out['connect'][0].split()[1]) if co == 'connected' and len(out['connect'][0].split()) > 1 else b''
        bad = got != wk or (wk == 'ok' and list(ver) != list(wv))
        return bad, 'native connect: %s version %r, greeting grammar: %s' % (co, ver, wk)
    if raw:
        # robustness on a raw first line: only panics / read counts matter
        reads = int(out.get('reads', ['0'])[0]) if 'reads' in out else 0
        if check == 'eof':
            return co != 'eof', 'native connect on a cut greeting: %s' % co
        return False, 'native run returns %s' % co
    want, status = expected_from_reference(D, list(stream))
    if inp.get('interrupt') is not None:
        if co != 'connected':
            return co != 'ioerror', 'native: connect hit the interrupted read and reports %r' % co
        last = out.get('out', ['?'])[-1] if out.get('out') else '?'
        return (not last.startswith('ioerror')), 'native: the call that hit the interrupted read reports %r (outcomes %s)' % (last, out.get('out'))
    if check == 'robust' and status == 'invalid':
        k = len(want) - 1
        bad = len(outs) <= k or outs[k].kind != 'invalid'
        return bad, 'native outcomes %s, reference %s' % (outs, want)
    lim = 5
    c = outcomes_cond(outs[:lim], want[:lim])
    if co != 'connected':
        return True, 'native connect fails: %s' % co
    if prop == 'C03' and c is True:
        # the key alphabet lemma
        kc = keys_in_alphabet(D, outs)
        return (kc is not True), 'native decode matches the reference; key alphabet %s' % kc
    return (c is not True), 'native outcomes %s, reference %s' % (outs, want)

EXPL = ('Bounded symbolic execution of the real MIR of parser.rs, ResponseBuilder and both connections (the async one as the compiler\'s coroutine state machines) over a scripted transport: '
        'stream bytes are symbolic (templates with free holes and fully free byte strings), read segmentations are enumerated / symbolic choices, the receive buffer constant is replaced by 8 so that growth '
        'and re-joining are exercised; every branch and the final comparison with an independent reference decoder of the MPD response grammar are decided by z3; counterexamples are replayed natively '
        '(with the verif-small-buffer hook for the 8-byte buffer)')
ASSUME = ['nom combinators are modelled with nom 7 streaming semantics (models_nom.py); BytesMut by its documented contract (capacity not observable); std::io / tokio read_buf deliver exactly the scripted segments',
          'core::str::from_utf8 is modelled by the Unicode well-formedness table (oracles/utf8.py)',
          'the greeting is delivered in a read of its own (both connect functions discard bytes that arrive in the same read after the greeting line; MPD sends nothing unrequested after the greeting)',
          'stream lengths, hole sizes and numbers of reads as stated in the bounds; the literal 4096-byte buffer only in the instances that say cap 4096 (streams shorter than the buffer)']
