"""C12 - typed response conversion is total: never panics on any server reply.

Real code executed (MIR): <X as Command>::response for every predefined command with a non-trivial reply, the
from_frame / parse functions behind them (Status, Stats, ReplayGainStatus, Count, build_grouped_values, List, Playlist,
SongBuilder and friends, sticker parsing, AlbumArt, parse_channel_messages, value / optional_value / song_identifier /
parse_integer / parse_duration / FromFieldValue impls), the accessors and iterators of the results
(ListValuesIter, ListValuesIntoIter, GroupedListValuesIter, Song::{artists, album_artists, album, title, number,
file_path}), and both typed CommandList::responses families for frame counts other than the command count.
Any feasible path ending in a panic is a counterexample.
"""
import time, re
import z3
from values import *
import engine
from engine import explore
from props.common import Result, known_findings, run_replay, hexs, unhex
from props.resp_common import *
from props.c20 import tag_value
from models_iter import iter_next, STOP, into_iter
from models_core import deref

PROP = 'C12'
TIER = ['quick']

def sel(*opts):
    return list(opts)

STATUS_KEYS = {
    'volume': NUM, 'state': sel(b'play', b'pause', b'stop', b'x', b''), 'repeat': BOOL, 'random': BOOL, 'consume': BOOL,
    'single': sel(b'0', b'1', b'oneshot', b'x'), 'playlist': NUM, 'playlistlength': NUM, 'song': NUM, 'songid': NUM, 'nextsong': NUM,
    'nextsongid': NUM, 'elapsed': FLT, 'duration': FLT, 'Time': sel(lambda I, n: list(b'1:') + v_float(I, n), b'5', b':', lambda I, n: v_dec(I, n) + [58] + v_dec(I, n + 'b')),
    'bitrate': NUM, 'xfade': FLT, 'update_job': NUM, 'error': TXT, 'partition': TXT}
STATUS_BASE = [('state', b'play'), ('repeat', b'0'), ('random', b'1'), ('consume', b'0')]
STATS_KEYS = {'artists': NUM, 'albums': NUM, 'songs': NUM, 'uptime': FLT, 'playtime': FLT, 'db_playtime': FLT, 'db_update': NUM}
STATS_BASE = [(k, b'1') for k in STATS_KEYS]
RANGE = sel(lambda I, n: v_float(I, n) + [45] + v_float(I, n + 'b'), lambda I, n: v_float(I, n) + [45], b'-', b'1', b'1.5-2.5', lambda I, n: v_dec(I, n) + [45] + v_dec(I, n + 'b'),
            lambda I, n: v_sym(I, n, 2))
SONG_KEYS = {'file': sel(b'f', b'', lambda I, n: v_sym(I, n, 1)), 'directory': TXT, 'playlist': TXT, 'Last-Modified': sel(b'2020-06-12T17:53:00Z', b'', lambda I, n: v_sym(I, n, 1)),
             'duration': FLT, 'Time': FLT, 'Range': RANGE, 'Format': TXT, 'Prio': NUM, 'Pos': NUM, 'Id': NUM, 'Title': TXT, 'Disc': NUM, '?': TXT}
SONG_KEYS_SMALL = ['file', 'directory', 'Last-Modified', 'duration', 'Time', 'Pos', 'Title', '?']

# entry -> (kind, spec)
#   'fields': independent fields: dict key->menu, base list          (one field symbolic at a time + all-absent/all-present)
#   'seq'   : ordered replies: dict key->menu, max length (quick, thorough)
SPECS = {
    'Status': ('fields', STATUS_KEYS, STATUS_BASE),
    'Stats': ('fields', STATS_KEYS, STATS_BASE),
    'ReplayGainStatus': ('fields', {'replay_gain_mode': sel(b'off', b'track', b'album', b'auto', b'x', b'')}, []),
    'Count': ('fields', {'songs': NUM, 'playtime': FLT}, [('songs', b'1'), ('playtime', b'2')]),
    'Add': ('fields', {'Id': NUM}, []),
    'Update': ('fields', {'updating_db': NUM}, []),
    'Rescan': ('fields', {'updating_db': NUM}, []),
    'AlbumArt': ('fields', {'size': NUM, 'type': TXT}, [('size', b'3')]),
    'AlbumArtEmbedded': ('fields', {'size': NUM, 'type': TXT}, [('size', b'3')]),
    'CountGrouped': ('seq', {'Artist': TXT, 'songs': NUM, 'playtime': FLT, '?': TXT}, (3, 5)),
    'List0': ('seq', {'Artist': TXT, 'Album': TXT, '?': TXT}, (2, 4)),
    'List1': ('seq', {'Artist': TXT, 'Album': TXT, 'Date': TXT, '?': TXT}, (3, 4)),
    'List2': ('seq', {'Artist': TXT, 'Album': TXT, 'Date': TXT, '?': TXT}, (2, 4)),
    'GetPlaylists': ('seq', {'playlist': TXT, 'Last-Modified': TXT, '?': TXT}, (3, 4)),
    'TagTypes': ('seq', {'tagtype': sel(b'Artist', b'', b'a b', lambda I, n: v_sym(I, n, 2)), '?': TXT}, (2, 3)),
    'Queue': ('seq', SONG_KEYS, (2, 3)),
    'CurrentSong': ('seq', {k: SONG_KEYS[k] for k in SONG_KEYS_SMALL}, (2, 3)),
    'Find': ('seq', {k: SONG_KEYS[k] for k in SONG_KEYS_SMALL}, (3, 4)),
    'GetPlaylist': ('seq', {k: SONG_KEYS[k] for k in SONG_KEYS_SMALL}, (2, 3)),
    'ListAllIn': ('seq', {k: SONG_KEYS[k] for k in SONG_KEYS_SMALL}, (2, 3)),
    'StickerGet': ('seq', {'sticker': sel(b'a=b', b'=', b'ab', b'', b'a=b=c', lambda I, n: v_sym(I, n, 2)), '?': TXT}, (2, 2)),
    'StickerList': ('seq', {'sticker': sel(b'a=b', b'=', b'ab', lambda I, n: v_sym(I, n, 2)), '?': sel(b'x=y', b'z')}, (2, 3)),
    'StickerFind': ('seq', {'file': TXT, 'sticker': sel(b'a=b', b'=', b'ab', lambda I, n: v_sym(I, n, 2)), '?': TXT}, (3, 4)),
    'ReadChannelMessages': ('seq', {'channel': TXT, 'message': TXT, '?': TXT}, (3, 5)),
    'ListChannels': ('seq', {'channel': TXT, '?': TXT}, (2, 3)),
}

# Last-Modified values for the chrono configuration
CHRONO_LM = sel(b'2020-06-12T17:53:00Z', b'2020-06-12T17:53:00.25+02:00', b'', b'x', b'2020-13-40T25:61:61Z', b'-9223372036854775808', b'10000000000000000',
                lambda I, n: v_dec(I, n), lambda I, n: [45] + v_dec(I, n, 64), lambda I, n: v_sym(I, n, 2))

def instances(tier, seed):
    out = []
    TIER[0] = tier
    for entry, spec in SPECS.items():
        if spec[0] == 'fields':
            out.append({'entry': entry, 'mode': 'presence'})
            out.append({'entry': entry, 'mode': 'fieldlong'})
            for k in spec[1]:
                out.append({'entry': entry, 'mode': 'field', 'key': k})
        else:
            n = spec[2][0 if tier == 'quick' else 1]
            keys = list(spec[1])
            def add(m, first):
                if m == 0:
                    out.append({'entry': entry, 'mode': 'seq', 'n': 0, 'first': None, 'sympos': 0, 'tier': tier})
                elif tier == 'quick':
                    out.append({'entry': entry, 'mode': 'seq', 'n': m, 'first': first, 'sympos': (seed + len(out)) % m, 'tier': tier})
                else:
                    for sp in range(m):
                        out.append({'entry': entry, 'mode': 'seq', 'n': m, 'first': first, 'sympos': sp, 'tier': tier})
            if len(keys) ** n > 400:
                # split by the first key to spread the work over processes
                for k0 in keys:
                    add(n, k0)
                for m in range(0, n):
                    add(m, None)
            else:
                for m in range(0, n + 1):
                    add(m, None)
    # the optional `chrono` configuration of mpd_client (Timestamp parses Last-Modified with chrono): every reply kind that carries
    # a timestamp, the timestamp field first, its value from a menu of RFC 3339 texts, malformed texts and integers of any magnitude
    for entry in ('GetPlaylists', 'Queue', 'CurrentSong', 'Find', 'ListAllIn', 'GetPlaylist'):
        n = 2 if tier == 'quick' else 3
        for m in range(1, n + 1):
            out.append({'entry': entry, 'mode': 'seq', 'n': m, 'first': 'Last-Modified', 'sympos': 0, 'tier': tier, 'feat': 'chrono'})
        out.append({'entry': entry, 'mode': 'seq', 'n': n, 'first': 'file' if entry != 'GetPlaylists' else 'playlist', 'sympos': 1, 'tier': tier, 'feat': 'chrono'})
    # assume/guarantee link: the field-name alphabet the conversions rely on (Tag::try_from(..).unwrap()) is what the real parser delivers
    out.append({'entry': 'parser-lemma', 'mode': 'lemma', 't': 'keys', 'flav': 'sync', 'seg': 'whole', 'cap': 4096, 'v': 1})
    out.append({'entry': 'parser-lemma', 'mode': 'lemma', 't': 'list', 'flav': 'async', 'seg': 'bytes', 'cap': 8, 'v': 1})
    for kind in ('vec', 'tuple'):
        for n in (1, 2, 3):
            for m in (0, 1, 2, 3, 4):
                if m != n and not (kind == 'tuple' and m > n and tier == 'quick' and m > n + 1):
                    out.append({'entry': 'typedlist', 'mode': 'count', 'kind': kind, 'n': n, 'm': m})
    return out

def bounds(tier):
    return {'quick': 'every predefined command with a structured reply. Field-oriented replies (status, stats, count, replay gain, addid, update, albumart): every field in turn with symbolic presence '
                     '(absent / once / twice) and a symbolic value kind (decimal number of ANY magnitude < 2^72, decimal text of ANY non-negative finite f64, NaN/inf/negative/empty spellings, '
                     'every enum spelling, 1-2 free ASCII bytes) while the other fields hold valid values, plus every subset of present fields for <= 4 keys, plus every field in turn with a ~260-byte value that has a two-byte character at byte offset 255..257; decimal float texts are at most 40 bytes long. Order-sensitive replies (songs, count group, list, '
                     'listplaylists, tagtypes, stickers, channels, messages): every key sequence of length <= 2..3 over the command\'s field names plus a foreign name (1-2 symbolic bytes of [A-Za-z_-]), '
                     'value kind symbolic at one seed-chosen position, then every accessor/iterator of the result is driven to the end. Typed lists (Vec, tuples) of 1..3 commands given 0..4 frames.',
            'thorough': 'as quick with key sequences of length <= 3..5 and the symbolic value kind at every position'}[tier]

# ---------------------------------------------------------------------------- accessors ("then iterating or reading the resulting value")
def drain(I, it, limit=12):
    n = 0
    while iter_next(I, it) is not STOP:
        n += 1
        if n > limit:
            raise InternalError('iterator does not end')
    return n

RL = 'mpd_client::responses::list::List'
def read_result(I, P, entry, v):
    if entry in ('List0', 'List1', 'List2'):
        n = entry[4]
        if n == '0':
            it = I.call_repo(RL + '::<0>::values', [ref_to(v)])
            drain(I, ValLoc(it) and ref_to(it))
            it = I.call_repo(RL + '::<0>::values', [ref_to(v)])
            I.call_path("<mpd_client::responses::list::ListValuesIter<'_> as Iterator>::count", [it])
            it = I.call_repo(RL + '::<0>::values', [ref_to(v)])
            I.call_path("<mpd_client::responses::list::ListValuesIter<'_> as Iterator>::last", [it])
            it = I.call_repo(RL + '::<0>::values', [ref_to(v)])
            I.call_path("<mpd_client::responses::list::ListValuesIter<'_> as DoubleEndedIterator>::next_back", [ref_to(it)])
            I.call_path("<mpd_client::responses::list::ListValuesIter<'_> as Iterator>::nth", [ref_to(it), 1])
        it = I.call_repo(RL + '::<%s>::grouped_values' % n, [ref_to(v)])
        drain(I, ref_to(it))
        I.call_repo(RL + '::<%s>::grouped_by' % n, [ref_to(v)])
        if n == '0':
            it = I.call_repo('<mpd_client::responses::list::List<0> as IntoIterator>::into_iter', [v])
            drain(I, ref_to(it))
        else:
            I.call_repo(RL + '::<%s>::into_raw_values' % n, [v])
    elif entry in ('Queue', 'CurrentSong', 'Find', 'GetPlaylist', 'ListAllIn'):
        songs = []
        if entry == 'CurrentSong':
            if v.variant == 'Some':
                songs = [v.fields[0].field('song')]
        elif entry == 'Queue':
            songs = [s.field('song') for s in v.v]
        else:
            songs = list(v.v)
        S = 'mpd_client::responses::song::Song::'
        for s in songs:
            for acc in ('artists', 'album_artists', 'album', 'title', 'number', 'file_path'):
                I.call_repo(S + acc, [ref_to(s)])

def build_value(I, name, menu):
    return choose_value(I, name, menu)

def key_items(I, k, name):
    if k == '?':
        n = 1 + (I.ctx.choose(2, name + '_len') if TIER[0] != 'quick' else 0)
        return key_sym(I, name, n)
    return list(k.encode())

def run_instance(payload):
    feat = payload.get('feat')
    P = engine.load_program(variant=feat)
    res = Result(str(payload))
    t0 = time.time()
    entry = payload['entry']; mode = payload['mode']
    TIER[0] = payload.get('tier', 'quick')
    if mode == 'lemma':
        from props import parsergroup as PG
        r = PG.run_for('C03', payload)
        keep = []
        for v in r['violations']:
            if 'field name' in v['what'] or 'reference' in v['what']:
                v['what'] = 'protocol layer breaks the field-name guarantee the typed layer unwraps on: ' + v['what']
                v['input']['lemma'] = True
                keep.append(v)
        r['violations'] = keep
        r['classes'] = {'typed value': r['paths']}
        return r
    kf = known_findings(PROP)

    def harness(I):
        I._fields = None; I._binary = None
        if mode == 'count':
            n, m = payload['n'], payload['m']
            upd = lambda: I.call_repo(CMD + 'Update::new', [])
            frames = VecObj([mk_frame([(b'updating_db', str(i).encode())]) for i in range(m)])
            if payload['kind'] == 'vec':
                val = VecObj([upd() for _ in range(n)]); ty = "Vec<mpd_client::commands::definitions::Update<'_>>"
            else:
                val = Tup([upd() for _ in range(n)])
                ty = '(' + ', '.join("mpd_client::commands::definitions::Update<'_>" for _ in range(n)) + (',)' if n == 1 else ')')
            return I.call_repo('<%s as mpd_client::commands::CommandList>::responses' % ty, [val, frames])
        kind, keys, extra = SPECS[entry]
        if feat == 'chrono':
            keys = dict(keys); keys['Last-Modified'] = CHRONO_LM
        fields = []
        binary = None
        if entry.startswith('AlbumArt'):
            if I.ctx.choose(2, 'binary') == 0:
                binary = list(b'abc')
        if mode == 'presence':
            ks = list(keys)
            if len(ks) <= 4:
                for k in ks:
                    if I.ctx.choose(2, 'has_' + k) == 0:
                        fields.append((list(k.encode()), list(dict(extra).get(k, b'1'))))
            else:
                which = I.ctx.choose(3, 'all')
                if which == 0:
                    fields = [(list(k.encode()), list(v)) for k, v in extra]
                elif which == 1:
                    valid = {'volume': b'50', 'state': b'play', 'repeat': b'0', 'random': b'0', 'consume': b'1', 'single': b'oneshot', 'playlist': b'7', 'playlistlength': b'3',
                             'song': b'1', 'songid': b'2', 'nextsong': b'2', 'nextsongid': b'3', 'elapsed': b'1.5', 'duration': b'200.25', 'Time': b'1:200', 'bitrate': b'320',
                             'xfade': b'2', 'update_job': b'1', 'error': b'e', 'partition': b'default'}
                    fields = [(list(k.encode()), list(valid.get(k, b'1'))) for k in ks]
        elif mode == 'fieldlong':
            # one field (symbolic choice) carries a long value: 255/256/257 ASCII bytes, a two-byte character, three more bytes - invalid for
            # every typed field, plain text for the others; whatever the conversion does with it (error values, logs) must not panic
            klist = list(keys)
            k = klist[I.ctx.choose(len(klist), 'longkey')]
            pad = 255 + I.ctx.choose(3, 'pad')
            fields = [(list(a.encode()), list(b)) for a, b in extra if a != k]
            fields.append((list(k.encode()), list(b'x' * pad + '\u00e9'.encode() + b'yyy')))
        elif mode == 'field':
            k = payload['key']
            fields = [(list(a.encode()), list(b)) for a, b in extra if a != k]
            pres = I.ctx.choose(3, 'presence')
            pos = (0 if I.ctx.choose(2, 'pos') == 0 else len(fields)) if fields else 0
            new = []
            for j in range(pres):
                new.append((list(k.encode()), build_value(I, '%s%d' % (k.replace('-', '_'), j), keys[k]) if j == 0 else list(b'1')))
            fields[pos:pos] = new
        else:
            n = payload['n']
            klist = list(keys)
            sympos = (payload.get('sympos') if payload.get('sympos') is not None else None)
            for j in range(n):
                if j == 0 and payload.get('first'):
                    k = payload['first']
                else:
                    k = klist[I.ctx.choose(len(klist), 'key%d' % j)]
                ki = key_items(I, k, 'k%d' % j)
                menu = keys[k]
                if I._sympos is None or I._sympos == j:
                    v = build_value(I, 'v%d' % j, menu)
                else:
                    m0 = menu[0]
                    v = m0(I, 'v%d' % j) if callable(m0) else list(m0)
                fields.append((ki, v))
        I._fields = fields; I._binary = binary
        frame = mk_frame(fields, binary)
        try:
            r = respond(I, P, entry, frame)
            if r.variant == 'Ok':
                read_result(I, P, entry, r.fields[0])
        except Unsupported as e:
            # a library call without a model: the path cannot be decided symbolically.  Before giving up (INCONCLUSIVE) the
            # native build is run on solver-chosen inputs of the path so far, with every symbolic number pushed to its extremes
            return ('unsupported', str(e))
        return r

    def setup(I):
        # the position whose value kind is symbolic in 'seq' mode (seed chosen in quick, see instances)
        I._sympos = payload.get('sympos', None)

    undecided = []
    for pr in explore(P, harness, setup=setup):
        res.paths += 1
        ctx = pr.ctx
        I = pr.interp
        if pr.kind == 'panic':
            where = (pr.error.where or '') + ' | ' + pr.error.msg
            key = None
            for k, e in kf.items():
                if e.get('status') == 'known' and re.search(e['site'], where):
                    key = k
            m = ctx.model()
            if mode == 'count':
                rec = {'entry': 'typedlist', 'kind': payload['kind'], 'n': payload['n'], 'm': payload['m']}
            else:
                rec = {'entry': entry, 'wire': hexs(wire_of(m, I._fields or [], I._binary)), 'feat': feat}
            if key:
                res.known.setdefault(key, dict(rec, what='panic: ' + pr.error.msg[:120]))
            else:
                res.violations.append({'what': 'panic in %s: %s' % (pr.error.where, pr.error.msg[:160]), 'input': rec})
            res.cls('panic', nontrivial=True)
        elif isinstance(pr.value, tuple) and pr.value[0] == 'unsupported':
            hit = None
            for extra in boundary_constraints(I._fields or []):
                m = ctx.model(*extra)
                if m is None:
                    continue
                rec = {'entry': entry, 'wire': hexs(wire_of(m, I._fields or [], I._binary)), 'feat': feat}
                rep, detail = replay(rec)
                if rep:
                    hit = (rec, detail); break
            if hit is None:
                undecided.append(pr.value[1])
                continue
            res.violations.append({'what': 'panic (found by running the native build on boundary inputs of a path the models cannot follow: %s): %s' % (pr.value[1][:80], hit[1]), 'input': hit[0]})
            res.cls('panic', nontrivial=True)
        else:
            r = pr.value
            res.cls('typed value' if r.variant == 'Ok' else 'typed error', nontrivial=True)
            if mode == 'count':
                res.xval_path('count ' + r.variant, replay, lambda: {'entry': 'typedlist', 'kind': payload['kind'], 'n': payload['n'], 'm': payload['m']})
            else:
                res.xval_path('%s %s' % (entry, r.variant), replay, lambda: {'entry': entry, 'wire': hexs(wire_of(ctx.model(), I._fields or [], I._binary)), 'feat': feat})
            if len(res.samples) < 1 and mode != 'count':
                res.samples.append({'entry': entry, 'reply': wire_of(ctx.model(), I._fields or [], I._binary).decode('latin1'), 'result': r.variant})
        res.take_stats(ctx.stats); ctx.stats.__init__()
    if undecided and not res.violations:
        raise Unsupported(undecided[0])
    if undecided:
        res.notes.append('%d path(s) could not be followed by the models (%s); native boundary witnesses of other such paths panic' % (len(undecided), undecided[0][:80]))
    res.wall_s = time.time() - t0
    return res.to_dict()

def boundary_constraints(fields):
    """constraint sets that push the symbolic numbers of a reply to their extremes (one witness per set)"""
    nums = [x for _, v in fields for x in v if isinstance(x, DecRun)]
    sets = [[]]
    for x in nums:
        w = x.val.size()
        for lo in (1 << 63, (1 << 63) - 1, 10 ** 16, 1 << 32, 1 << 31):
            if lo < (1 << w):
                sets.append([z3.UGE(x.val, lo), z3.ULT(x.val, min(2 * lo, (1 << w) - 1))])
        sets.append([x.val == 0])
        sets.append([x.val == (1 << min(w, 64)) - 1])
    return sets[:40]

def replay(rec):
    inp = rec.get('input') or rec
    if inp.get('lemma'):
        from props import parsergroup as PG
        return PG.replay_for('C03', rec)
    if inp.get('entry') == 'typedlist':
        out = run_replay(['typedcount', inp['kind'], str(inp['n']), str(inp['m'])])
    else:
        out = run_replay(['resp', inp['entry'], inp['wire']], chrono=inp.get('feat') == 'chrono')
    if 'panic' in out:
        return True, 'native run panics: ' + unhex(out['panic'][0]).decode('utf-8', 'replace')[:100]
    return False, 'native run does not panic: %s' % {k: v for k, v in out.items() if not k.startswith('_')}

DESCR = {
    'F-C12-dur': 'duration value 2^64 (18446744073709551616) passes the range guard of parse_duration and Duration::from_secs_f64 panics',
    'F-C12-group': 'grouped list iteration panics (position(..).unwrap()) on a field that is neither the listed tag nor a grouping tag',
    'F-C12-count': 'typed command lists panic (assert_eq! / next().unwrap()) when the server sends another number of frames than commands',
}
REQUIRED_CLASSES = ['typed value', 'typed error']
EXPLANATION = ('Bounded symbolic execution of the real MIR of every typed response conversion and of the accessors/iterators of the results; replies are frames in the '
               'representation the protocol layer produces with symbolic field names (from its alphabet), symbolic presence/order and symbolic values including numbers of any '
               'magnitude (one solver term per number) and any f64; a feasible path that reaches a panic (MIR assert, core::panicking, unwrap/expect, Duration::from_secs_f64 '
               'contract) is the counterexample, concretised by z3 and replayed natively under catch_unwind')
ASSUMPTIONS = ['field names are in the alphabet the protocol parser guarantees ([A-Za-z_-]+, C03); values are ASCII without LF',
               'without the chrono feature (Timestamp stores the raw string); the chrono configuration is not claimed',
               'f64 parsing is modelled as: decimal text of any non-negative finite f64 / of any integer < 2^72 parses to that value, the listed special spellings concretely, free bytes parse to an error or to ANY f64 only when a decimal spelling of that value exists',
               'Duration::from_secs_f64 is modelled by its documented contract (panics iff negative, NaN or >= 2^64 s)',
               'field-oriented replies: one field symbolic at a time (the conversion handles fields independently: Frame::get by name); order-sensitive replies: key sequences up to the stated length',
               'library models: Frame construction, HashMap (association list), Vec, iterators, str::parse/split_once, Option/Result combinators']
RULE = 'one evaluation = one feasible path (entry x reply shape x value kinds); all paths run a conversion, so all are non-trivial'
