"""C16 - status, stats, count, list, playlist, sticker, channel, tag-type, update and replay-gain replies decode faithfully.

Real code executed (MIR): the `response` of Status, Stats, ReplayGainStatus, Count, CountGrouped, List<0..1>, GetPlaylists,
GetEnabledTagTypes, StickerGet/List/Find, ReadChannelMessages, ListChannels, Update, Rescan, Add and everything behind them
(value / optional_value / song_identifier / FromFieldValue impls / parse_integer / parse_duration / build_grouped_values /
GroupedListValuesIter / ListValuesIter / Playlist::parse_frame / parse_sticker_value / parse_channel_messages).
Oracle: field -> member tables and reference folds written from the MPD protocol reference.
"""
import time
from decimal import Decimal
import z3
from values import *
import engine
from engine import explore, model_bytes
from props.common import guarded, Undecided, Result, run_replay, hexs, unhex
from props.resp_common import *
from props.c14 import dur_ns, lines_match, canon_tag
from props.c20 import TAGS
from models_iter import iter_next, STOP
from models_core import concrete_bytes, as_items

PROP = 'C16'

# ---------------------------------------------------------------------------- value domains
class Dom:
    """a field domain: in-domain generator (returns wire items + expected value), out-of-domain generators"""
def d_uint(bits):
    def good(I, n):
        v = v_dec(I, n, bits)
        return v, v[0].val
    def bad(I, n):
        k = I.ctx.choose(3, n + '_bad')
        if k == 0:
            v = v_dec(I, n, bits + 8)
            I.ctx.assume(z3.UGE(v[0].val, 1 << bits))
            return v
        return list([b'-1', b'x'][k - 1])
    return good, bad
DUR_MENU = [b'0', b'1.001', b'123.456', b'0.0005', b'7']
def d_dur():
    def good(I, n):
        t = DUR_MENU[I.ctx.choose(len(DUR_MENU), n + '_dur')]
        return list(t), ('dur', t)
    def bad(I, n):
        return list([b'-1', b'NaN', b'x', b'inf', b'1e30'][I.ctx.choose(5, n + '_bad')])
    return good, bad
# every spelling that is valid for *some* enumerated field (plus near misses): out of domain for a field unless it is one of its own
ALL_SPELLINGS = [b'0', b'1', b'2', b'true', b'false', b'on', b'off', b'oneshot', b'play', b'pause', b'stop', b'track', b'album', b'auto',
                 b'Play', b'ONESHOT', b'1 ', b' 0', b'01', b'x', b'']
def d_enum(pairs, bads=None):
    if bads is None:
        own = {t for t, _ in pairs}
        bads = tuple(x for x in ALL_SPELLINGS if x not in own)
    def good(I, n):
        t, v = pairs[I.ctx.choose(len(pairs), n + '_enum')]
        return list(t), ('enum', v)
    def bad(I, n):
        return list(bads[I.ctx.choose(len(bads), n + '_bad')])
    return good, bad
def d_str():
    def good(I, n):
        t = [b'text', b'', b'a: b'][I.ctx.choose(3, n + '_str')]
        return list(t), t
    return good, None
BOOL_D = d_enum([(b'0', False), (b'1', True)])

# status: key -> (domain, required)
STATUS = {
    'volume': (d_uint(8), False), 'state': (d_enum([(b'play', 'Playing'), (b'pause', 'Paused'), (b'stop', 'Stopped')]), True),
    'repeat': (BOOL_D, True), 'random': (BOOL_D, True), 'consume': (BOOL_D, True),
    'single': (d_enum([(b'0', 'Disabled'), (b'1', 'Enabled'), (b'oneshot', 'Oneshot')]), False),
    'playlist': (d_uint(32), False), 'playlistlength': (d_uint(64), False), 'song': (d_uint(64), False), 'songid': (d_uint(64), False),
    'nextsong': (d_uint(64), False), 'nextsongid': (d_uint(64), False), 'elapsed': (d_dur(), False), 'duration': (d_dur(), False),
    'bitrate': (d_uint(64), False), 'xfade': (d_dur(), False), 'update_job': (d_uint(64), False), 'error': (d_str(), False), 'partition': (d_str(), False)}
STATUS_BASE = {'state': (b'play', ('enum', 'Playing')), 'repeat': (b'0', False), 'random': (b'1', True), 'consume': (b'0', False)}
STATS = {k: (d_uint(64) if k in ('artists', 'albums', 'songs', 'db_update') else d_dur(), True) for k in ('artists', 'albums', 'songs', 'uptime', 'playtime', 'db_playtime', 'db_update')}
STATS_BASE = {k: (b'1', 1 if k in ('artists', 'albums', 'songs', 'db_update') else ('dur', b'1')) for k in STATS}
FIELD_ENTRIES = {
    'Status': (STATUS, STATUS_BASE),
    'Stats': (STATS, STATS_BASE),
    'Count': ({'songs': (d_uint(64), True), 'playtime': (d_dur(), True)}, {'songs': (b'3', 3), 'playtime': (b'2', ('dur', b'2'))}),
    'ReplayGainStatus': ({'replay_gain_mode': (d_enum([(b'off', 'Off'), (b'track', 'Track'), (b'album', 'Album'), (b'auto', 'Auto')]), True)}, {'replay_gain_mode': (b'off', ('enum', 'Off'))}),
    'Update': ({'updating_db': (d_uint(64), True)}, {'updating_db': (b'1', 1)}),
    'Rescan': ({'updating_db': (d_uint(64), True)}, {'updating_db': (b'1', 1)}),
    'Add': ({'Id': (d_uint(64), True)}, {'Id': (b'1', 1)}),
}
SEQ_ENTRIES = ['CountGrouped', 'List0', 'List1', 'GetPlaylists', 'TagTypes', 'StickerGet', 'StickerList', 'StickerFind', 'ReadChannelMessages', 'ListChannels']

def instances(tier, seed):
    out = []
    for e, (spec, base) in FIELD_ENTRIES.items():
        out.append({'entry': e, 'mode': 'base'})
        for k in spec:
            out.append({'entry': e, 'mode': 'field', 'key': k})
    if tier != 'quick':
        ks = list(STATUS)
        for i in range(len(ks)):
            out.append({'entry': 'Status', 'mode': 'pair', 'keys': [ks[i], ks[(i + 5) % len(ks)]]})
    out.append({'entry': 'Status', 'mode': 'legacy_time'})
    for e in SEQ_ENTRIES:
        for n in range(0, 3 if tier == 'quick' else 4):
            out.append({'entry': e, 'mode': 'seq', 'n': n})
    return out

def bounds(tier):
    return {'quick': 'field-oriented replies (status, stats, count, replay gain, update, rescan, addid): every field in turn with symbolic presence (absent / in-domain / out-of-domain) at a symbolic position '
                     '(first / last) while the others hold the base reply; in-domain numbers are ANY value of the member type (one solver term), out-of-domain ones ANY value beyond it, negative or non-numeric; every '
                     'enum spelling; durations from {0, 1.001, 123.456, 0.0005, 7}; the legacy status Time field. Sequence replies (count group, list plain/grouped, listplaylists, tagtypes (every known name, symbolic '
                     'letter case), sticker get/list/find with = inside values, channels, messages): every abstract reply of 0..2 items with symbolic group keys from a 2-element alphabet (repeated and changing), '
                     'symbolic field order where MPD does not fix it',
            'thorough': 'as quick plus pairs of simultaneously symbolic status fields and sequence replies of 0..3 items'}[tier]

# ---------------------------------------------------------------------------- comparing decoded values with expectations
def same(ctx, got, want):
    """None if `got` (interpreter value) equals the expectation, else a description"""
    if isinstance(got, Ref):
        got = got.get()
    if want is None:
        return None if (isinstance(got, Adt) and got.variant == 'None') else 'expected None, got %r' % (got,)
    if isinstance(want, tuple) and want[0] == 'some':
        if not (isinstance(got, Adt) and got.variant == 'Some'):
            return 'expected Some, got %r' % (got,)
        return same(ctx, got.fields[0], want[1])
    if isinstance(want, tuple) and want[0] == 'dur':
        s, n = got.fields
        return None if abs(s * 10 ** 9 + n - dur_ns(want[1])) <= 1 else 'duration %s.%09d for %r' % (s, n, want[1])
    if isinstance(want, tuple) and want[0] == 'enum' and isinstance(want[1], bool):
        return None if got is want[1] else 'expected %s, got %r' % (want[1], got)
    if isinstance(want, tuple) and want[0] == 'enum':
        return None if (isinstance(got, Adt) and got.variant == want[1]) else 'expected %s, got %r' % (want[1], got)
    if isinstance(want, tuple) and want[0] == 'tuple':
        items = got.items if isinstance(got, Tup) else got.fields
        for g, w in zip(items, want[1]):
            r = same(ctx, g, w)
            if r:
                return r
        return None
    if isinstance(want, bool):
        return None if got is want else 'expected %s, got %r' % (want, got)
    if isinstance(want, (bytes, bytearray)):
        g = bytes(as_items(got))
        return None if g == bytes(want) else 'expected %r, got %r' % (bytes(want), g)
    if isinstance(want, list):
        items = got.v if isinstance(got, VecObj) else got
        if len(items) != len(want):
            return 'expected %d items, got %d' % (len(want), len(items))
        for g, w in zip(items, want):
            r = same(ctx, g, w)
            if r:
                return r
        return None
    # number (int or term)
    if isinstance(got, Adt) and len(got.fields) == 1:      # SongId / SongPosition newtypes
        got = got.fields[0]
    n = 64
    if is_sym(got):
        n = got.size()
    elif is_sym(want):
        n = min(64, want.size())
    return None if ctx.must(int_eq(bv(got, n), bv(want, n))) else 'number differs from the value sent'

# ---------------------------------------------------------------------------- field oriented replies
def status_expect(vals):
    """member expectations from the present, valid fields: dict key -> expected value"""
    g = lambda k, d=None: vals.get(k, d)
    def ident(p, i):
        if p not in vals:
            return None
        if i not in vals:
            return 'ERR'
        return ('some', ('tuple', [vals[p], vals[i]]))
    return {'volume': g('volume', 0), 'state': g('state'), 'repeat': g('repeat'), 'random': g('random'), 'consume': g('consume'),
            'single': g('single', ('enum', 'Disabled')), 'playlist_version': g('playlist', 0), 'playlist_length': g('playlistlength', 0),
            'current_song': ident('song', 'songid'), 'next_song': ident('nextsong', 'nextsongid'),
            'elapsed': ('some', vals['elapsed']) if 'elapsed' in vals else None, 'duration': ('some', vals['duration']) if 'duration' in vals else None,
            'bitrate': ('some', vals['bitrate']) if 'bitrate' in vals else None, 'crossfade': g('xfade', ('dur', b'0')),
            'update_job': ('some', vals['update_job']) if 'update_job' in vals else None,
            'error': ('some', vals['error']) if 'error' in vals else None, 'partition': ('some', vals['partition']) if 'partition' in vals else None}
MEMBERS = {
    'Stats': {'artists': 'artists', 'albums': 'albums', 'songs': 'songs', 'uptime': 'uptime', 'playtime': 'playtime', 'db_playtime': 'db_playtime', 'db_last_update': 'db_update'},
    'Count': {'songs': 'songs', 'playtime': 'playtime'},
    'ReplayGainStatus': {'mode': 'replay_gain_mode'},
}

def run_fields(P, res, payload):
    entry = payload['entry']
    spec, base = FIELD_ENTRIES[entry]
    mode = payload['mode']
    def harness(I):
        fields = []
        vals = {}
        invalid = []
        for k, (w, v) in base.items():
            fields.append([k, list(w), v])
        if mode == 'legacy_time':
            which = I.ctx.choose(4, 'legacy')
            if which == 0:
                fields.append(['Time', list(b'12:345'), ('dur', b'345')])
            elif which == 1:
                fields.append(['Time', list(b'12:345'), None]); fields.insert(0, ['duration', list(b'7.5'), ('dur', b'7.5')])
            elif which == 2:
                fields.append(['Time', list(b'345'), 'INVALID'])
            else:
                fields.append(['Time', list(b'1:x'), 'INVALID'])
        keys = [payload['key']] if mode == 'field' else (payload['keys'] if mode == 'pair' else [])
        for k in keys:
            fields = [f for f in fields if f[0] != k]
            (good, bad), req = spec[k]
            pres = I.ctx.choose(3 if bad else 2, 'pres_' + k)
            if pres == 1:
                w, v = good(I, k.replace('-', '_'))
                new = [k, w, v]
            elif pres == 2:
                new = [k, bad(I, k.replace('-', '_')), 'INVALID']
            else:
                new = None
            if new:
                if I.ctx.choose(2, 'pos_' + k) == 0:
                    fields.insert(0, new)
                else:
                    fields.append(new)
        I._fields = [(list(k.encode()), w) for k, w, _ in fields]
        r = respond(I, P, entry, mk_frame(I._fields))
        return fields, r
    for pr in explore(P, guarded(harness)):
        res.paths += 1
        ctx = pr.ctx
        I = pr.interp
        rec = lambda: {'entry': entry, 'wire': hexs(wire_of(ctx.model(), I._fields))}
        if isinstance(pr.value, Undecided):
            res.undecided_path(pr, replay, rec); continue
        if pr.kind == 'panic':
            res.violations.append({'what': 'conversion panics: ' + pr.error.msg[:100], 'input': rec()}); continue
        fields, r = pr.value
        vals = {}
        invalid = False
        present = {k for k, _, _ in fields}
        for k, w, v in fields:
            if k in ('songid', 'nextsongid') and k[:-2] not in present:
                continue        # the id is only read together with its position: alone it is ignored (no value is derived from it)
            if isinstance(v, str) and v == 'INVALID':
                invalid = True
            elif v is not None and k not in vals:
                if k == 'Time':
                    vals.setdefault('duration', v)
                else:
                    vals[k] = v
        missing = [k for k, (_, req) in spec.items() if req and k not in vals]
        bad = None
        want_err = invalid or bool(missing)
        exp = None
        if entry == 'Status':
            exp = status_expect(vals)
            if any(isinstance(x, str) and x == 'ERR' for x in exp.values()):
                want_err = True
        if want_err:
            if r.variant != 'Err':
                bad = 'reply with an out-of-domain or missing required field is accepted (%s)' % ('missing ' + ','.join(missing) if missing else 'invalid value')
            res.cls('typed error', nontrivial=True)
        elif r.variant != 'Ok':
            bad = 'well-formed reply rejected: %r' % (r.fields[0],)
        else:
            v = r.fields[0]
            if entry == 'Status':
                for member, w in exp.items():
                    d = same(ctx, v.field(member), w)
                    if d:
                        bad = 'status.%s: %s' % (member, d); break
            elif entry in MEMBERS:
                for member, key in MEMBERS[entry].items():
                    d = same(ctx, v.field(member), vals[key])
                    if d:
                        bad = '%s.%s: %s' % (entry, member, d); break
            else:
                key = list(spec)[0]
                d = same(ctx, v, vals[key])
                if d:
                    bad = '%s: %s' % (entry, d)
            res.cls('typed value', nontrivial=True)
        if bad:
            res.violations.append({'what': bad, 'input': rec()})
        else:
            res.xval_path('typed ' + r.variant, replay, rec)
        if len(res.samples) < 1:
            res.samples.append({'entry': entry, 'reply': wire_of(ctx.model(), I._fields).decode('latin1'), 'result': r.variant})
        res.take_stats(ctx.stats); ctx.stats.__init__()

# ---------------------------------------------------------------------------- sequence replies: abstract reply -> (fields, expectation, checker)
def pick(I, name, opts):
    return opts[I.ctx.choose(len(opts), name)]

def gen_seq(I, entry, n):
    """returns (fields, expected) where expected is entry specific"""
    fields = []
    if entry == 'CountGrouped':
        exp = []
        for i in range(n):
            g = pick(I, 'g%d' % i, [b'ga', b'gb'])
            songs = v_dec(I, 's%d' % i, 64)
            pt = pick(I, 'p%d' % i, [b'0', b'1.001', b'7'])
            fields.append((list(b'Artist'), list(g)))
            pair = [(list(b'songs'), songs), (list(b'playtime'), list(pt))]
            if I.ctx.choose(2, 'swap%d' % i):
                pair.reverse()
            fields += pair
            exp.append(('tuple', [g, ('tuple', [songs[0].val, ('dur', pt)])]))
        return fields, exp
    if entry == 'List0':
        exp = []
        for i in range(n):
            v = pick(I, 'v%d' % i, [b'va', b'vb', b''])
            fields.append((list(b'Artist'), list(v))); exp.append(v)
        return fields, exp
    if entry == 'List1':
        exp = []
        g = b''
        for i in range(n):
            if I.ctx.choose(2, 'newgroup%d' % i) == 0 or i == 0:
                g = pick(I, 'g%d' % i, [b'ga', b'gb'])
                fields.append((list(b'Album'), list(g)))
            v = pick(I, 'v%d' % i, [b'va', b'vb'])
            fields.append((list(b'Artist'), list(v))); exp.append((v, g))
        return fields, exp
    if entry == 'GetPlaylists':
        exp = []
        for i in range(n):
            nm = pick(I, 'n%d' % i, [b'pa', b'p b'])
            lm = pick(I, 'l%d' % i, [b'2020-06-12T17:53:00Z', b'2021-01-01T00:00:00Z'])
            fields += [(list(b'playlist'), list(nm)), (list(b'Last-Modified'), list(lm))]; exp.append((nm, lm))
        return fields, exp
    if entry == 'TagTypes':
        exp = []
        for i in range(n):
            v, nm = TAGS[I.ctx.choose(len(TAGS), 't%d' % i)]
            raw = []
            for ch in nm.encode():
                if i > 0:
                    raw.append(ch); continue
                b = I.ctx.fresh_bv('tt%d' % i, 8)
                from models_core import ascii_lower
                I.ctx.assume(z3.And(z3.ULT(b, 0x80), ascii_lower(b) == ascii_lower(ch)))
                raw.append(b)
            fields.append((list(b'tagtype'), raw)); exp.append(nm)
        return fields, exp
    if entry in ('StickerGet', 'StickerList', 'StickerFind'):
        exp = []
        m = n if entry != 'StickerGet' else min(n, 1)
        for i in range(m):
            name = pick(I, 'sn%d' % i, [b'na', b'nb', 'gr\u00f6\u00dfe'.encode(), '\u8a55\u4fa1'.encode()])
            val = pick(I, 'sv%d' % i, [b'x', b'', b'a=b', b'=', b'==', '\u00e4=\u00f6'.encode()])
            if entry == 'StickerFind':
                f = pick(I, 'sf%d' % i, [b'fa', b'fb'])
                fields.append((list(b'file'), list(f)))
                exp.append((f, val))
            else:
                exp.append((name, val))
            fields.append((list(b'sticker'), list(name + b'=' + val)))
        return fields, exp
    if entry == 'ReadChannelMessages':
        exp = []
        for i in range(n):
            c = pick(I, 'c%d' % i, [b'ca', b'cb']); msg = pick(I, 'm%d' % i, [b'hello', b'', b'a: b'])
            fields += [(list(b'channel'), list(c)), (list(b'message'), list(msg))]; exp.append(('tuple', [c, msg]))
        return fields, exp
    if entry == 'ListChannels':
        exp = []
        for i in range(n):
            c = pick(I, 'c%d' % i, [b'ca', b'cb']); fields.append((list(b'channel'), list(c))); exp.append(c)
        return fields, exp
    raise KeyError(entry)

def check_seq(I, P, ctx, entry, r, exp):
    if r.variant != 'Ok':
        if entry == 'StickerGet' and not exp:
            return None         # an empty reply to `sticker get` is not well-formed; an error is the right answer
        return 'well-formed reply rejected: %r' % (r.fields[0],)
    v = r.fields[0]
    if entry in ('CountGrouped', 'ReadChannelMessages', 'ListChannels'):
        return same(ctx, v, exp)
    if entry == 'TagTypes':
        got = [tag_display(t) for t in v.v]
        return None if got == exp else 'tags %r instead of %r' % (got, exp)
    if entry == 'GetPlaylists':
        got = [(bytes(as_items(p.field('name'))), bytes(as_items(p.field('last_modified').field('raw')))) for p in v.v]
        return None if got == exp else 'playlists %r instead of %r' % (got, exp)
    if entry == 'StickerGet':
        if not exp:
            return 'empty reply accepted'
        got = concrete_bytes(as_items(v.field('value')))
        return None if got == exp[0][1] else 'sticker value %r instead of %r' % (got, exp[0][1])
    if entry in ('StickerList', 'StickerFind'):
        want = {}
        for k, val in exp:
            want[k] = val            # later entries overwrite earlier ones with the same key (map semantics)
        got = {concrete_bytes(as_items(k)): concrete_bytes(as_items(x)) for k, x in v.field('value').entries}
        return None if got == want else 'stickers %r instead of %r' % (got, want)
    if entry == 'List0':
        it = I.call_repo('mpd_client::responses::list::List::<0>::values', [ref_to(v)])
        got = []
        while True:
            x = iter_next(I, ref_to(it))
            if x is STOP:
                break
            got.append(bytes(as_items(x)))
        if got != exp:
            return 'values() yields %r instead of %r' % (got, exp)
        # both value iterators implement the whole double-ended / exact-size surface by hand: a symbolic script of operations is
        # compared with a list model (as C19 does for the protocol-level iterators)
        from models_core import deep_clone as _dc
        LT = 'mpd_client::responses::list::'
        for owned in (I.ctx.choose(2, 'lowned') == 1,):
            T = LT + ('ListValuesIntoIter' if owned else "ListValuesIter<'_>")
            if owned:
                it = I.call_repo('<mpd_client::responses::list::List<0> as IntoIterator>::into_iter', [_dc(v)])
            else:
                it = I.call_repo(LT + 'List::<0>::values', [ref_to(v)])
            cell = ValLoc(it)
            lo, hi = 0, len(exp)
            txt = lambda x: 'end' if x.variant == 'None' else bytes(as_items(x.fields[0])).decode('latin1')
            script = []
            for step in range(2):
                op = I.ctx.choose(5, 'lop%d_%d' % (owned, step))
                if op == 0:
                    script.append('n'); r = I.call_repo('<%s as Iterator>::next' % T, [Ref(cell)])
                    want = exp[lo].decode('latin1') if lo < hi else 'end'; lo += 1 if lo < hi else 0
                elif op == 1:
                    script.append('b'); r = I.call_repo('<%s as DoubleEndedIterator>::next_back' % T, [Ref(cell)])
                    want = exp[hi - 1].decode('latin1') if lo < hi else 'end'; hi -= 1 if lo < hi else 0
                elif op in (2, 3):
                    k = I.ctx.choose(2, 'lk%d_%d' % (owned, step))
                    if op == 2:
                        script.append('N%d' % k); r = I.call_repo('<%s as Iterator>::nth' % T, [Ref(cell), k])
                        want = exp[lo + k].decode('latin1') if lo + k < hi else 'end'; lo = min(hi, lo + k + 1)
                    else:
                        script.append('B%d' % k); r = I.call_repo('<%s as DoubleEndedIterator>::nth_back' % T, [Ref(cell), k])
                        want = exp[hi - 1 - k].decode('latin1') if hi - 1 - k >= lo else 'end'; hi = max(lo, hi - k - 1)
                else:
                    script.append('s')
                    h = I.call_repo('<%s as Iterator>::size_hint' % T, [Ref(cell)])
                    ln = I.call_path('<%s as ExactSizeIterator>::len' % T, [Ref(cell)])
                    if h.items[0] != hi - lo or h.items[1].variant != 'Some' or h.items[1].fields[0] != hi - lo or ln != hi - lo:
                        return '%s: size_hint/len = %r/%s with %d values remaining (after %s)' % ('into_iter()' if owned else 'values()', h, ln, hi - lo, ' '.join(script))
                    continue
                if txt(r) != want:
                    I._lops = (owned, list(script))
                    return '%s: %s yields %r, the list model says %r' % ('into_iter()' if owned else 'values()', ' '.join(script), txt(r), want)
            fin = I.ctx.choose(2, 'lfin%d' % owned)
            if fin == 0:
                c_ = I.call_repo('<%s as Iterator>::count' % T, [cell.get()])
                if c_ != hi - lo:
                    return '%s: count after %s is %s, %d values remain' % ('into_iter()' if owned else 'values()', ' '.join(script), c_, hi - lo)
            else:
                r = I.call_repo('<%s as Iterator>::last' % T, [cell.get()])
                want = exp[hi - 1].decode('latin1') if lo < hi else 'end'
                if txt(r) != want:
                    return '%s: last after %s yields %r, the list model says %r' % ('into_iter()' if owned else 'values()', ' '.join(script), txt(r), want)
        raw = I.call_repo('mpd_client::responses::list::List::<0>::into_raw_values', [v])
        got = [(tag_display(t.items[0]), bytes(as_items(t.items[1]))) for t in raw.v]
        return None if got == [('Artist', e) for e in exp] else 'raw values %r' % (got,)
    if entry == 'List1':
        it = I.call_repo('mpd_client::responses::list::List::<1>::grouped_values', [ref_to(v)])
        got = []
        while True:
            x = iter_next(I, ref_to(it))
            if x is STOP:
                break
            got.append((bytes(as_items(x.items[0])), bytes(as_items(x.items[1].items[0]))))
        return None if got == exp else 'grouped_values() yields %r instead of %r' % (got, exp)
    return 'no checker'

def tag_display(t):
    if t.variant == 'Other':
        return bytes(as_items(t.fields[0])).decode()
    return dict(TAGS)[t.variant]

def run_seq(P, res, payload):
    entry = payload['entry']; n = payload['n']
    def harness(I):
        fields, exp = gen_seq(I, entry, n)
        I._fields = fields
        return exp, respond(I, P, entry, mk_frame(fields))
    for pr in explore(P, guarded(harness)):
        res.paths += 1
        ctx = pr.ctx
        I = pr.interp
        rec = lambda: {'entry': entry, 'wire': hexs(wire_of(ctx.model(), I._fields))}
        if isinstance(pr.value, Undecided):
            res.undecided_path(pr, replay, rec); continue
        if pr.kind == 'panic':
            res.violations.append({'what': 'conversion panics: ' + pr.error.msg[:100], 'input': rec()}); continue
        exp, r = pr.value
        try:
            bad = check_seq(I, P, ctx, entry, r, exp)
        except Panic as p:
            bad = 'reading the result panics: ' + p.msg[:80]
        res.cls('sequence reply', nontrivial=n > 0)
        if bad:
            res.violations.append({'what': bad, 'input': rec()})
        else:
            res.xval_path('sequence', replay, rec)
        if len(res.samples) < 1 and n > 0:
            res.samples.append({'entry': entry, 'reply': wire_of(ctx.model(), I._fields).decode('latin1')})
        res.take_stats(ctx.stats); ctx.stats.__init__()

def run_instance(payload):
    P = engine.load_program()
    res = Result(str(payload))
    t0 = time.time()
    if payload['mode'] == 'seq':
        run_seq(P, res, payload)
    else:
        run_fields(P, res, payload)
    res.wall_s = time.time() - t0
    return res.finish()

# ---------------------------------------------------------------------------- native replay: text-level reference of the concrete reply
def parse_wire(wire):
    out = []
    for line in wire.decode('latin1').split('\n'):
        if line in ('OK', ''):
            continue
        k, _, v = line.partition(': ')
        out.append((k, v))
    return out

def uint_ok(v, bits):
    return v.isdigit() and int(v) < (1 << bits) or (v[:1] == '+' and v[1:].isdigit() and int(v[1:]) < (1 << bits))

def dur_ok(v):
    try:
        d = Decimal(v)
    except Exception:
        return False
    return d.is_finite() and d >= 0 and d < Decimal(2) ** 64 and not any(c in v for c in 'nNiI')

def ref_obs(entry, wire):
    """expected canonical observation lines, or 'ERR' if the reply must be rejected"""
    f = parse_wire(wire)
    first = {}
    for k, v in f:
        first.setdefault(k, v)
    D = lambda v: 'D(%s)' % v
    if entry == 'Status':
        need = ['state', 'repeat', 'random', 'consume']
        if any(k not in first for k in need):
            return 'ERR'
        dom = {'volume': 8, 'playlist': 32, 'playlistlength': 64, 'song': 64, 'songid': 64, 'nextsong': 64, 'nextsongid': 64, 'bitrate': 64, 'update_job': 64}
        for k, b in dom.items():
            if k in ('songid', 'nextsongid') and k[:-2] not in first:
                continue
            if k in first and not uint_ok(first[k], b):
                return 'ERR'
        for k in ('elapsed', 'duration', 'xfade'):
            if k in first and not dur_ok(first[k]):
                return 'ERR'
        st = {'play': 'Playing', 'pause': 'Paused', 'stop': 'Stopped'}.get(first['state'])
        sg = {'0': 'Disabled', '1': 'Enabled', 'oneshot': 'Oneshot'}.get(first.get('single', '0'))
        bl = {'0': 'false', '1': 'true'}
        if st is None or sg is None or any(first[k] not in bl for k in ('repeat', 'random', 'consume')):
            return 'ERR'
        dur = first.get('duration')
        if dur is None and 'Time' in first:
            a, sep, b = first['Time'].partition(':')
            if not sep or not dur_ok(b):
                return 'ERR'
            dur = b
        def ident(p, i):
            if p not in first:
                return 'none'
            if i not in first:
                return None
            return '%d/%d' % (int(first[p]), int(first[i]))
        cur, nxt = ident('song', 'songid'), ident('nextsong', 'nextsongid')
        if cur is None or nxt is None:
            return 'ERR'
        on = lambda k: 'Some(%d)' % int(first[k]) if k in first else 'None'
        os_ = lambda k: hexs(first[k].encode()) if k in first else 'none'
        return ['volume=%d state=%s repeat=%s random=%s consume=%s single=%s plversion=%d pllength=%d cur=%s next=%s elapsed=%s duration=%s bitrate=%s xfade=%s update=%s error=%s partition=%s' % (
            int(first.get('volume', 0)), st, bl[first['repeat']], bl[first['random']], bl[first['consume']], sg, int(first.get('playlist', 0)), int(first.get('playlistlength', 0)),
            cur, nxt, D(first['elapsed']) if 'elapsed' in first else 'none', D(dur) if dur is not None else 'none', on('bitrate'), D(first.get('xfade', '0')), on('update_job'), os_('error'), os_('partition'))]
    if entry == 'Stats':
        ks = ['artists', 'albums', 'songs', 'uptime', 'playtime', 'db_playtime', 'db_update']
        if any(k not in first for k in ks) or not all(uint_ok(first[k], 64) for k in ('artists', 'albums', 'songs', 'db_update')) or not all(dur_ok(first[k]) for k in ('uptime', 'playtime', 'db_playtime')):
            return 'ERR'
        return ['artists=%d albums=%d songs=%d uptime=%s playtime=%s dbplaytime=%s dbupdate=%d' % (int(first['artists']), int(first['albums']), int(first['songs']), D(first['uptime']), D(first['playtime']),
                                                                                                     D(first['db_playtime']), int(first['db_update']))]
    if entry == 'Count':
        if 'songs' not in first or 'playtime' not in first or not uint_ok(first['songs'], 64) or not dur_ok(first['playtime']):
            return 'ERR'
        return ['songs=%d playtime=%s' % (int(first['songs']), D(first['playtime']))]
    if entry == 'ReplayGainStatus':
        m = {'off': 'Off', 'track': 'Track', 'album': 'Album', 'auto': 'Auto'}.get(first.get('replay_gain_mode'))
        return 'ERR' if m is None else ['mode=%s' % m]
    if entry in ('Update', 'Rescan'):
        return 'ERR' if 'updating_db' not in first or not uint_ok(first['updating_db'], 64) else ['job=%d' % int(first['updating_db'])]
    if entry == 'Add':
        return 'ERR' if 'Id' not in first or not uint_ok(first['Id'], 64) else ['id=%d' % int(first['Id'])]
    if entry == 'CountGrouped':
        out = []
        i = 0
        groups = []
        while i < len(f):
            if f[i][0] != 'Artist' or i + 2 >= len(f) + 0 and False:
                return 'ERR'
            pair = dict(f[i + 1:i + 3])
            if set(pair) != {'songs', 'playtime'} or not uint_ok(pair['songs'], 64) or not dur_ok(pair['playtime']):
                return 'ERR'
            groups.append('group=%s songs=%d playtime=%s' % (hexs(f[i][1].encode()), int(pair['songs']), D(pair['playtime'])))
            i += 3
        return ['groups=%d' % len(groups)] + groups
    if entry == 'List0':
        vals = [v for k, v in f]
        hx = lambda v: hexs(v.encode())
        def scripts(vals):
            # the operation scripts the native executor runs on both value iterators (every pair of operations, then count / last)
            out = []
            ops = ['n', 'b', 'N0', 'N1', 'B0', 'B1']
            for a in ops:
                for b_ in ops:
                    lo, hi = 0, len(vals)
                    obs = []
                    for op in (a, b_):
                        if op == 'n':
                            obs.append(hx(vals[lo]) if lo < hi else 'end'); lo += 1 if lo < hi else 0
                        elif op == 'b':
                            obs.append(hx(vals[hi - 1]) if lo < hi else 'end'); hi -= 1 if lo < hi else 0
                        elif op[0] == 'N':
                            k = int(op[1]); obs.append(hx(vals[lo + k]) if lo + k < hi else 'end'); lo = min(hi, lo + k + 1)
                        else:
                            k = int(op[1]); obs.append(hx(vals[hi - 1 - k]) if hi - 1 - k >= lo else 'end'); hi = max(lo, hi - k - 1)
                    out.append('%s,%s:%s,%s len=%d last=%s' % (a, b_, obs[0], obs[1], hi - lo, hx(vals[hi - 1]) if lo < hi else 'end'))
            return out
        return (['value=' + hx(v) for v in vals] + ['len=%d count=%d last=%s' % (len(vals), len(vals), hx(vals[-1]) if vals else 'none')] + ['rvalue=' + hx(v) for v in reversed(vals)] +
                ['gvalue=' + hx(v) for v in vals] + ['raw=%s:%s' % (hexs(b'Artist'), hx(v)) for v in vals] + ['script ' + x for x in scripts(vals)] + ['oscript ' + x for x in scripts(vals)] +
                ['ovalue=' + hx(v) for v in vals])
    if entry == 'List1':
        out = []
        raw = []
        g = ''
        for k, v in f:
            raw.append('raw=%s:%s' % (hexs(k.encode()), hexs(v.encode())))
            if k == 'Album':
                g = v
            else:
                out.append('gvalue=%s group=%s' % (hexs(v.encode()), hexs(g.encode())))
        return out + raw
    if entry == 'GetPlaylists':
        out = []
        for i in range(0, len(f), 2):
            out.append('playlist=%s lm=%s' % (hexs(f[i][1].encode()), hexs(f[i + 1][1].encode())))
        return ['playlists=%d' % len(out)] + out
    if entry == 'TagTypes':
        return ['tag=' + hexs(canon_tag(v).encode()) for k, v in f]
    if entry == 'StickerGet':
        if not f:
            return 'ERR'
        return ['value=' + hexs(f[0][1].partition('=')[2].encode())]
    if entry == 'StickerList':
        m = {}
        for k, v in f:
            a, _, b = v.partition('=')
            m[a] = b
        return sorted('sticker %s=%s' % (hexs(a.encode()), hexs(b.encode())) for a, b in m.items())
    if entry == 'StickerFind':
        m = {}
        cur = ''
        for k, v in f:
            if k == 'file':
                cur = v
            else:
                m[cur] = v.partition('=')[2]
        return sorted('sticker %s=%s' % (hexs(a.encode()), hexs(b.encode())) for a, b in m.items())
    if entry == 'ReadChannelMessages':
        return ['message %s %s' % (hexs(f[i][1].encode()), hexs(f[i + 1][1].encode())) for i in range(0, len(f), 2)]
    if entry == 'ListChannels':
        return ['channel ' + hexs(v.encode()) for k, v in f]
    return None

def replay(rec):
    inp = rec.get('input') or rec
    wire = unhex(inp['wire'])
    out = run_replay(['resp', inp['entry'], hexs(wire)])
    if 'panic' in out:
        return True, 'native run panics'
    want = ref_obs(inp['entry'], wire)
    if want is None:
        return False, 'no reference for this entry'
    if want == 'ERR':
        return ('err' not in out), 'native accepts a reply the reference rejects: %s' % out.get('obs', [])[:2]
    if 'err' in out:
        return True, 'native rejects a well-formed reply: ' + out['err'][0]
    got = out.get('obs', [])
    return (not lines_match(got, want)), 'native %s / reference %s' % (got[:3], want[:3])

DESCR = {}
REQUIRED_CLASSES = ['typed value', 'typed error', 'sequence reply']
EXPLANATION = ('Bounded symbolic execution of the real MIR of the reply decoders on frames encoding abstract replies generated under symbolic choices (presence, position, in-/out-of-domain '
               'values with numbers of any magnitude as single solver terms, group keys, field order); on every feasible path each member of the decoded value is compared with the value '
               'sent (durations against exact decimal arithmetic, +-1 ns), optional members with presence, out-of-domain values with an error; counterexamples are replayed natively against a '
               'text-level reference of the concrete reply')
ASSUMPTIONS = ['replies are frames in the representation the protocol layer produces; field names are the documented ones',
               'field-oriented replies: one (thorough: two) field(s) symbolic at a time, the others hold a valid base reply (the decoders fetch fields independently by name)',
               'durations come from a menu of decimal texts; concrete f64 parsing and Duration::from_secs_f64 are modelled exactly', 'without the chrono feature']
RULE = 'one evaluation = one feasible path = one abstract reply (with symbolic numbers); non-trivial = every reply with at least one item / field under test'
