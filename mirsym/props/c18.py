"""C18 - see props/parsergroup.py (shared machinery of the protocol-layer properties)."""
from props import parsergroup as PG
PROP = 'C18'
def instances(tier, seed): return PG.instances_for(PROP, tier, seed)
def run_instance(payload): return PG.run_for(PROP, payload)
def replay(rec): return PG.replay_for(PROP, rec)
def bounds(tier): return BOUNDS[tier]
DESCR = {}
EXPLANATION = PG.EXPL
ASSUMPTIONS = PG.ASSUME
BOUNDS = {'quick': 'first lines "OK MPD " + 0..3 free bytes (0x00..0xff) + LF; first lines whose first 1..3 bytes are free; 8-byte first lines with two free bytes at the end and no line end; each under {one read, one byte per read, two '
                   'reads}, blocking and async connect; asserted: connected iff prefix, non-empty version without LF, valid UTF-8 (then protocol_version() == the version bytes), otherwise InvalidMessage, or UnexpectedEof when the stream ends '
                   'before the line end. The password exchange of Client::connect_with_password is checked with the client engine (see C01/C05 group) when built',
          'thorough': 'versions of 0..5 free bytes, prefixes of 1..4 free bytes'}
REQUIRED_CLASSES = ['greeting ok', 'greeting invalid', 'greeting eof']
RULE = 'one evaluation = one feasible path (first line x segmentation); all are non-trivial'
