"""C18 - see props/parsergroup.py (shared machinery of the protocol-layer properties)."""
from props import parsergroup as PG
PROP = 'C18'
def instances(tier, seed):
    from props import clientgroup as CG
    return PG.instances_for(PROP, tier, seed) + CG.instances_for(PROP, tier, seed)
def run_instance(payload):
    if payload.get('family') == 'password':
        from props import clientgroup as CG
        return CG.run_for(PROP, payload)
    return PG.run_for(PROP, payload)
def replay(rec):
    if 'scenario' in (rec.get('input') or rec):
        from props import clientgroup as CG
        return CG.replay_for(PROP, rec)
    return PG.replay_for(PROP, rec)
def bounds(tier): return BOUNDS[tier]
DESCR = {}
EXPLANATION = PG.EXPL
ASSUMPTIONS = PG.ASSUME
BOUNDS = {'quick': 'first lines "OK MPD " + 0..3 free bytes (0x00..0xff) + LF; first lines whose first 1..3 bytes are free; 8-byte first lines with two free bytes at the end and no line end; each under {one read, one byte per read, two '
                   'reads}, blocking and async connect; asserted: connected iff prefix, non-empty version without LF, valid UTF-8 (then protocol_version() == the version bytes), otherwise InvalidMessage, or UnexpectedEof when the stream ends '
                   'before the line end. Password exchange: Client::connect_with_password and connect_with_password_opt (Some(password), Some(""), None; real do_connect coroutine) against a simulated server answering OK / ACK / closing / garbage: first line written is the password, idle only after acceptance, IncorrectPassword resp. protocol error with nothing further written',
          'thorough': 'versions of 0..5 free bytes, prefixes of 1..4 free bytes'}
REQUIRED_CLASSES = ['greeting ok', 'greeting invalid', 'greeting eof', 'password OK', 'password ACK', 'password close']
RULE = 'one evaluation = one feasible path (first line x segmentation); all are non-trivial'
