"""C01 / C04 / C05 / C08 / C17 / C18(password): scenario families, monitors and judges on top of props/client_common.py."""
import time, json
import z3
from values import *
import engine
from engine import explore
from props.common import Result, run_replay, hexs, unhex, known_keys
from props.client_common import *

# ---------------------------------------------------------------------------- scenario families
# A scenario = concrete prefix (python calls on the Session) + K free scheduler steps + settle.  The free steps are
# symbolic choices among the enabled actions; partial-order reduction: a task is only polled if something changed.
def scripts(name):
    return {
        'one': [[('cmd', b'ca')]],
        'two': [[('cmd', b'ca'), ('cmd', b'cb')]],
        'list': [[('list', [b'la', b'fb', b'lc'])]],
        'listok': [[('list', [b'la', b'lb'])], [('cmd', b'cc')]],
        'twocallers': [[('cmd', b'ca')], [('cmd', b'cb')]],
        'threecallers': [[('cmd', b'ca')], [('cmd', b'cb')], [('cmd', b'cc')]],
        'mixed': [[('cmd', b'ca'), ('list', [b'lb', b'fc'])], [('cmd', b'fd')]],
        'none': [[]],
        'partialout': [[('cmd', b'pa'), ('cmd', b'cb')]],
        'partiallist': [[('list', [b'la', b'pb', b'lc'])], [('cmd', b'cc')]],
        'firstpartial': [[('list', [b'pa', b'lb'])]],
        'art': [[('art', b'song')]],
        'fail': [[('cmd', b'fa'), ('cmd', b'cb')]],
        'listbin': [[('list', [b'la', b'bb', b'lc']), ('cmd', b'bx')]],
        'typed0': [[('typed', [])]],
        'typed0after': [[('cmd', b'cx'), ('typed', [])]],
        'typed2': [[('typed', [b'ca', b'cb'])], [('cmd', b'cx')]],
        'typed3': [[('typed', [b'ca', b'cb', b'cc'])]],
    }[name]

def instances_for(prop, tier, seed):
    q = tier == 'quick'
    out = []
    def add(**kw):
        kw.setdefault('prefix', 'idle'); kw.setdefault('k', 4); kw.setdefault('budget', {})
        out.append(kw)
    if prop in ('C01', 'C04', 'C05'):
        k = 4 if q else 6
        # from the idling state
        add(script='one', k=k, budget={'change': 1, 'tick': 1})
        add(script='two', k=k + 1, budget={'tick': 1})
        add(script='twocallers', k=k, budget={'change': 1})
        add(script='list', k=k, budget={'tick': 1})
        add(script='mixed', k=k, budget={'tick': 1})
        add(script='partialout', k=k, budget={'tick': 1})
        add(script='partiallist', k=k, budget={})
        # a list in which a later command answers with a binary blob, then a single command with one
        add(script='listbin', k=k, budget={'tick': 1})
        add(script='firstpartial', k=k - 1, budget={})
        add(script='one', k=k, budget={'change': 2, 'partial': 1})
        # from the state right after a reply (inside the re-idle window)
        add(script='two', prefix='after_reply', k=k, budget={'tick': 1, 'change': 1})
        add(script='two', prefix='after_reply', k=k, budget={'tick': 1, 'slowwrite': 1})
        add(script='listok', k=k, budget={'slowwrite': 1})
        add(script='twocallers', prefix='after_reply', k=k, budget={'tick': 1, 'cancel': 1})
        # a reply that takes very long (a minute passes while it is outstanding), then the next request
        add(script='two', prefix='inflight', k=k, budget={'longtick': 1})
        add(script='twocallers', prefix='inflight', k=k - 1, budget={'longtick': 1, 'tick': 1})
        # ... also when the first line(s) of the reply have already arrived
        add(script='two', prefix='inflight_partial', k=k - 1, budget={'longtick': 1})
        add(script='listok', prefix='inflight_partial2', k=k - 1, budget={'longtick': 1})
        # an error reply cut at every byte position (the rest arrives in the next read)
        add(script='fail', prefix='inflight', k=3, budget={'cutat': 1})
        # a quiet minute passes while an idle reply is half delivered (no request at all)
        add(script='none', k=k, budget={'change': 2, 'longtick': 1})
        # subsystem names the client does not know, with a carriage return inside / at the end (preserved verbatim)
        add(script='one', k=k, budget={'change': 2, 'names': ['remote\r', 'x\ry', 'player']})
        # the user has dropped the event receiver
        add(script='two', k=k, budget={'dropevents': 1, 'change': 1})
        add(script='one', prefix='inflight', k=k - 1, budget={'dropevents': 1, 'change': 1, 'tick': 1})
        # the server refuses an idle with an error response
        add(script='two', prefix='after_reply', k=k, budget={'faults': ['idleack'], 'tick': 1})
        # cancellation
        add(script='twocallers', k=k, budget={'cancel': 1})
        add(script='threecallers', k=k - 1, budget={'cancel': 1}, prefix='inflight')
        # several changes pending when idle is answered / changes while a request is in flight
        add(script='one', prefix='inflight', k=k - 1, budget={'change': 2, 'tick': 1})
        add(script='none', k=k, budget={'change': 2, 'partial': 1, 'tick': 1})
        if prop == 'C04':
            # names in another letter case than the ones the client knows are other names (reported verbatim)
            add(script='one', k=k, budget={'change': 2, 'names': ['LastFM_x', 'Player', 'mixer']})
            add(script='one', k=k + 1, budget={'change': 1, 'faults': ['write_error']})
            # a backlog of undelivered notifications (the consumer is slow): 70 pending changes answered in one idle reply
            add(script='one', prefix='backlog', k=2, budget={}, backlog=70 if q else 130)
        if not q:
            add(script='listok', k=k, budget={'change': 1, 'tick': 1})
            add(script='mixed', prefix='after_reply', k=k, budget={'cancel': 1, 'tick': 1})
            add(script='threecallers', k=k, budget={'change': 1})
    if prop == 'C05':
        # the session starts with the handshake: with a password the first request is the password command, idle follows its verdict
        out.append({'family': 'password', 'verdict': 'OK'})
        out.append({'family': 'password', 'verdict': 'OK', 'entry': 'opt', 'pw': 'hunter 2'})
        out.append({'family': 'password', 'verdict': 'ACK'})
    if prop == 'C13':
        add(script='typed0', k=2, budget={})
        add(script='typed0', k=3, budget={'faults': ['eof']})
        add(script='typed0after', prefix='after_reply', k=3, budget={'faults': ['eof'], 'tick': 1})
        add(script='typed2', k=4 if q else 6, budget={'tick': 1})
        add(script='typed3', k=3 if q else 5, budget={'change': 1})
        # a slow list reply: its first frame has arrived, then a minute passes before the rest
        add(script='typed3', prefix='inflight_partial2', k=3 if q else 4, budget={'longtick': 1})
    if prop == 'C08':
        k = 3 if q else 4
        for f in ('eof', 'read_error', 'write_error', 'garbage'):
            add(script='one', k=k, budget={'faults': [f]})
            add(script='twocallers', prefix='inflight', k=k, budget={'faults': [f]})
            add(script='one', prefix='after_reply', k=k, budget={'faults': [f], 'tick': 1})
        add(script='one', prefix='inflight_partial', k=k, budget={'faults': ['eof']})
        add(script='list', prefix='inflight_partial', k=k, budget={'faults': ['eof']})
        add(script='list', prefix='inflight_partial2', k=k, budget={'faults': ['eof']})
        add(script='listok', prefix='inflight_partial2', k=k, budget={'faults': ['eof']})
        add(script='one', k=max(5, k + 1), budget={'change': 1, 'faults': ['eof']})          # (five steps reach the recorded finding F-C08-b in both tiers)
        # the user has dropped the event receiver (documented as allowed): the end of the connection is still noticed
        for f in ('eof', 'read_error', 'garbage'):
            add(script='none', k=k, budget={'dropevents': 1, 'faults': [f]})
        add(script='one', prefix='after_reply', k=k + 1, budget={'dropevents': 1, 'faults': ['eof'], 'tick': 1})
        add(script='one', prefix='after_reply', k=k, budget={'faults': ['idleack'], 'tick': 1})
        add(script='art', prefix='inflight', k=k + 1, budget={'faults': ['eof']}, step_deliver=True)
        add(script='one', k=k, budget={'dropclient': 1})
        add(script='none', k=k, budget={'dropclient': 1, 'change': 1})
        add(script='one', prefix='after_reply', k=k, budget={'dropclient': 1, 'tick': 1})
        add(script='twocallers', prefix='inflight', k=k, budget={'dropclient': 1})
    if prop == 'C17':
        for size in ((0, 1, 2, 3, 5) if q else (0, 1, 2, 3, 4, 5, 7)):
            for limit in ((1, 2, 3) if q else (1, 2, 3, 4)):
                out.append({'family': 'art', 'size': size, 'limit': limit})
        out.append({'family': 'art', 'size': 3, 'limit': 2, 'two': True})
        out.append({'family': 'art', 'size': 5, 'limit': 3, 'two': True})
    if prop == 'C18':
        for verdict in ('OK', 'ACK', 'ACKempty', 'ACKperm', 'listACK', 'close', 'garbage'):
            out.append({'family': 'password', 'verdict': verdict})
        # the transport accepts one byte per write call while the password is sent (short writes are legal)
        out.append({'family': 'password', 'verdict': 'OK', 'slow': True})
        # the optional-password entry point: a given password (also the empty one) is sent, None sends none
        for verdict in ('OK', 'ACK'):
            out.append({'family': 'password', 'verdict': verdict, 'entry': 'opt', 'pw': ''})
            out.append({'family': 'password', 'verdict': verdict, 'entry': 'opt', 'pw': 'hunter 2'})
        out.append({'family': 'password', 'verdict': 'OK', 'entry': 'opt', 'pw': None})
        out.append({'family': 'password', 'verdict': 'ACK', 'entry': 'plain', 'pw': ''})
    return out

# ---------------------------------------------------------------------------- running a scenario
ART_PICTURE = bytes([0x41 + (i % 5) if i % 3 else 10 for i in range(5)])
def run_scenario(I, P, pl):
    S = Session(I, P, scripts(pl['script']), deliver='lines')
    if pl['script'] == 'art':
        S.server.art_requests = []
        S.server.custom = art_server(ART_PICTURE, 2, True, None, None)
    if pl.get('step_deliver'):
        S.step_deliver = True
    r = S.connect()
    if r.variant != 'Ok':
        raise InternalError('connect failed in the scenario prefix')
    budget = dict(pl['budget'])
    budget['faults'] = list(budget.get('faults', []))
    # prefix: reach a loop state deterministically
    S.poll_loop()                       # writes the initial idle
    pre = pl['prefix']
    if pre in ('after_reply', 'inflight', 'inflight_partial', 'inflight_partial2', 'backlog'):
        S.issue(0)
        S.poll_loop()                   # noidle written
        S.deliver()                     # OK of the noidle
        S.poll_loop()                   # request written
        if pre == 'after_reply':
            while S.undelivered():
                S.deliver()
            S.poll_loop(); S.poll_caller(0)
        elif pre == 'backlog':
            for n in range(pl.get('backlog', 70)):
                S.change(b'sub%d' % n)
        elif pre == 'inflight_partial':
            S.deliver()                 # first line of the reply only
            S.poll_loop()
        elif pre == 'inflight_partial2':
            S.deliver(); S.deliver()    # the first frame of a list reply and its list_OK
            S.poll_loop()
    S.free_steps(pl['k'], budget)
    if any(f.startswith('fault') for f in S.flags) or not S.clients:
        S.settle(tick=True)
    else:
        S.settle(tick=True)
    return S

def observe(S):
    """plain python description of what happened (used by the judges and compared with native replays)"""
    consumed = bytes(S.t.stream[:S.t.pos])
    obs = {'changed_consumed': consumed.count(b'changed: ') if not consumed.endswith(b'changed: ') else consumed.count(b'changed: '), 'steps': list(S.steps), 'lines': [l.decode('latin1') for l in S.server.lines], 'violations': list(S.server.violations),
           'changed_written': [n.decode() for n in S.server.changed_written], 'events': [], 'callers': [], 'flags': sorted(S.flags),
           'free_steps': list(S.steps[getattr(S, 'free_from', 0):getattr(S, 'free_to', len(S.steps))]),
           'loop_done': S.loop_done, 'server_idle': S.server.idle, 'idle_acked': S.server.idle_acked, 'transport_dropped': S.t.dropped, 'multi_changed': S.server.multi_changed, 'noidle_inside_idle_reply': S.server.noidle_inside_idle_reply}
    for e in S.events:
        if e[0] == 'change':
            obs['events'].append('change:' + e[1].decode())
        elif e[0] == 'closed':
            obs['events'].append('closed')
        else:
            obs['events'].append('end')
    for c in S.callers:
        def oc(req, r):
            o = outcome_of(r)
            return ('typed', []) if (req[0] == 'typed' and o == ('frames', [])) else o
        obs['callers'].append({'results': [(req_txt(req), out_txt(oc(req, r))) for req, r in c.results], 'pending': req_txt(c.current) if c.fut is not None else None,
                               'cancelled': [req_txt(x) for x in c.cancelled], 'unissued': [req_txt(x) for x in c.script[c.next:]]})
    if S.clients:
        obs['is_closed'] = bool(S.I.call_repo('mpd_client::client::Client::is_connection_closed', [ref_to(S.clients[0])]))
    else:
        obs['is_closed'] = None
    return obs

def req_txt(req):
    if req is None:
        return None
    return req[0] + ':' + (req[1].decode() if req[0] not in ('list', 'typed') else ','.join(x.decode() for x in req[1]))

def out_txt(o):
    def ff(frames):
        return [[(k.decode(), v.decode()) for k, v in f] for f in frames]
    if o[0] == 'frame':
        return ['frame', ff([o[1]])[0]]
    if o[0] == 'frames':
        return ['frames', ff(o[1])]
    if o[0] == 'ack':
        return ['ack', int(o[1]), int(o[2]), o[3].decode() if o[3] else None, ff(o[4])]
    if o[0] == 'typed':
        return ['typed', [[int(k), ff([f])[0]] for k, f in o[1]]]
    return [str(x) if not isinstance(x, (str, int, type(None))) else x for x in o]

def expected_txt(req):
    kind, _, body = req.partition(':')
    r = ('cmd', body.encode()) if kind == 'cmd' else (kind, [x.encode() for x in body.split(',') if x])
    return out_txt(expected_reply(r))

# ---------------------------------------------------------------------------- judges (work on the python observation)
def judge_c01(obs):
    # every completed request carries exactly the server's reply for it
    for ci, c in enumerate(obs['callers']):
        for req, out in c['results']:
            if out[0] in ('closed', 'protocol') and (any(f.startswith('fault') for f in obs['flags']) or 'dropclient' in obs['steps']):
                continue            # (without a fault the server's output is well-formed and the connection stays up: no request may fail with it)
            want = expected_txt(req)
            if json.dumps(out) != json.dumps(want):
                return 'caller %d: request %s resolved with %s, the server answered %s' % (ci, req, out, want)
        if c['pending'] is not None and not obs['loop_done']:
            return 'caller %d: request %s never resolves' % (ci, c['pending'])
    # requests of one caller reach the server in issue order
    reqlines = [l for l in obs['lines'] if l not in ('idle', 'noidle')]
    for ci, c in enumerate(obs['callers']):
        order = [r for r, _ in c['results']] + c['cancelled']
        pos = -1
        for r, o in c['results']:
            first = r.partition(':')[2].split(',')[0]
            if first == '':
                continue            # an empty typed list sends nothing
            if o[0] in ('closed', 'protocol'):
                continue            # failed with the connection: need not have reached the server
            if first in reqlines[pos + 1:]:
                pos = reqlines.index(first, pos + 1)
            else:
                return 'caller %d: completed request %s was never received by the server (or out of order)' % (ci, r)
    return None

def judge_c13(obs):
    r = judge_c01(obs)
    if r:
        return r
    for ci, c in enumerate(obs['callers']):
        for req, out in c['results']:
            if req == 'typed:' and out != ['typed', []]:
                return 'caller %d: the empty typed list resolved with %s instead of an empty result' % (ci, out)
    issued = [x for c in obs['callers'] for x in [r for r, _ in c['results']] + c['cancelled'] + ([c['pending']] if c['pending'] else [])]
    sent = [l for l in obs['lines'] if l not in ('idle', 'noidle')]
    expect = sum(len([n for n in r.partition(':')[2].split(',') if n]) + (2 if (r.startswith(('list:', 'typed:')) and r.count(',') >= 1) else 0) for r in issued)
    if len(sent) > expect:
        return 'more request lines written (%s) than the issued requests account for (%s)' % (sent, issued)
    return None

def judge_c04(obs):
    if 'dropevents' in obs['steps']:
        return None             # nobody listens any more: nothing to deliver
    got = [e[7:] for e in obs['events'] if e.startswith('change:')]
    want = obs['changed_written'][:obs.get('changed_consumed', len(obs['changed_written']))]
    if got != want:
        return 'events delivered %s, the server reported %s' % (got, want)
    return None

def judge_c05(obs):
    if obs['violations']:
        return 'protocol monitor: ' + obs['violations'][0]
    lines = obs['lines']
    if lines and lines[0] != 'idle':
        return 'first line written is %r, not idle' % lines[0]
    if not obs['loop_done'] and not any(c['pending'] for c in obs['callers']):
        # after the re-idle delay the client must be idling again
        if not obs['server_idle']:
            return 'no request pending and the re-idle delay expired, but the server is not in idle (last lines %s)' % lines[-3:]
    if not obs['loop_done'] and any(c['pending'] for c in obs['callers']) and not obs['server_idle'] and not any(f in ('fault:eof', 'fault:read_error', 'fault:write_error', 'fault:garbage') for f in obs['flags']):
        # quiescence: everything the server produced was delivered, every timer expired, every task polled - and a request is still
        # queued although the server is neither idling (waiting for noidle) nor holding an unanswered request: the session is stalled
        return 'the session is stalled: request %s is still pending at quiescence, the server is not idling and has answered everything it received (last lines %s)' % (
            [c['pending'] for c in obs['callers'] if c['pending']], lines[-3:])
    return None

def judge_c08(obs):
    faulted = [f for f in obs['flags'] if f.startswith('fault')] or 'dropclient' in obs['steps']
    if not faulted:
        return None
    for ci, c in enumerate(obs['callers']):
        if c['pending'] is not None:
            return 'caller %d: request %s hangs after the connection ended' % (ci, c['pending'])
        for req, out in c['results']:
            if out[0] in ('frame', 'frames', 'ack'):
                want = expected_txt(req)
                if json.dumps(out) != json.dumps(want):
                    return 'caller %d: request %s resolved with %s, the server answered %s' % (ci, req, out, want)
    if 'eof_inside_reply' in obs['flags']:
        outs = [out for c in obs['callers'] for _, out in c['results']]
        if not any(o[0] == 'protocol' for o in outs) and 'closed' not in obs['events']:
            return 'the stream ended inside a reply but no caller got a protocol error and no closing event was emitted (results %s)' % outs
    if obs['loop_done']:
        if obs['is_closed'] is False:
            return 'the connection ended but is_connection_closed() is false'
        ev = obs['events']
        closing = [e for e in ev if e == 'closed']
        if len(closing) > 1:
            return 'more than one closing event'
        if 'dropevents' in obs['steps']:
            pass            # the user dropped the event receiver: there is no event stream left to observe
        elif not ev or ev[-1] != 'end':
            return 'the event stream does not end after the connection ended'
        if 'closed' in ev and ev.index('closed') != len(ev) - 2:
            return 'events after the closing event'
    else:
        if any(f in ('fault:eof', 'fault:read_error', 'fault:garbage') for f in obs['flags']):
            return 'the run loop is still alive after the transport failed'
        if obs.get('idle_acked'):
            return 'the server refused idle with an error response but the connection task is still alive'
    if 'dropclient' in obs['steps'] and obs['is_closed'] is None and not obs['transport_dropped'] and not any(c['pending'] for c in obs['callers']):
        return 'last client handle dropped but the transport is not released'
    # a failure that is not a clean close is surfaced: to the in-flight caller or as closing event
    hard = [f for f in obs['flags'] if f in ('fault:read_error', 'fault:garbage', 'fault:write_error')]
    if hard and obs['loop_done']:
        # "surfaced to the caller whose request was in flight": the loop had written `noidle` (or the request itself) for more
        # requests than were answered, so one was in flight when the transport failed - its caller gets the failure, not a clean close
        outs = [out for c in obs['callers'] for _, out in c['results']]
        answered = sum(1 for o in outs if o[0] not in ('closed', 'protocol'))
        taken = max(sum(1 for l in obs['lines'] if l == 'noidle'), sum(1 for l in obs['lines'] if l not in ('idle', 'noidle') and not l.startswith('command_list')))
        if taken > answered and any(o[0] == 'closed' for o in outs) and not any(o[0] == 'protocol' for o in outs):
            return 'transport failure (%s) while a request was in flight, but its caller is told the connection was closed cleanly (results %s)' % (hard[0], outs)
    if hard and obs['loop_done'] and 'dropevents' not in obs['steps']:
        surfaced = 'closed' in obs['events'] or any(out[0] == 'protocol' for c in obs['callers'] for _, out in c['results'])
        if not surfaced:
            return 'transport failure (%s) surfaced neither to a caller nor as closing event' % hard[0]
    return None

JUDGES = {'C13': judge_c13, 'C01': judge_c01, 'C04': judge_c04, 'C05': judge_c05, 'C08': judge_c08}

def classes_c04(obs):
    """known-finding classes by scenario feature"""
    ks = []
    if obs['multi_changed']:
        ks.append('F-C04-a')
    if 'idle_reply_dropped' in obs['flags']:         # (exactly the recorded class: a request was taken / the loop ended at that moment)
        ks.append('F-C04-b')
    return ks

def classes_c08(obs, bad):
    """recorded finding F-C08-b: exactly the end of stream inside an idle reply whose first line(s) went with a dropped receive future"""
    if bad and bad.startswith('the stream ended inside a reply but no caller') and 'idle_reply_dropped' in obs['flags'] and 'eof_inside_reply' in obs['flags']:
        return ['F-C08-b']
    return []

DESCR = {
    'F-C08-b': 'end of stream inside an idle reply whose first line was consumed by a receive future that select! dropped (request arrived in between): reported as a clean close',
    'F-C04-a': 'an idle reply with several changed: lines yields only the first subsystem (Frame::get returns the first match)',
    'F-C04-b': 'a request arriving after part of an idle reply was read makes select! drop the receive future together with the lines it had consumed: those notifications are lost',
}

def run_for(prop, pl):
    P = engine.load_program()
    res = Result(str(pl))
    t0 = time.time()
    if pl.get('family') == 'art':
        run_art(P, res, pl)
    elif pl.get('family') == 'password':
        run_password(P, res, pl)
    else:
        known = known_keys(prop)
        def harness(I):
            set_cap(I, 64)
            return run_scenario(I, P, pl)
        for pr in explore(P, harness):
            res.paths += 1
            if pr.kind == 'panic':
                res.violations.append({'what': 'client panics: ' + pr.error.msg[:100], 'input': {'scenario': pl, 'steps': None}})
                continue
            S = pr.value
            obs = observe(S)
            bad = JUDGES[prop](obs)
            res.cls('schedule ' + ('with request' if any(c['results'] for c in obs['callers']) else 'without request'), nontrivial=any(st.startswith(('change', 'tick', 'cancel', 'deliver/2', 'slowwrite', 'fault', 'dropclient')) for st in obs.get('free_steps', obs['steps'])) and any(c['results'] or c['cancelled'] for c in obs['callers']))
            if bad:
                rec = {'scenario': pl, 'steps': obs['steps'], 'flags': obs['flags']}
                ks = [k for k in (classes_c04(obs) if prop == 'C04' else (classes_c08(obs, bad) if prop == 'C08' else [])) if k in known]
                if ks:
                    res.known.setdefault(ks[0], dict(rec, what=bad))
                else:
                    res.violations.append({'what': bad, 'input': rec})
            elif prop != 'C04':
                # (not for C04: the real scheduler may interleave a replayed schedule differently and run into the recorded finding
                # F-C04-b, whose class is only recognisable on the symbolic side.)  The native run must break the property on every
                # one of three attempts: real tokio is free to order ready tasks differently from the symbolic schedule.
                res.xval_path('schedule %s %s' % (bool(obs['loop_done']), sorted(set(st.split(':')[0].rstrip('0123456789') for st in obs.get('free_steps', obs['steps'])))),
                              lambda r: replay_for(prop, r, every=3), lambda: {'scenario': pl, 'steps': obs['steps'], 'flags': obs['flags']})
            if len(res.samples) < 1:
                res.samples.append({'schedule': obs['steps'], 'lines_written': obs['lines'], 'events': obs['events']})
            res.take_stats(pr.ctx.stats); pr.ctx.stats.__init__()
    res.wall_s = time.time() - t0
    return res.to_dict()

# ---------------------------------------------------------------------------- C17 album art
def art_server(picture, limit, embedded, mime, errcode, limit2=None, cutlf=False, late_err=False, lie=False):
    """limit2: chunk limit from the second chunk on (the server may hand out less than before); cutlf: the transport delivers a chunk
    up to its last payload byte first and the terminating line feed separately"""
    def handle(srv, line):
        parts = line.split()
        if parts[0] not in (b'readpicture', b'albumart'):
            return None
        srv.art_requests.append(line)
        off = int(parts[-1])
        if late_err and off > 0:
            # the file went away between two chunk requests: the request for a later chunk is answered with an error
            return b'ACK [50@0] {%s} No such file\n' % parts[0]
        if parts[0] == b'readpicture':
            if errcode is not None:
                return b'ACK [%d@0] {readpicture} nope\n' % errcode
            if not embedded:
                return b'OK\n'
            data = picture
        else:
            if embedded == 'only' or picture is None:
                return b'ACK [50@0] {albumart} No file exists\n' if False else b'OK\n'
            data = picture
        lim = limit if (off == 0 or limit2 is None) else limit2
        chunk = data[off:off + lim]
        out = b'size: %d\n' % (1 if lie else len(data))           # lie: the size field is smaller than the chunk that follows
        if mime and parts[0] == b'readpicture':
            out += b'type: ' + mime + b'\n'
        out += b'binary: %d\n' % len(chunk)
        if cutlf:
            srv.barriers.append(len(srv.t.stream) + len(out) + len(chunk))
        return out + chunk + b'\nOK\n'
    return handle

def run_art(P, res, pl):
    size, limit = pl['size'], pl['limit']
    def harness(I):
        set_cap(I, 64)
        S = Session(I, P, [[('art', b'song')]], deliver='lines')
        src = I.ctx.choose(4, 'source')          # 0 embedded, 1 file only (readpicture empty), 2 file only (readpicture unknown: ACK 5), 3 none / other error
        mime = b'image/png' if I.ctx.choose(2, 'mime') == 0 else None
        picture = bytes([0x41 + (i % 5) if i % 3 else 10 for i in range(size)])
        S.server.art_requests = []
        other_err = None
        limit2 = None
        if limit >= 2 and size > limit and I.ctx.choose(2, 'limit2') == 1:
            limit2 = limit - 1
        cutlf = I.ctx.choose(2, 'cutlf') == 1 if size else False
        late = False
        if size > limit and src < 3 and not pl.get('two') and I.ctx.choose(2, 'late_err') == 1:
            late = True
        lie = False
        if not late and limit2 is None and not pl.get('two') and src < 3 and min(size, limit) >= 2 and I.ctx.choose(2, 'lie') == 1:
            lie = True
        I._artx = (limit2, cutlf, late, lie)
        S.step_deliver = cutlf
        if src == 0:
            S.server.custom = art_server(picture, limit, True, mime, None, limit2, cutlf, late, lie)
        elif src == 1:
            S.server.custom = art_server(picture, limit, False, None, None, limit2, cutlf, late, lie)
        elif src == 2:
            S.server.custom = art_server(picture, limit, False, None, 5, limit2, cutlf, late, lie)
        else:
            if I.ctx.choose(2, 'nonekind') == 0:
                S.server.custom = art_server(None, limit, False, None, None)
            else:
                other_err = 52
                S.server.custom = art_server(picture, limit, False, None, 52)
        S.connect(); S.poll_loop()
        if pl.get('two'):
            # a first lookup on the same connection for a song without any picture, through a clone of the client
            real = S.server.custom
            S.server.custom = art_server(None, limit, False, None, None)
            S.callers[0].script.insert(0, ('art', b'other'))
            S.callers[0].client = S.clone_client()
            S.issue(0); S.settle(tick=False)
            if not S.callers[0].results or outcome_of(S.callers[0].results[0][1])[0] != 'none':
                raise InternalError('first lookup should find nothing')
            S.callers[0].results = []
            S.server.custom = real; S.server.art_requests = []
        # a notification may cross the lookup: before it (answered in the `noidle` reply) or during it; the user may have dropped
        # the event receiver (documented as allowed) - the lookup is not affected by either
        wide = pl['limit'] == 2           # (the three-way notification choice and the dropped receiver only for one chunk limit: path count)
        extra = I.ctx.choose(3 if wide else 2, 'notify')
        I._artn = (extra, False)
        if wide and extra and not pl.get('two') and I.ctx.choose(2, 'dropev') == 1:
            S.drop_events()
            I._artn = (extra, True)
        I._art_choice = (src, mime, other_err)
        if extra == 2:
            S.change(b'player')
        S.issue(0)
        if extra == 1:
            S.change(b'player')
        S.settle()
        return S, src, mime, picture, other_err
    for pr in explore(P, harness):
        res.paths += 1
        if pr.kind == 'panic':
            ch = getattr(pr.interp, '_art_choice', (0, None, None)); ax = getattr(pr.interp, '_artx', (None, False, False, False)); an = getattr(pr.interp, '_artn', (0, False))
            res.violations.append({'what': 'album_art panics: ' + pr.error.msg[:100], 'input': {'scenario': pl, 'source': ch[0], 'mime': ch[1] is not None, 'other_err': ch[2],
                                   'limit2': ax[0], 'cutlf': ax[1], 'late_err': ax[2], 'lie': ax[3], 'notify': an[0], 'dropev': an[1]}}); continue
        S, src, mime, picture, other_err = pr.value
        c = S.callers[0]
        bad = None
        reqs = S.server.art_requests
        if not c.results:
            bad = 'album_art never resolves (requests: %s)' % reqs[:6]
        else:
            o = outcome_of(c.results[0][1])
            if pr.interp._artx[3]:
                # the server's size field was smaller than the first chunk: whatever the client makes of it, it must not panic
                # and must not hang; the data it returns is a prefix of what the server sent
                if o[0] not in ('art', 'none', 'ack', 'typed_error', 'protocol') or (o[0] == 'art' and not picture.startswith(o[1])):
                    bad = 'inconsistent size field: album_art returns %s' % (o[:2],)
            elif pr.interp._artx[2]:
                if o[0] != 'ack' or int(o[1]) != 50:
                    bad = 'the server answered a later chunk request with error 50, album_art returns %s' % (o[:3],)
            elif other_err:
                if o[0] != 'ack' or int(o[1]) != other_err:
                    bad = 'server error %d is not propagated: %s' % (other_err, o[:3])
            elif src == 3:
                if o[0] != 'none':
                    bad = 'no picture anywhere, album_art returns %s' % (o[:2],)
            else:
                if o[0] != 'art' or o[1] != picture or o[2] != (mime if src == 0 else None):
                    bad = 'album_art returns %s, the picture is %r (mime %r)' % (o, picture, mime if src == 0 else None)
            # offsets strictly increasing per command, fallback exactly when needed
            if pr.interp._artx[3]:
                reqs = []
            offs = {}
            for l in reqs:
                p = l.split()
                offs.setdefault(p[0], []).append(int(p[-1]))
            for k, v in offs.items():
                if any(b <= a for a, b in zip(v, v[1:])):
                    bad = bad or 'offsets of %s are not strictly increasing: %s' % (k.decode(), v)
            if src == 0 and b'albumart' in offs:
                bad = bad or 'embedded picture present but the cover-file command was sent too'
            if len(reqs) > len(picture) // max(1, limit) + 4:
                bad = bad or 'too many requests: %d' % len(reqs)
        res.cls('art source %d' % src, nontrivial=True)
        if bad:
            res.violations.append({'what': bad, 'input': {'scenario': pl, 'source': src, 'mime': mime is not None, 'other_err': other_err,
                                                          'limit2': pr.interp._artx[0], 'cutlf': pr.interp._artx[1], 'late_err': pr.interp._artx[2], 'lie': pr.interp._artx[3],
                                                          'notify': pr.interp._artn[0], 'dropev': pr.interp._artn[1]}})
        if len(res.samples) < 1:
            res.samples.append({'size': size, 'limit': limit, 'source': src, 'requests': [r.decode() for r in reqs]})
        res.take_stats(pr.ctx.stats); pr.ctx.stats.__init__()

# ---------------------------------------------------------------------------- C18 password exchange
def run_password(P, res, pl):
    verdict = pl['verdict']
    pw = pl.get('pw', 'hunter 2')
    first = None if pw is None else (b'password "hunter 2"' if pw else b'password ')         # (an empty argument renders as nothing: F-C06-b)
    def harness(I):
        set_cap(I, 64)
        S = Session(I, P, [[]], deliver='lines', password=None if pw is None else pw.encode())
        if pl.get('entry') == 'opt':
            S.connect_entry = 'opt'
        S.server.password = verdict
        if pl.get('slow'):
            S.t.max_write = 1             # one byte per write call: the password line still has to arrive complete and alone
        S.connect_may_hang = True
        r = S.connect()
        if r is not None and r.variant == 'Ok':
            S.settle()
        return S, r
    for pr in explore(P, harness):
        res.paths += 1
        if pr.kind == 'panic':
            res.violations.append({'what': 'connect_with_password panics: ' + pr.error.msg[:100], 'input': {'scenario': pl}}); continue
        S, r = pr.value
        lines = S.server.lines
        bad = None
        if r is None:
            bad = 'the handshake never completes (lines written: %s%s)' % (lines, '; protocol monitor: %s' % S.server.violations[0] if S.server.violations else '')
            res.cls('password ' + verdict, nontrivial=True)
            res.violations.append({'what': bad, 'input': {'scenario': pl}})
            continue
        if first is None:
            if r.variant != 'Ok' or lines[:1] != [b'idle']:
                bad = 'no password given: result %s, lines %s' % (r.variant, lines)
        elif not lines or lines[0] != first:
            bad = 'first line written is %r, not the password line %r' % (lines[:1], first)
        elif verdict == 'OK':
            if r.variant != 'Ok' or lines[1:2] != [b'idle']:
                bad = 'accepted password: result %s, lines %s' % (r.variant, lines)
        else:
            if r.variant != 'Err':
                bad = 'password verdict %s but connect succeeds' % verdict
            elif len(lines) != 1:
                bad = 'lines written after a rejected password: %s' % lines[1:]
            else:
                e = r.fields[0]
                want = 'IncorrectPassword' if verdict in ('ACK', 'ACKempty', 'ACKperm', 'listACK') else 'ProtocolError'
                if e.variant != want:
                    bad = 'verdict %s yields %s' % (verdict, e.variant)
        if not bad and S.server.violations:
            bad = 'protocol monitor: ' + str(S.server.violations[0])
        res.cls('password ' + verdict, nontrivial=True)
        if bad:
            res.violations.append({'what': bad, 'input': {'scenario': pl}})
        if len(res.samples) < 1:
            res.samples.append({'verdict': verdict, 'lines': [l.decode('latin1') for l in lines], 'result': r.variant})
        res.take_stats(pr.ctx.stats); pr.ctx.stats.__init__()

EXPL = ('Bounded symbolic exploration of schedules of the real client: the coroutine state machines rustc generated for Client::connect*/do_connect/run_loop/run_loop_iteration/handle_command/'
        'handle_idle_response/do_send/raw_command(_list)/album_art/ConnectionEvents::next are executed from their MIR on top of the real AsyncConnection, ResponseBuilder and parser; tokio '
        '(mpsc, oneshot, timeout, spawn, select!) is answered by contract models; an explicit scheduler makes every scheduling decision (which task is polled, when reply lines are released, when '
        'changes, timer expiry, cancellations, faults and handle drops happen, which select! branch is polled first) a symbolic choice, z3 enumerates the feasible choice vectors and every path ends '
        'in a deterministic settle phase after which the monitors (simulated MPD server with idle rules, reply identity, event list, completion of every request) are evaluated')
ASSUME = ['tokio is modelled single-threaded and waker-free (a lost wake-up cannot be observed); select! = both futures created, polled from a symbolic start branch, first ready wins, both dropped before the handler runs (ws/shims/tokio)',
          'partial-order reduction: a task is only polled again after something it can observe changed (tasks are deterministic)',
          'reply bytes are released to the client line by line (one scenario family: half lines); byte-level segmentation is covered by C02',
          'bounded: the scenario families, K free scheduler steps and budgets stated in the bounds; deeper queues / longer histories are outside the claim',
          'drop of a suspended coroutine drops the values saved for its current state (approximation of the coroutine_drop shim)']


def native_obs(out, steps):
    obs = {'steps': list(steps), 'lines': [], 'violations': [], 'changed_written': [], 'events': [], 'callers': [], 'flags': sorted(s for s in steps if s.startswith('fault:')),
           'multi_changed': False, 'noidle_inside_idle_reply': False, 'server_idle': False, 'transport_dropped': False, 'is_closed': None}
    callers = {}
    def caller(i):
        return callers.setdefault(i, {'results': [], 'pending': None, 'cancelled': [], 'unissued': []})
    for k, v in out['_order']:
        if k == 'line': obs['lines'].append(v)
        elif k == 'violation': obs['violations'].append(v)
        elif k == 'changed': obs['changed_written'].append(v)
        elif k == 'event': obs['events'].append(v)
        elif k == 'server_idle': obs['server_idle'] = v == 'true'
        elif k == 'idle_acked': obs['idle_acked'] = v == 'true'
        elif k == 'multi_changed': obs['multi_changed'] = v == 'true'
        elif k == 'transport_dropped': obs['transport_dropped'] = v == 'true'
        elif k == 'is_closed': obs['is_closed'] = None if v == 'none' else v == 'true'
        elif k.startswith('result'):
            req, _, o = v.partition(' => ')
            caller(int(k[6:]))['results'].append((req, parse_native_outcome(o)))
        elif k.startswith('pending'): caller(int(k[7:]))['pending'] = v
        elif k.startswith('cancelled'): caller(int(k[9:]))['cancelled'].append(v)
    n = max(list(callers) + [-1]) + 1
    obs['callers'] = [caller(i) for i in range(n)]
    obs['loop_done'] = obs['is_closed'] is True or (obs['events'] and obs['events'][-1] == 'end')
    obs['artreqs'] = out.get('artreq', [])
    return obs

def parse_native_outcome(o):
    def frame(t):
        return [list(kv.split('=', 1)) for kv in t.split(',') if kv]
    if o.startswith('frame '):
        return ['frame', [tuple(x) for x in frame(o[6:])]]
    if o.startswith('frames ['):
        body = o[8:-1]
        return ['frames', [[tuple(x) for x in frame(f)] for f in body.split('|')] if body else []]
    if o.startswith('typed ['):
        body = o[7:-1]
        return ['typed', [[int(x.partition('>')[0]), [tuple(y) for y in frame(x.partition('>')[2])]] for x in body.split('|')] if body else []]
    if o.startswith('ack '):
        head, _, fr = o.partition(' [')
        _, code, idx, cmd = head.split(' ')
        fr = fr[:-1]
        return ['ack', int(code), int(idx), None if cmd == '-' else cmd, [[tuple(x) for x in frame(f)] for f in fr.split('|')] if fr else []]
    if o.startswith('protocol '):
        return ['protocol', o[9:]]
    return o.split(' ')

def norm(x):
    return json.loads(json.dumps(x))

def replay_for(prop, rec, every=0):
    """every=n: the violation has to show in each of n native attempts (cross-validation of passing paths); default: in one of six"""
    inp = rec.get('input') or rec
    pl = inp['scenario']
    every = every or (3 if rec.get('xval') else 0)
    tries = every or 16          # (real tokio starts select! at a random branch: a schedule that needs one order reproduces in an attempt with probability 1/2)
    if pl.get('family') == 'password':
        pw = pl.get('pw', 'hunter 2')
        spec = ('opt:' if pl.get('entry') == 'opt' else 'pw:') + ('-' if pw is None else hexs(pw.encode()))
        out = run_replay(['client', '', spec, pl['verdict'], '-'] + (['slowconnect'] if pl.get('slow') else []))
        if 'panic' in out:
            return True, 'native run panics'
        lines = out.get('line', [])
        conn = out.get('connect', ['?'])[0]
        v = pl['verdict']
        if out.get('violation'):
            return True, 'native: protocol monitor: %s (lines %s)' % (out['violation'][0], lines)
        if pw is None:
            return (conn != 'Ok' or lines[:1] != ['idle']), 'native: connect=%s lines=%s' % (conn, lines)
        first = 'password "hunter 2"' if pw else 'password '
        bad = (not lines or lines[0] != first or (v == 'OK' and (conn != 'Ok' or lines[1:2] != ['idle'])) or
               (v != 'OK' and (not conn.startswith('Err') or len(lines) != 1 or (('IncorrectPassword' in conn) != (v in ('ACK', 'ACKempty', 'ACKperm', 'listACK'))))))
        return bad, 'native: connect=%s lines=%s' % (conn, lines)
    if pl.get('family') == 'art':
        src = inp.get('source', 0)
        nsrc = 4 if inp.get('other_err') else (src if src < 3 else 3)
        spec = '%d,%d,%d,%d,%d,%d,%d,%d' % (pl['size'], pl['limit'], nsrc, 1 if inp.get('mime') else 0, inp.get('limit2') or 0, 1 if inp.get('cutlf') else 0, 1 if inp.get('late_err') else 0,
                                               1 if inp.get('lie') else 0)
        if pl.get('two'):
            out = run_replay(['client', 'art:other;art:song', '-', 'OK', spec, 'loop', 'issue0'] + ['loop', 'deliver'] * 12 + ['poll0', 'issue0'])
        else:
            steps = ['loop'] + (['dropevents'] if inp.get('dropev') else []) + (['change:player'] if inp.get('notify') == 2 else []) + ['issue0'] + (['change:player'] if inp.get('notify') == 1 else [])
            out = run_replay(['client', 'art:song', '-', 'OK', spec] + steps)
        if 'panic' in out:
            return True, 'native run panics'
        picture = bytes([0x41 + (i % 5) if i % 3 else 10 for i in range(pl['size'])])
        res_ = out.get('result0', ['?'])[-1].partition(' => ')[2]
        if inp.get('lie'):
            okl = res_ == 'none' or res_.startswith(('ack ', 'typed_error', 'protocol')) or (res_.startswith('art ') and hexs(picture).startswith(res_.split()[1].replace('-', '')))
            return (not okl), 'native: result %s' % res_
        if inp.get('late_err'):
            return (not res_.startswith('ack 50 ')), 'native: result %s' % res_
        if inp.get('other_err'):
            return (not res_.startswith('ack 52 ')), 'native: result %s' % res_
        if src == 3:
            bad = res_ != 'none'
        else:
            bad = res_ != 'art %s %s' % (hexs(picture), 'image/png' if (inp.get('mime') and src == 0) else '-')
        offs = {}
        for l in out.get('artreq', []):
            p = l.split()
            if p[1] != 'song':
                continue
            offs.setdefault(p[0], []).append(int(p[-1]))
        bad = bad or any(b <= a for v in offs.values() for a, b in zip(v, v[1:])) or (src == 0 and 'albumart' in offs)
        return bad, 'native: result %s requests %s' % (res_, out.get('artreq', []))
    if inp.get('steps') is None:
        return False, 'no schedule recorded'
    callers = '|'.join(';'.join(req_txt(r) for r in c) for c in scripts(pl['script']))
    last = None
    for k in range(tries):
        out = run_replay(['client', callers, '-', 'OK', '5,2,0,0,0,0' if pl['script'] == 'art' else '-'] + list(inp['steps']))
        if 'panic' in out:
            return True, 'native run panics: ' + unhex(out['panic'][0]).decode('utf-8', 'replace')[:100]
        obs = native_obs(out, inp['steps'])
        obs['flags'] = sorted(set(obs['flags']) | set(inp.get('flags', [])))
        for c in obs['callers']:
            c['results'] = [(r, norm(o)) for r, o in c['results']]
        bad = JUDGES[prop](obs)
        last = (bad, obs)
        if every and not bad:
            return False, 'native schedule satisfies the property (attempt %d)' % (k + 1)
        if bad and (not every or k == tries - 1):
            return True, 'native schedule (attempt %d): %s' % (k + 1, bad)
    return False, 'native schedule does not violate the property in %d attempts (events %s, lines %s)' % (tries, last[1]['events'], last[1]['lines'][-4:])
