"""C17 - see props/clientgroup.py and props/client_common.py (shared machinery of the client properties)."""
from props import clientgroup as CG
PROP = 'C17'
def instances(tier, seed): return CG.instances_for(PROP, tier, seed)
def run_instance(payload): return CG.run_for(PROP, payload)
def replay(rec): return CG.replay_for(PROP, rec)
def bounds(tier): return BOUNDS[tier]
DESCR = CG.DESCR
EXPLANATION = CG.EXPL
ASSUMPTIONS = CG.ASSUME
RULE = 'one evaluation = one feasible schedule (path) of one scenario family, judged after the settle phase; non-trivial = more than three scheduler steps'
REQUIRED_CLASSES = ['art source 0', 'art source 1', 'art source 2', 'art source 3']
BOUNDS = {'quick': 'Client::album_art for one song against a simulated picture store: picture sizes {0,1,2,3,5} bytes (a fixed byte pattern containing LF) x server chunk limit {1,2,3}; per instance symbolic choices of the source '
                   '(embedded with/without MIME type, file only with readpicture answering empty, file only with readpicture unknown (ACK 5), nothing anywhere, a different server error 52), '
                   'and of a subsystem change arriving during the transfer; two instances run a second lookup through a cloned client on the same connection after a lookup that found nothing; '
                   'reply lines are delivered one at a time, the run loop and the caller are polled to quiescence',
          'thorough': 'as quick with sizes {0,1,2,3,4,5,7} x limits {1,2,3,4}'}
