"""Library models: core::fmt (Arguments template decoding, Display of the types the repository formats),
bytes::{BytesMut, Bytes, BufMut, Buf}, HashMap/HashSet (association list)."""
import z3
from values import *
from interp import model, MODELS, runtime_type, seq_len, short, simp, has_wide
import models_core
from models_core import deref, as_items, as_slice, explode, val_eq, push_char
from rtypes import base_name, type_str, subst, int_info

# ============================================================================ fmt
class FmtArg:
    """core::fmt::rt::Argument: a value + the trait to format it with"""
    def __init__(self, v, kind, ty=None): self.v = v; self.kind = kind; self.ty = ty

class FmtArgs:
    """core::fmt::Arguments"""
    def __init__(self, template, args): self.template = template; self.args = args
    def render(self, I):
        out = []
        t = self.template
        if isinstance(t, SliceRef) and self.args is None:
            return list(t.items())
        t = list(t.items())
        i = 0
        argi = 0
        while True:
            n = t[i]; i += 1
            if n == 0:
                return out
            if n < 0x80:
                out.extend(t[i:i+n]); i += n
            elif n == 0x80:
                ln = t[i] | (t[i+1] << 8); i += 2
                out.extend(t[i:i+ln]); i += ln
            elif n == 0xC0:
                out.extend(fmt_one(I, self.args[argi], {}))
                argi += 1
            else:
                opts = {}
                if n & 1:
                    opts['flags'] = int.from_bytes(bytes(t[i:i+4]), 'little'); i += 4
                if n & 2:
                    opts['width'] = t[i] | (t[i+1] << 8); i += 2
                if n & 4:
                    opts['precision'] = t[i] | (t[i+1] << 8); i += 2
                if n & 8:
                    argi = t[i] | (t[i+1] << 8); i += 2
                if n & 48:
                    raise Unsupported('indirect width/precision in format string')
                out.extend(fmt_one(I, self.args[argi], opts))
                argi += 1

class Formatter:
    def __init__(self, out, opts=None): self.out = out; self.opts = opts or {}

def fmt_one(I, a, opts):
    fl = opts.get('flags', 0)
    width = opts.get('width')
    # FormattingOptions flags: 0-20 fill, 21 '+', 22 '-', 23 '#', 24 '0', 25/26 debug hex, 27 width set, 28 precision set, 29-30 alignment
    if fl & 0x06C00000:
        raise Unsupported('format flags %r' % (opts,))
    v = a.v
    if a.kind == 'display':
        out = display(I, deref(v), opts, a.ty)
    elif a.kind == 'debug':
        out = debug(I, deref(v), opts)
    else:
        raise Unsupported('format trait ' + a.kind)
    if width:
        if any(isinstance(x, (DecRun, FloatLit, FloatRun)) or is_sym(x) and False for x in out):
            raise Unsupported('format width on a symbolic number %r' % (opts,))
        n = len(out)                 # width counts chars: every element is one char
        if n < width:
            dv = deref(v)
            numeric = isinstance(dv, (int, float)) and not isinstance(dv, bool) or isinstance(dv, models_core.TypedInt)
            fill = fl & 0x1FFFFF
            align = (fl >> 29) & 3
            if fl & 0x01000000 and numeric:
                fill, align = ord('0'), 1
            elif align == 3:
                align = 1 if numeric else 0
            pad = []
            push_char(I, pad, fill)
            k = width - n
            if align == 0: out = out + pad * k
            elif align == 1: out = pad * k + out
            else: out = pad * (k // 2) + out + pad * (k - k // 2)
    return out

def dec_digits(n):
    return list(str(n).encode())

def display(I, v, opts=None, ty=None):
    """<T as Display>::fmt output as a list of string elements"""
    opts = opts or {}
    if isinstance(v, models_core.TypedInt):
        v = v.v
    if isinstance(v, bool):
        return list(b'true' if v else b'false')
    plus = list(b'+') if (opts.get('flags', 0) & 0x00200000) else []
    while ty is not None and ty[0] == 'ref':
        ty = ty[2]
    sinfo = int_info(type_str(ty)) if ty is not None else None
    if sinfo is not None and sinfo[1] and not isinstance(v, float):
        # signed integer (two's complement representation): sign, then the magnitude in decimal
        bits = sinfo[0]
        if is_sym(v):
            V = bv(v, bits)
            if I.ctx.decide(V < 0):
                return list(b'-') + [DecRun(simp(-V), bits)]
            return plus + [DecRun(V, bits)]
        sv = v - (1 << bits) if v >> (bits - 1) else v
        return (list(b'-') if sv < 0 else plus) + dec_digits(abs(sv))
    if isinstance(v, int):
        if ty is not None and type_str(ty) == 'char':
            s = []; push_char(I, s, v); return s
        return plus + dec_digits(v)
    if isinstance(v, float):
        p = opts.get('precision')
        if p is not None:
            return list(rust_float_fixed(v, p).encode())
        return list(repr(v).encode())
    if is_sym(v):
        if z3.is_bv(v):
            if ty is not None and type_str(ty) == 'char':
                s = []; push_char(I, s, v); return s
            return plus + [DecRun(v, v.size())]
        if z3.is_bool(v):
            return list(b'true') if I.ctx.decide(v) else list(b'false')
        if z3.is_fp(v):
            return [FloatRun(v, opts.get('precision'))]
        raise Unsupported('display of %s' % v)
    if isinstance(v, (SliceRef, StrBuf)):
        return list(as_items(v))
    if isinstance(v, Adt) and v.ty == 'Cow':
        return list(as_items(v))
    if isinstance(v, Adt):
        rt = runtime_type(v)
        hit = I.prog.find_impl('Display', 'fmt', rt)
        if hit:
            f = Formatter([], opts)
            r = I.run(hit[0].func, [ref_to(v), ref_to(f)], dict(hit[1]))
            return f.out
    if isinstance(v, BoxObj):
        return display(I, v.v, opts, None)
    if isinstance(v, FmtArgs):
        return v.render(I)
    if isinstance(v, Opaque):
        return list(('<%s>' % v.kind).encode())
    raise Unsupported('Display of %s' % short(v))

class FloatRun:
    """decimal rendering of a symbolic f64 with the given precision: opaque run of [0-9.] (plus sign/inf/NaN
    letters when the value is not a finite non-negative number)"""
    def __init__(self, val, precision): self.val = val; self.precision = precision
    def __repr__(self): return '{f64 %s .%s}' % (self.val, self.precision)

def rust_float_fixed(v, p):
    import decimal
    if v != v:
        return 'NaN'
    if v in (float('inf'), float('-inf')):
        return 'inf' if v > 0 else '-inf'
    d = decimal.Decimal(v)          # exact binary value
    q = d.quantize(decimal.Decimal(1).scaleb(-p), rounding=decimal.ROUND_HALF_EVEN)
    s = format(q, 'f')
    return s

def debug(I, v, opts=None):
    if isinstance(v, (SliceRef, StrBuf)) and (isinstance(v, StrBuf) or v.kind == 'str'):
        items = as_items(v)
        conc = models_core.concrete_bytes(items) if not any(isinstance(x, (WChar, DecRun)) for x in items) else None
        if conc is None:
            return [ord('"')] + [ord('?')] + [ord('"')]
        return list(('"' + conc.decode('utf-8', 'replace').replace('\\', '\\\\').replace('"', '\\"') + '"').encode())
    if isinstance(v, (int, bool)):
        return display(I, v)
    if is_sym(v):
        return display(I, v)
    return list(short(v, 60).encode())

@model('Argument::new_display', 'rt::Argument::new_display')
def m_new_display(I, c, args, fr):
    t = c.targs[0] if c.targs else None
    if t is not None and fr is not None and fr.env:
        t = subst(t, fr.env)
    while t is not None and t[0] == 'ref':
        t = t[2]
    return FmtArg(args[0], 'display', t)

@model('Argument::new_debug', 'rt::Argument::new_debug')
def m_new_debug(I, c, args, fr):
    return FmtArg(args[0], 'debug')

@model('Arguments::new', 'Arguments::new_v1', 'Arguments::new_v1_formatted')
def m_args_new(I, c, args, fr):
    arr = deref(args[1])
    return FmtArgs(args[0], list(as_items(arr)))

@model('Arguments::from_str', 'Arguments::new_const', 'Arguments::from_str_nonconst')
def m_args_from_str(I, c, args, fr):
    return FmtArgs(args[0], None)

@model('Arguments::as_str')
def m_args_as_str(I, c, args, fr):
    a = deref(args[0])
    if a.args is None:
        return some(a.template)
    return none()

@model('Write::write_fmt', 'Formatter::write_fmt', 'fmt::write')
def m_write_fmt(I, c, args, fr):
    dst = deref(args[0])
    out = args[1].render(I)
    write_str(I, dst, out)
    return ok(UNIT)

def write_str(I, dst, items):
    if isinstance(dst, Formatter):
        dst.out.extend(items)
    elif isinstance(dst, StrBuf):
        dst.b.extend(items)
    elif isinstance(dst, ByteBuf):
        dst.b.extend(items)       # string elements (WChar / DecRun) are kept; byte views explode them
    else:
        raise Unsupported('fmt::Write target %s' % short(dst))

@model('Write::write_str', 'Formatter::write_str', 'Formatter::pad')
def m_write_str(I, c, args, fr):
    write_str(I, deref(args[0]), list(as_items(args[1])))
    return ok(UNIT)

@model('Write::write_char', 'Formatter::write_char')
def m_write_char(I, c, args, fr):
    s = []
    push_char(I, s, args[1])
    write_str(I, deref(args[0]), s)
    return ok(UNIT)

@model('Display::fmt')
def m_display_fmt(I, c, args, fr):
    t = subst(c.qself, fr.env) if fr is not None and fr.env else c.qself
    while t[0] == 'ref':
        t = t[2]
    f = deref(args[1])
    write_str(I, f, display(I, deref(args[0]), f.opts if isinstance(f, Formatter) else None, t))
    return ok(UNIT)

@model('Debug::fmt')
def m_debug_fmt(I, c, args, fr):
    f = deref(args[1])
    write_str(I, f, debug(I, deref(args[0])))
    return ok(UNIT)

@model('Formatter::alternate')
def m_alternate(I, c, args, fr):
    return False

@model('Formatter::debug_struct', 'Formatter::debug_tuple', 'Formatter::debug_list', 'Formatter::debug_map',
       'Formatter::debug_set')
def m_debug_builder(I, c, args, fr):
    return Opaque('DebugBuilder', deref(args[0]))

@model('DebugStruct::field', 'DebugTuple::field', 'DebugList::entry', 'DebugMap::entry', 'DebugList::entries',
       'DebugMap::entries', 'DebugSet::entry', 'DebugSet::entries', 'DebugMap::key', 'DebugMap::value')
def m_debug_field(I, c, args, fr):
    return args[0]

@model('DebugStruct::finish', 'DebugTuple::finish', 'DebugList::finish', 'DebugMap::finish', 'DebugSet::finish',
       'DebugStruct::finish_non_exhaustive', 'Formatter::debug_struct_field1_finish', 'Formatter::debug_struct_field2_finish',
       'Formatter::debug_struct_field3_finish', 'Formatter::debug_struct_field4_finish', 'Formatter::debug_struct_field5_finish',
       'Formatter::debug_struct_fields_finish', 'Formatter::debug_tuple_field1_finish', 'Formatter::debug_tuple_field2_finish',
       'Formatter::debug_tuple_field3_finish', 'Formatter::debug_tuple_fields_finish')
def m_debug_finish(I, c, args, fr):
    return ok(UNIT)

# ============================================================================ bytes
def bytebuf(v):
    v = deref(v)
    if not isinstance(v, ByteBuf):
        raise Unsupported('expected BytesMut, got %s' % short(v))
    return v

def norm_bytes(I, b):
    """make a ByteBuf hold plain bytes (explode string elements written through fmt::Write)"""
    if any(isinstance(x, WChar) for x in b.b):
        b.b[:] = explode(I, b.b)

@model('BytesMut::new')
def m_bm_new(I, c, args, fr):
    return ByteBuf([])

@model('BytesMut::with_capacity')
def m_bm_with_capacity(I, c, args, fr):
    return ByteBuf([])

@model('BytesMut::zeroed')
def m_bm_zeroed(I, c, args, fr):
    n = args[0]
    if is_sym(n):
        raise Unsupported('symbolic BytesMut::zeroed length')
    return ByteBuf([0] * n)

@model('BytesMut::len', 'Bytes::len')
def m_bm_len(I, c, args, fr):
    return seq_len(bytebuf(args[0]))

@model('BytesMut::is_empty', 'Bytes::is_empty')
def m_bm_is_empty(I, c, args, fr):
    return len(bytebuf(args[0]).b) == 0

@model('BytesMut::capacity')
def m_bm_capacity(I, c, args, fr):
    b = bytebuf(args[0])
    return len(b.b) + len(b.spare)

@model('BytesMut::clear', 'Bytes::clear')
def m_bm_clear(I, c, args, fr):
    b = bytebuf(args[0])
    b.spare = b.b + b.spare
    b.b = []
    return UNIT

@model('BytesMut::reserve')
def m_bm_reserve(I, c, args, fr):
    b = bytebuf(args[0])
    n = args[1]
    # bytes: `len.checked_add(additional).expect("overflow")`
    if is_sym(n):
        if I.ctx.decide(z3.UGT(bv(n, 64), (1 << 64) - 1 - len(b.b))):
            raise Panic('BytesMut::reserve: overflow')
        if I.ctx.decide(z3.UGT(bv(n, 64), (1 << 63) - 1)):
            raise Panic('BytesMut::reserve: capacity overflow')
    else:
        if n + len(b.b) >= 1 << 64:
            raise Panic('BytesMut::reserve: overflow')
        if n + len(b.b) > (1 << 63) - 1:
            raise Panic('BytesMut::reserve: capacity overflow')
    return UNIT

@model('BytesMut::truncate', 'Bytes::truncate')
def m_bm_truncate(I, c, args, fr):
    b = bytebuf(args[0])
    n = args[1]
    if is_sym(n) or has_wide(b.b):
        from interp import resolve_offset
        n = resolve_offset(I, b.b, n)
        if n is None:
            return UNIT
    if n < len(b.b):
        b.spare = b.b[n:] + b.spare          # the memory stays allocated (capacity is unchanged)
        del b.b[n:]
    return UNIT

@model('BytesMut::resize')
def m_bm_resize(I, c, args, fr):
    b = bytebuf(args[0])
    n = args[1]
    if is_sym(n):
        raise Unsupported('symbolic resize length')
    if n > 1 << 24:
        raise Unsupported('BytesMut::resize to %d bytes' % n)
    if n < len(b.b):
        b.spare = b.b[n:] + b.spare
        del b.b[n:]
    else:
        grow = n - len(b.b)
        b.b.extend([args[2]] * grow)
        b.spare = b.spare[grow:]             # growing into the spare capacity overwrites it (beyond it: reallocation)
    return UNIT

@model('BytesMut::split_off', 'Bytes::split_off')
def m_bm_split_off(I, c, args, fr):
    b = bytebuf(args[0])
    at = args[1]
    if is_sym(at):
        raise Unsupported('symbolic split_off position')
    cap = len(b.b) + len(b.spare)
    if at > cap:
        raise Panic('split_off out of bounds: %d <= %d' % (at, cap))
    if at <= len(b.b):
        tail = ByteBuf(b.b[at:], b.kind)
        tail.spare = b.spare
        del b.b[at:]
        b.spare = []
    else:
        k = at - len(b.b)
        tail = ByteBuf([], b.kind)
        tail.spare = b.spare[k:]
        b.spare = b.spare[:k]
    tail.tail_of = b
    return tail

@model('BytesMut::split_to', 'Bytes::split_to')
def m_bm_split_to(I, c, args, fr):
    b = bytebuf(args[0])
    at = args[1]
    if is_sym(at):
        raise Unsupported('symbolic split_to position')
    if at > len(b.b):
        raise Panic('split_to out of bounds: %d <= %d' % (at, len(b.b)))
    head = ByteBuf(b.b[:at], b.kind)
    del b.b[:at]
    return head

@model('BytesMut::split')
def m_bm_split(I, c, args, fr):
    b = bytebuf(args[0])
    head = ByteBuf(b.b, b.kind)
    del b.b[:]
    return head

@model('BytesMut::unsplit')
def m_bm_unsplit(I, c, args, fr):
    b = bytebuf(args[0])
    o = args[1]
    if not b.b and not b.spare:
        b.b = list(o.b); b.spare = list(o.spare)
        return UNIT
    if o.tail_of is b and not b.spare:
        # contiguous (ptr + len == other.ptr): the two views are joined again, the other view's capacity comes back
        b.b.extend(o.b); b.spare = list(o.spare)
    else:
        b.b.extend(o.b)                      # not contiguous: extend_from_slice (may reallocate)
        b.spare = b.spare[len(o.b):]
    return UNIT

@model('BytesMut::freeze')
def m_bm_freeze(I, c, args, fr):
    return ByteBuf(args[0].b, 'Bytes')

@model('BytesMut::extend_from_slice', 'BufMut::put_slice', 'BufMut::put')
def m_bm_put_slice(I, c, args, fr):
    b = bytebuf(args[0])
    src = deref(args[1])
    items = as_items(src)
    b.b.extend(items)
    b.spare = b.spare[len(items):]
    return UNIT

@model('BufMut::put_u8')
def m_bm_put_u8(I, c, args, fr):
    b = bytebuf(args[0])
    x = args[1]
    if is_sym(x) and x.size() != 8:
        x = simp(z3.Extract(7, 0, x))
    b.b.append(x)
    b.spare = b.spare[1:]
    return UNIT

@model('BufMut::has_remaining_mut')
def m_has_remaining_mut(I, c, args, fr):
    return True

@model('Buf::advance')
def m_buf_advance(I, c, args, fr):
    b = bytebuf(args[0])
    n = args[1]
    if is_sym(n):
        raise Unsupported('symbolic advance')
    if n > len(b.b):
        raise Panic('cannot advance past `remaining`: %d <= %d' % (n, len(b.b)))
    del b.b[:n]
    return UNIT

@model('Buf::remaining')
def m_buf_remaining(I, c, args, fr):
    return len(bytebuf(args[0]).b)

@model('Bytes::copy_from_slice', 'Bytes::from_static')
def m_bytes_copy(I, c, args, fr):
    return ByteBuf(explode(I, as_items(args[0])), 'Bytes')

@model('Bytes::new')
def m_bytes_new(I, c, args, fr):
    return ByteBuf([], 'Bytes')

@model('<BytesMut as From>::from', '<Bytes as From>::from')
def m_bm_from(I, c, args, fr):
    v = deref(args[0])
    kind = 'BytesMut' if 'BytesMut' in type_str(c.qself) else 'Bytes'
    if isinstance(v, ByteBuf):
        return ByteBuf(v.b, kind)
    return ByteBuf(explode(I, as_items(v)), kind)

@model('<BytesMut as Deref>::deref', '<BytesMut as DerefMut>::deref_mut', '<Bytes as Deref>::deref',
       '<BytesMut as AsRef>::as_ref', '<Bytes as AsRef>::as_ref', '<BytesMut as Borrow>::borrow')
def m_bm_deref(I, c, args, fr):
    b = bytebuf(args[0])
    if any(isinstance(x, (WChar,)) for x in b.b):
        norm_bytes(I, b)
    return b.as_ref()
