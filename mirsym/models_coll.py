"""Library models: HashMap / HashSet / BTreeMap as association lists (key equality decided through val_eq, i.e. by the
solver for symbolic keys; no hashing - any hash function consistent with Eq gives the same map behaviour)."""
from values import *
from interp import model, short, runtime_type
from models_core import deref, val_eq, mk_option, val_cmp
from models_iter import ListIter, Iter, STOP

class MapObj:
    def __init__(self, kind):
        self.kind = kind
        self.entries = []          # list of [key, value]
    def find(self, I, k):
        for e in self.entries:
            if I.ctx.decide(val_eq(I, e[0], k)):
                return e
        return None
    def get(self, I, k):
        e = self.find(I, k)
        return None if e is None else Ref(ListLoc(e, 1))
    def insert(self, I, k, v):
        e = self.find(I, k)
        if e is not None:
            old = e[1]; e[1] = v
            return old
        self.entries.append([k, v])
        if self.kind.startswith('BTree'):
            self.sort(I)
        return None
    def sort(self, I):
        import functools
        self.entries.sort(key=functools.cmp_to_key(lambda a, b: val_cmp(I, a[0], b[0])))
    def iter_refs(self):
        if self.kind.endswith('Set'):
            return ListIter([Ref(ListLoc(e, 0)) for e in self.entries], 'val')
        return ListIter([Tup([Ref(ListLoc(e, 0)), Ref(ListLoc(e, 1))]) for e in self.entries], 'val')
    def into_iter(self):
        if self.kind.endswith('Set'):
            return ListIter([e[0] for e in self.entries], 'val')
        return ListIter([Tup([e[0], e[1]]) for e in self.entries], 'val')
    def on_clone(self, I):
        m = MapObj(self.kind)
        m.entries = [[deep_clone(k), deep_clone(v)] for k, v in self.entries]
        return m
    def model_eq(self, I, other):
        if len(self.entries) != len(other.entries):
            return False
        conds = []
        for k, v in self.entries:
            e = other.find(I, k)
            if e is None:
                return False
            conds.append(val_eq(I, v, e[1]))
        return b_and(*conds)
    def __repr__(self):
        return '%s%r' % (self.kind, self.entries)

def mp(v):
    return deref(v)

@model('HashMap::new', 'HashMap::with_capacity', 'HashMap::default', 'HashMap::with_hasher', 'HashMap::with_capacity_and_hasher')
def m_map_new(I, c, args, fr):
    return MapObj('HashMap')

@model('HashSet::new', 'HashSet::with_capacity', 'HashSet::default', 'HashSet::with_hasher')
def m_set_new(I, c, args, fr):
    return MapObj('HashSet')

@model('BTreeMap::new')
def m_btree_new(I, c, args, fr):
    return MapObj('BTreeMap')

@model('HashMap::insert', 'BTreeMap::insert')
def m_map_insert(I, c, args, fr):
    return mk_option(mp(args[0]).insert(I, args[1], args[2]))

@model('HashSet::insert')
def m_set_insert(I, c, args, fr):
    m = mp(args[0])
    if m.find(I, args[1]) is not None:
        I.drop_value(args[1])
        return False
    m.entries.append([args[1], UNIT])
    return True

@model('HashMap::get', 'HashMap::get_mut', 'BTreeMap::get', 'BTreeMap::get_mut')
def m_map_get(I, c, args, fr):
    return mk_option(mp(args[0]).get(I, args[1]))

@model('HashSet::get')
def m_set_get(I, c, args, fr):
    e = mp(args[0]).find(I, args[1])
    return none() if e is None else some(Ref(ListLoc(e, 0)))

@model('HashMap::contains_key', 'HashSet::contains', 'BTreeMap::contains_key')
def m_map_contains(I, c, args, fr):
    return mp(args[0]).find(I, args[1]) is not None

@model('HashMap::remove', 'BTreeMap::remove')
def m_map_remove(I, c, args, fr):
    m = mp(args[0])
    e = m.find(I, args[1])
    if e is None:
        return none()
    m.entries.remove(e)
    return some(e[1])

@model('HashSet::remove')
def m_set_remove(I, c, args, fr):
    m = mp(args[0])
    e = m.find(I, args[1])
    if e is None:
        return False
    m.entries.remove(e)
    return True

@model('HashMap::len', 'HashSet::len', 'BTreeMap::len')
def m_map_len(I, c, args, fr):
    return len(mp(args[0]).entries)

@model('HashMap::is_empty', 'HashSet::is_empty', 'BTreeMap::is_empty')
def m_map_is_empty(I, c, args, fr):
    return not mp(args[0]).entries

@model('HashMap::iter', 'HashSet::iter', 'BTreeMap::iter', 'HashMap::iter_mut')
def m_map_iter(I, c, args, fr):
    return mp(args[0]).iter_refs()

@model('HashMap::keys', 'BTreeMap::keys')
def m_map_keys(I, c, args, fr):
    return ListIter([Ref(ListLoc(e, 0)) for e in mp(args[0]).entries], 'val')

@model('HashMap::values', 'HashMap::values_mut', 'BTreeMap::values')
def m_map_values(I, c, args, fr):
    return ListIter([Ref(ListLoc(e, 1)) for e in mp(args[0]).entries], 'val')

@model('HashMap::into_keys')
def m_map_into_keys(I, c, args, fr):
    return ListIter([e[0] for e in args[0].entries], 'val')

@model('HashMap::into_values')
def m_map_into_values(I, c, args, fr):
    return ListIter([e[1] for e in args[0].entries], 'val')

@model('HashMap::clear', 'HashSet::clear')
def m_map_clear(I, c, args, fr):
    del mp(args[0]).entries[:]
    return UNIT

class Entry:
    def __init__(self, m, key, e): self.m = m; self.key = key; self.e = e

@model('HashMap::entry', 'BTreeMap::entry')
def m_map_entry(I, c, args, fr):
    m = mp(args[0])
    return Entry(m, args[1], m.find(I, args[1]))

@model('Entry::or_default', 'Entry::or_insert', 'Entry::or_insert_with')
def m_entry_or(I, c, args, fr):
    en = args[0]
    if en.e is None:
        if c.name == 'or_insert':
            v = args[1]
        elif c.name == 'or_insert_with':
            v = I.call_value(args[1], [])
        else:
            from models_core import default_of
            from rtypes import subst
            t = c.segs[-2][1][-1] if c.segs[-2][1] else None
            if t is None:
                raise Unsupported('Entry::or_default without value type')
            if fr is not None and fr.env:
                t = subst(t, fr.env)
            v = default_of(I, t)
        en.e = [en.key, v]
        en.m.entries.append(en.e)
        if en.m.kind.startswith('BTree'):
            en.m.sort(I)
    else:
        I.drop_value(en.key)
    return Ref(ListLoc(en.e, 1))
