"""Library models: the nom 7 combinators the repository's parser uses, with nom's *streaming* semantics for &[u8]
(Incomplete vs Error vs Failure, cut, opt, alt order).  Parsers are python callables wrapped in PyFn; zero-sized nom
closures that MIR passes as `const ZeroSized: {closure@nom::...}` are rebuilt from their type string; predicates and
mappers are the repository's own closures / functions and are interpreted."""
import re
import z3
from values import *
from interp import model, MODELS, Interp, simp, Frame
from models_core import deref, as_slice, as_items
from mirparse import split_top, match_close
from rtypes import strip_lifetimes

# ---------------------------------------------------------------------------- result helpers
def needed(n):
    if is_sym(n):
        return Adt('Needed', 'Size', 1, [n])
    return Adt('Needed', 'Size', 1, [n]) if n > 0 else Adt('Needed', 'Unknown', 0, [])

def incomplete(n=None):
    return err(Adt('Err', 'Incomplete', 0, [needed(n) if n is not None else Adt('Needed', 'Unknown', 0, [])]))

def nerror(inp, kind):
    return err(Adt('Err', 'Error', 1, [Adt('Error', None, 0, [inp, Opaque('ErrorKind', kind)], ['input', 'code'])]))

def done(rest, out):
    return ok(Tup([rest, out]))

def apply(I, p, inp):
    """apply parser value p to input slice"""
    return I.call_value(p, [inp])

def is_err_kind(r, kind):
    return r.variant == 'Err' and r.fields[0].variant == kind

# ---------------------------------------------------------------------------- leaf parsers
def p_tag(tagv):
    t = as_items(tagv)
    def parse(I, inp):
        inp = as_slice(inp)
        items = inp.items()
        n = min(len(items), len(t))
        if not I.ctx.decide(seq_eq(items[:n], t[:n])):
            return nerror(inp, 'Tag')
        if len(items) < len(t):
            return incomplete(len(t) - len(items))
        return done(inp.sub(len(t), len(items)), inp.sub(0, len(t)))
    return PyFn(parse, 'tag(%s)' % show_bytes(t))

def p_take(count):
    def parse(I, inp):
        inp = as_slice(inp)
        n = len(inp)
        c = count
        if is_sym(c):
            C = bv(c, 64)
            if I.ctx.decide(z3.UGT(C, n)):
                return incomplete(simp(C - n))
            k = 0
            while k < n and not I.ctx.decide(C == k):
                k += 1
            c = k
        if c > n:
            return incomplete(c - n)
        return done(inp.sub(c, n), inp.sub(0, c))
    return PyFn(parse, 'take')

def p_take_until(tagv):
    t = as_items(tagv)
    def parse(I, inp):
        inp = as_slice(inp)
        items = inp.items()
        for i in range(len(items) - len(t) + 1):
            if I.ctx.decide(seq_eq(items[i:i+len(t)], t)):
                return done(inp.sub(i, len(items)), inp.sub(0, i))
        return incomplete(None)
    return PyFn(parse, 'take_until')

def split_at_position(I, inp, stop_pred, at_least_one, kind):
    """nom streaming split_at_position / split_at_position1: first element for which stop_pred holds"""
    inp = as_slice(inp)
    items = inp.items()
    for i, x in enumerate(items):
        if I.ctx.decide(stop_pred(I, x)):
            if i == 0 and at_least_one:
                return nerror(inp, kind)
            return done(inp.sub(i, len(items)), inp.sub(0, i))
    return incomplete(1)

def p_take_while(pred, at_least_one):
    def parse(I, inp):
        return split_at_position(I, inp, lambda I, x: b_not(I.call_value(pred, [x])), at_least_one, 'TakeWhile1')
    return PyFn(parse, 'take_while1' if at_least_one else 'take_while')

def is_digit(x):
    if is_sym(x):
        return z3.And(z3.UGE(x, 48), z3.ULE(x, 57))
    return 48 <= x <= 57

def parse_digit1(I, inp):
    return split_at_position(I, inp, lambda I, x: b_not(is_digit(x)), True, 'Digit')

def p_char(c):
    def parse(I, inp):
        inp = as_slice(inp)
        if len(inp) == 0:
            return incomplete(1)
        if I.ctx.decide(int_eq(bv(inp.at(0), 32) if is_sym(inp.at(0)) else inp.at(0), c)):
            return done(inp.sub(1, len(inp)), c)
        return nerror(inp, 'Char')
    return PyFn(parse, 'char(%r)' % (chr(c) if isinstance(c, int) else c,))

# ---------------------------------------------------------------------------- combinators
def p_map(p, f):
    def parse(I, inp):
        r = apply(I, p, inp)
        if r.variant == 'Err':
            return r
        rest, o = r.fields[0].items
        return done(rest, I.call_value(f, [o]))
    return PyFn(parse, 'map')

def p_map_res(p, f):
    def parse(I, inp):
        r = apply(I, p, inp)
        if r.variant == 'Err':
            return r
        rest, o = r.fields[0].items
        o2 = I.call_value(f, [o])
        if o2.variant == 'Ok':
            return done(rest, o2.fields[0])
        return nerror(inp, 'MapRes')
    return PyFn(parse, 'map_res')

def p_opt(p):
    def parse(I, inp):
        r = apply(I, p, inp)
        if r.variant == 'Ok':
            rest, o = r.fields[0].items
            return done(rest, some(o))
        if is_err_kind(r, 'Error'):
            return done(inp, none())
        return r
    return PyFn(parse, 'opt')

def p_cut(p):
    def parse(I, inp):
        r = apply(I, p, inp)
        if is_err_kind(r, 'Error'):
            e = r.fields[0]
            return err(Adt('Err', 'Failure', 2, list(e.fields)))
        return r
    return PyFn(parse, 'cut')

def p_seq(parsers, select):
    """run parsers in sequence; `select(outputs)` builds the result"""
    def parse(I, inp):
        outs = []
        cur = inp
        for p in parsers:
            r = apply(I, p, cur)
            if r.variant == 'Err':
                return r
            cur, o = r.fields[0].items
            outs.append(o)
        return done(cur, select(outs))
    return PyFn(parse, 'seq')

def p_alt(parsers):
    def parse(I, inp):
        last = None
        for p in parsers:
            r = apply(I, p, inp)
            if is_err_kind(r, 'Error'):
                last = r
                continue
            return r
        return last
    return PyFn(parse, 'alt')

def tuple_items(v):
    return list(v.items) if isinstance(v, Tup) else [v]

# ---------------------------------------------------------------------------- constructor models
@model('nom::bytes::streaming::tag', 'bytes::streaming::tag', 'streaming::tag')
def m_tag(I, c, args, fr):
    return p_tag(args[0])

@model('nom::bytes::streaming::take', 'bytes::streaming::take', 'streaming::take')
def m_take(I, c, args, fr):
    return p_take(args[0])

@model('nom::bytes::streaming::take_until', 'streaming::take_until')
def m_take_until(I, c, args, fr):
    return p_take_until(args[0])

@model('nom::bytes::streaming::take_while', 'streaming::take_while')
def m_take_while(I, c, args, fr):
    return p_take_while(args[0], False)

@model('nom::bytes::streaming::take_while1', 'streaming::take_while1')
def m_take_while1(I, c, args, fr):
    return p_take_while(args[0], True)

@model('nom::character::streaming::char', 'character::streaming::char', 'streaming::char')
def m_char(I, c, args, fr):
    return p_char(args[0])

@model('nom::character::streaming::newline', 'streaming::newline')
def m_newline(I, c, args, fr):
    return p_char(10).f(I, args[0])

@model('nom::character::streaming::digit1', 'streaming::digit1')
def m_digit1(I, c, args, fr):
    return parse_digit1(I, args[0])

@model('nom::character::is_alphabetic', 'character::is_alphabetic', 'is_alphabetic')
def m_is_alphabetic(I, c, args, fr):
    x = args[0]
    if is_sym(x):
        return simp(z3.Or(z3.And(z3.UGE(x, 0x41), z3.ULE(x, 0x5a)), z3.And(z3.UGE(x, 0x61), z3.ULE(x, 0x7a))))
    return 0x41 <= x <= 0x5a or 0x61 <= x <= 0x7a

@model('nom::character::is_digit', 'character::is_digit', 'is_digit')
def m_is_digit(I, c, args, fr):
    return simp(is_digit(args[0])) if is_sym(args[0]) else is_digit(args[0])

@model('nom::character::is_alphanumeric', 'character::is_alphanumeric', 'is_alphanumeric')
def m_is_alphanumeric(I, c, args, fr):
    return b_or(m_is_alphabetic(I, c, args, fr), m_is_digit(I, c, args, fr))

@model('nom::combinator::map', 'combinator::map')
def m_nmap(I, c, args, fr):
    return p_map(args[0], args[1])

@model('nom::combinator::map_res', 'combinator::map_res', 'map_res')
def m_nmap_res(I, c, args, fr):
    return p_map_res(args[0], args[1])

@model('nom::combinator::opt', 'combinator::opt', 'opt')
def m_nopt(I, c, args, fr):
    return p_opt(args[0])

@model('nom::combinator::cut', 'combinator::cut', 'cut')
def m_ncut(I, c, args, fr):
    return p_cut(args[0])

@model('nom::sequence::terminated', 'sequence::terminated', 'terminated')
def m_terminated(I, c, args, fr):
    return p_seq(args, lambda o: o[0])

@model('nom::sequence::preceded', 'sequence::preceded', 'preceded')
def m_preceded(I, c, args, fr):
    return p_seq(args, lambda o: o[1])

@model('nom::sequence::delimited', 'sequence::delimited', 'delimited')
def m_delimited(I, c, args, fr):
    return p_seq(args, lambda o: o[1])

@model('nom::sequence::separated_pair', 'sequence::separated_pair', 'separated_pair')
def m_separated_pair(I, c, args, fr):
    return p_seq(args, lambda o: Tup([o[0], o[2]]))

@model('nom::sequence::pair', 'sequence::pair', 'pair')
def m_pair(I, c, args, fr):
    return p_seq(args, lambda o: Tup([o[0], o[1]]))

@model('nom::sequence::tuple', 'sequence::tuple', 'tuple')
def m_tuple(I, c, args, fr):
    return p_seq(tuple_items(args[0]), lambda o: Tup(o))

@model('nom::branch::alt', 'branch::alt', 'alt')
def m_alt(I, c, args, fr):
    return p_alt(tuple_items(args[0]))

@model('nom::multi::length_data', 'multi::length_data', 'length_data')
def m_length_data(I, c, args, fr):
    p = args[0]
    def parse(I, inp):
        r = apply(I, p, inp)
        if r.variant == 'Err':
            return r
        rest, n = r.fields[0].items
        return p_take(n).f(I, rest)
    return PyFn(parse, 'length_data')

@model('nom::combinator::recognize', 'combinator::recognize', 'recognize')
def m_recognize(I, c, args, fr):
    p = args[0]
    def parse(I, inp):
        inp = as_slice(inp)
        r = apply(I, p, inp)
        if r.variant == 'Err':
            return r
        rest = r.fields[0].items[0]
        return done(rest, inp.sub(0, len(inp) - len(as_slice(rest))))
    return PyFn(parse, 'recognize')

@model('nom::combinator::value', 'combinator::value')
def m_value(I, c, args, fr):
    v, p = args
    def parse(I, inp):
        r = apply(I, p, inp)
        if r.variant == 'Err':
            return r
        return done(r.fields[0].items[0], copy_value(v))
    return PyFn(parse, 'value')

@model('Err::is_incomplete')
def m_is_incomplete(I, c, args, fr):
    return deref(args[0]).variant == 'Incomplete'

@model('Needed::new')
def m_needed_new(I, c, args, fr):
    return needed(args[0])

@model('Parser::parse')
def m_parser_parse(I, c, args, fr):
    return I.call_value(args[0], [args[1]])

# ---------------------------------------------------------------------------- zero-sized nom closures: rebuild from the type text
GENERIC_PARSER_POS = {
    # combinator -> indices (from the end of the generic list) of the parser / function type arguments, in call order
    'map': 2, 'map_res': 2, 'opt': 1, 'cut': 1, 'terminated': 2, 'preceded': 2, 'pair': 2, 'delimited': 3, 'separated_pair': 3,
    'take_while': -1, 'take_while1': -1, 'alt': 1, 'tuple': 1, 'recognize': 1, 'length_data': 1,
}

def top_generics(s):
    """`name<a, b<c>, d>` -> (name, [a, b<c>, d])"""
    j = s.index('<')
    k = match_close(s, j)
    return s[:j], split_top(s[j+1:k])

def value_of_type(I, ty, env):
    """a value of zero-sized type `ty` (type text)"""
    ty = strip_lifetimes(ty.strip())
    if ty.startswith('{closure@nom::') or ty.startswith('{closure@'):
        inner = ty[9:-1]
        if not inner.startswith('nom::') and '<' not in inner.split('::{closure')[0]:
            f = I.prog.closure_fn(inner)
            if f is None:
                raise Unsupported('closure body not found: ' + inner)
            from interp import set_closure_env
            return set_closure_env(Closure(f, [], [], inner), dict(env or {}))
        m = re.match(r'^((?:nom::)?[\w:]*?)(\w+)<', inner)
        if not m:
            raise Unsupported('cannot rebuild zero-sized closure ' + ty[:120])
        comb = m.group(2)
        name, gens = top_generics(inner)
        gens = [g for g in gens if not g.startswith("'")]
        if comb in ('take_while', 'take_while1'):
            pred = value_of_type(I, gens[0], env)
            return p_take_while(pred, comb == 'take_while1')
        n = GENERIC_PARSER_POS.get(comb)
        if n is None:
            raise Unsupported('zero-sized nom combinator ' + comb)
        parts = [value_of_type(I, g, env) for g in gens[-n:]]
        if comb == 'map':
            return p_map(*parts)
        if comb == 'map_res':
            return p_map_res(*parts)
        if comb == 'opt':
            return p_opt(parts[0])
        if comb == 'cut':
            return p_cut(parts[0])
        if comb == 'terminated':
            return p_seq(parts, lambda o: o[0])
        if comb == 'preceded':
            return p_seq(parts, lambda o: o[1])
        if comb == 'pair':
            return p_seq(parts, lambda o: Tup([o[0], o[1]]))
        if comb == 'delimited':
            return p_seq(parts, lambda o: o[1])
        if comb == 'separated_pair':
            return p_seq(parts, lambda o: Tup([o[0], o[2]]))
        if comb in ('alt', 'tuple'):
            lst = parts[0]
            items = tuple_items(lst)
            return p_alt(items) if comb == 'alt' else p_seq(items, lambda o: Tup(o))
        if comb == 'recognize':
            return m_recognize(I, None, parts, None)
        if comb == 'length_data':
            return m_length_data(I, None, parts, None)
        raise Unsupported('zero-sized nom combinator ' + comb)
    if ty.startswith('(') and ty.endswith(')'):
        return Tup([value_of_type(I, t, env) for t in split_top(ty[1:-1])])
    m = re.match(r'^(?:unsafe )?fn\(.*\{(.*)\}$', ty, re.S)
    if m:
        return FnItem(m.group(1), dict(env or {}))
    raise Unsupported('value of zero-sized type ' + ty[:120])

_orig_call_value = Interp.call_value
def call_value(self, f, args, fr=None):
    g = f.get() if isinstance(f, Ref) else f
    if isinstance(g, Zst) and g.ty.startswith('{closure@') and ('nom::' in g.ty.split('<')[0] or re.match(r'^\{closure@(?:\w+::)*\w+<', g.ty)):
        cache = getattr(self, '_zst_cache', None)
        if cache is None:
            cache = self._zst_cache = {}
        p = cache.get(g.ty)
        if p is None:
            p = cache[g.ty] = value_of_type(self, g.ty, fr.env if fr is not None else {})
        return _orig_call_value(self, p, args, fr)
    return _orig_call_value(self, f, args, fr)
Interp.call_value = call_value


# ---------------------------------------------------------------------------- nom "complete" variants (no Incomplete: the input is all there is)
def complete_split(I, inp, stop_pred, at_least_one, kind):
    inp = as_slice(inp)
    items = inp.items()
    i = 0
    while i < len(items) and not I.ctx.decide(stop_pred(I, items[i])):
        i += 1
    if i == 0 and at_least_one:
        return nerror(inp, kind)
    return done(inp.sub(i, len(items)), inp.sub(0, i))

@model('nom::character::complete::digit1', 'complete::digit1')
def m_cdigit1(I, c, args, fr):
    return complete_split(I, args[0], lambda I, x: b_not(is_digit(x)), True, 'Digit')

@model('nom::character::complete::digit0', 'complete::digit0')
def m_cdigit0(I, c, args, fr):
    return complete_split(I, args[0], lambda I, x: b_not(is_digit(x)), False, 'Digit')

@model('nom::bytes::complete::tag', 'complete::tag')
def m_ctag(I, c, args, fr):
    t = as_items(args[0])
    def parse(I, inp):
        inp = as_slice(inp)
        items = inp.items()
        if len(items) < len(t) or not I.ctx.decide(seq_eq(items[:len(t)], t)):
            return nerror(inp, 'Tag')
        return done(inp.sub(len(t), len(items)), inp.sub(0, len(t)))
    return PyFn(parse, 'complete::tag')

@model('nom::bytes::complete::take', 'complete::take')
def m_ctake(I, c, args, fr):
    n = args[0]
    def parse(I, inp):
        inp = as_slice(inp)
        k = I.ctx.concretize(n) if is_sym(n) else n
        if k > len(inp):
            return nerror(inp, 'Eof')
        return done(inp.sub(k, len(inp)), inp.sub(0, k))
    return PyFn(parse, 'complete::take')

@model('nom::bytes::complete::take_while', 'complete::take_while')
def m_ctake_while(I, c, args, fr):
    pred = args[0]
    return PyFn(lambda I, inp: complete_split(I, inp, lambda I, x: b_not(I.call_value(pred, [x])), False, 'TakeWhile'), 'complete::take_while')

@model('nom::bytes::complete::take_while1', 'complete::take_while1')
def m_ctake_while1(I, c, args, fr):
    pred = args[0]
    return PyFn(lambda I, inp: complete_split(I, inp, lambda I, x: b_not(I.call_value(pred, [x])), True, 'TakeWhile1'), 'complete::take_while1')

@model('nom::bytes::complete::take_until', 'complete::take_until')
def m_ctake_until(I, c, args, fr):
    t = as_items(args[0])
    def parse(I, inp):
        inp = as_slice(inp)
        items = inp.items()
        for i in range(len(items) - len(t) + 1):
            if I.ctx.decide(seq_eq(items[i:i+len(t)], t)):
                return done(inp.sub(i, len(items)), inp.sub(0, i))
        return nerror(inp, 'TakeUntil')
    return PyFn(parse, 'complete::take_until')

@model('nom::character::complete::char', 'complete::char')
def m_cchar(I, c, args, fr):
    ch = args[0]
    def parse(I, inp):
        inp = as_slice(inp)
        if len(inp) and I.ctx.decide(int_eq(bv(inp.at(0), 32) if is_sym(inp.at(0)) else inp.at(0), ch)):
            return done(inp.sub(1, len(inp)), ch)
        return nerror(inp, 'Char')
    return PyFn(parse, 'complete::char')

@model('nom::character::complete::newline', 'complete::newline')
def m_cnewline(I, c, args, fr):
    return m_cchar(I, c, [10], fr).f(I, args[0])


# ---------------------------------------------------------------------------- further nom 7 surface (character classes, line endings, small combinators)
def _cls(lo_hi_pairs, singles=()):
    def pred(x):
        cs = []
        for lo, hi in lo_hi_pairs:
            cs.append(z3.And(z3.UGE(x, lo), z3.ULE(x, hi)) if is_sym(x) else lo <= x <= hi)
        for s in singles:
            cs.append(x == s if is_sym(x) else x == s)
        return b_or(*cs)
    return pred
CLASSES = {
    'alpha': (_cls([(65, 90), (97, 122)]), 'Alpha'), 'alphanumeric': (_cls([(48, 57), (65, 90), (97, 122)]), 'AlphaNumeric'),
    'digit': (_cls([(48, 57)]), 'Digit'), 'hex_digit': (_cls([(48, 57), (65, 70), (97, 102)]), 'HexDigit'), 'oct_digit': (_cls([(48, 55)]), 'OctDigit'),
    'space': (_cls([], (32, 9)), 'Space'), 'multispace': (_cls([], (32, 9, 13, 10)), 'MultiSpace'),
}
def _register_class(name, pred, kind):
    for one in (False, True):
        nm = name + ('1' if one else '0')
        def ms(I, c, args, fr, pred=pred, one=one, kind=kind):
            return split_at_position(I, args[0], lambda I, x: b_not(pred(x)), one, kind)
        def mc(I, c, args, fr, pred=pred, one=one, kind=kind):
            return complete_split(I, args[0], lambda I, x: b_not(pred(x)), one, kind)
        if 'nom::character::streaming::' + nm not in MODELS:
            model('nom::character::streaming::' + nm, 'streaming::' + nm)(ms)
        if 'nom::character::complete::' + nm not in MODELS:
            model('nom::character::complete::' + nm, 'complete::' + nm)(mc)
for _n, (_p, _k) in CLASSES.items():
    _register_class(_n, _p, _k)

def _compare(I, items, t):
    """nom Compare for &[u8] against a byte string: 'Ok' | 'Incomplete' | 'Error'"""
    n = min(len(items), len(t))
    if not I.ctx.decide(seq_eq(items[:n], list(t[:n]))):
        return 'Error'
    return 'Ok' if len(items) >= len(t) else 'Incomplete'

def _is_eol(x):
    return b_or(x == 13, x == 10) if is_sym(x) else x in (13, 10)

def _not_line_ending(I, inp, streaming):
    inp = as_slice(inp)
    items = inp.items()
    for i, x in enumerate(items):
        if I.ctx.decide(_is_eol(x)):
            if I.ctx.decide(int_eq(x, 13)):
                r = _compare(I, items[i:], b'\r\n')
                if r == 'Ok':
                    return done(inp.sub(i, len(items)), inp.sub(0, i))
                if r == 'Incomplete' and streaming:
                    return incomplete(None)
                return nerror(inp, 'Tag')
            return done(inp.sub(i, len(items)), inp.sub(0, i))
    if streaming:
        return incomplete(None)
    return done(inp.sub(len(items), len(items)), inp)

@model('nom::character::streaming::not_line_ending', 'streaming::not_line_ending')
def m_not_line_ending(I, c, args, fr):
    return _not_line_ending(I, args[0], True)

@model('nom::character::complete::not_line_ending', 'complete::not_line_ending')
def m_cnot_line_ending(I, c, args, fr):
    return _not_line_ending(I, args[0], False)

def _line_ending(I, inp, streaming):
    inp = as_slice(inp)
    items = inp.items()
    r = _compare(I, items, b'\n')
    if r == 'Ok':
        return done(inp.sub(1, len(items)), inp.sub(0, 1))
    if r == 'Incomplete':
        return incomplete(1) if streaming else nerror(inp, 'CrLf')
    r = _compare(I, items, b'\r\n')
    if r == 'Ok':
        return done(inp.sub(2, len(items)), inp.sub(0, 2))
    if r == 'Incomplete' and streaming:
        return incomplete(2)
    return nerror(inp, 'CrLf')

@model('nom::character::streaming::line_ending', 'streaming::line_ending')
def m_line_ending(I, c, args, fr):
    return _line_ending(I, args[0], True)

@model('nom::character::complete::line_ending', 'complete::line_ending')
def m_cline_ending(I, c, args, fr):
    return _line_ending(I, args[0], False)

def _crlf(I, inp, streaming):
    inp = as_slice(inp)
    items = inp.items()
    r = _compare(I, items, b'\r\n')
    if r == 'Ok':
        return done(inp.sub(2, len(items)), inp.sub(0, 2))
    if r == 'Incomplete' and streaming:
        return incomplete(2)
    return nerror(inp, 'CrLf')

@model('nom::character::streaming::crlf', 'streaming::crlf')
def m_crlf(I, c, args, fr):
    return _crlf(I, args[0], True)

@model('nom::character::complete::crlf', 'complete::crlf')
def m_ccrlf(I, c, args, fr):
    return _crlf(I, args[0], False)

def _one_char(I, inp, streaming, pred, kind):
    inp = as_slice(inp)
    if len(inp) == 0:
        return incomplete(1) if streaming else nerror(inp, 'Eof' if kind is None else kind)
    x = inp.at(0)
    if pred is not None and not I.ctx.decide(pred(x)):
        return nerror(inp, kind)
    return done(inp.sub(1, len(inp)), z3.ZeroExt(24, x) if is_sym(x) else x)

@model('nom::character::streaming::anychar', 'streaming::anychar')
def m_anychar(I, c, args, fr):
    return _one_char(I, args[0], True, None, None)

@model('nom::character::complete::anychar', 'complete::anychar')
def m_canychar(I, c, args, fr):
    return _one_char(I, args[0], False, None, None)

@model('nom::character::streaming::tab', 'streaming::tab')
def m_tab(I, c, args, fr):
    return _one_char(I, args[0], True, lambda x: int_eq(x, 9), 'Char')

def _token_pred(lst):
    t = as_items(lst)
    return lambda x: b_or(*[int_eq(x, y) for y in t])

def _set_parser(name, streaming, positive, one_char):
    kind = {'one_of': 'OneOf', 'none_of': 'NoneOf', 'is_a': 'IsA', 'is_not': 'IsNot'}[name]
    def m(I, c, args, fr):
        inset = _token_pred(args[0])
        def parse(I, inp):
            if one_char:
                return _one_char(I, inp, streaming, (inset if positive else (lambda x: b_not(inset(x)))), kind)
            stop = (lambda I, x: b_not(inset(x))) if positive else (lambda I, x: inset(x))
            return (split_at_position if streaming else complete_split)(I, inp, stop, True, kind)
        return PyFn(parse, name)
    return m
for _nm, _pos, _one, _mod in (('one_of', True, True, 'character'), ('none_of', False, True, 'character'), ('is_a', True, False, 'bytes'), ('is_not', False, False, 'bytes')):
    model('nom::%s::streaming::%s' % (_mod, _nm), 'streaming::' + _nm)(_set_parser(_nm, True, _pos, _one))
    model('nom::%s::complete::%s' % (_mod, _nm), 'complete::' + _nm)(_set_parser(_nm, False, _pos, _one))

def p_take_till(pred, at_least_one, streaming=True):
    def parse(I, inp):
        return (split_at_position if streaming else complete_split)(I, inp, lambda I, x: I.call_value(pred, [x]), at_least_one, 'TakeTill1')
    return PyFn(parse, 'take_till')

@model('nom::bytes::streaming::take_till', 'streaming::take_till')
def m_take_till(I, c, args, fr):
    return p_take_till(args[0], False)
@model('nom::bytes::streaming::take_till1', 'streaming::take_till1')
def m_take_till1(I, c, args, fr):
    return p_take_till(args[0], True)
@model('nom::bytes::complete::take_till', 'complete::take_till')
def m_ctake_till(I, c, args, fr):
    return p_take_till(args[0], False, False)
@model('nom::bytes::complete::take_till1', 'complete::take_till1')
def m_ctake_till1(I, c, args, fr):
    return p_take_till(args[0], True, False)

def p_verify(p, f):
    def parse(I, inp):
        r = apply(I, p, inp)
        if r.variant == 'Err':
            return r
        rest, o = r.fields[0].items
        if I.ctx.decide(I.call_value(f, [ref_to(o)])):
            return r
        return nerror(inp, 'Verify')
    return PyFn(parse, 'verify')

def p_peek(p):
    def parse(I, inp):
        r = apply(I, p, inp)
        if r.variant == 'Err':
            return r
        return done(inp, r.fields[0].items[1])
    return PyFn(parse, 'peek')

def p_not(p):
    def parse(I, inp):
        r = apply(I, p, inp)
        if r.variant == 'Ok':
            return nerror(inp, 'Not')
        if is_err_kind(r, 'Error'):
            return done(inp, UNIT)
        return r
    return PyFn(parse, 'not')

def p_map_opt(p, f):
    def parse(I, inp):
        r = apply(I, p, inp)
        if r.variant == 'Err':
            return r
        rest, o = r.fields[0].items
        o2 = I.call_value(f, [o])
        if o2.variant == 'Some':
            return done(rest, o2.fields[0])
        return nerror(inp, 'MapOpt')
    return PyFn(parse, 'map_opt')

def p_all_consuming(p):
    def parse(I, inp):
        r = apply(I, p, inp)
        if r.variant == 'Err':
            return r
        rest = as_slice(r.fields[0].items[0])
        if len(rest) == 0:
            return r
        return nerror(rest, 'Eof')
    return PyFn(parse, 'all_consuming')

def p_complete(p):
    def parse(I, inp):
        r = apply(I, p, inp)
        if is_err_kind(r, 'Incomplete'):
            return nerror(inp, 'Complete')
        return r
    return PyFn(parse, 'complete')

@model('nom::combinator::verify', 'combinator::verify')
def m_verify(I, c, args, fr):
    return p_verify(args[0], args[1])
@model('nom::combinator::peek', 'combinator::peek')
def m_peek(I, c, args, fr):
    return p_peek(args[0])
@model('nom::combinator::not', 'combinator::not')
def m_not(I, c, args, fr):
    return p_not(args[0])
@model('nom::combinator::map_opt', 'combinator::map_opt')
def m_map_opt(I, c, args, fr):
    return p_map_opt(args[0], args[1])
@model('nom::combinator::all_consuming', 'combinator::all_consuming')
def m_all_consuming(I, c, args, fr):
    return p_all_consuming(args[0])
@model('nom::combinator::complete', 'combinator::complete')
def m_complete(I, c, args, fr):
    return p_complete(args[0])

@model('nom::combinator::eof', 'combinator::eof')
def m_eof(I, c, args, fr):
    inp = as_slice(args[0])
    return done(inp, inp) if len(inp) == 0 else nerror(inp, 'Eof')

@model('nom::combinator::rest', 'combinator::rest')
def m_rest(I, c, args, fr):
    inp = as_slice(args[0])
    return done(inp.sub(len(inp), len(inp)), inp)

GENERIC_PARSER_POS.update({'verify': 2, 'peek': 1, 'not': 1, 'map_opt': 2, 'all_consuming': 1, 'complete': 1, 'take_till': -1, 'take_till1': -1})
_old_value_of_type = value_of_type
def value_of_type(I, ty, env):
    t = strip_lifetimes(ty.strip())
    if t.startswith('{closure@'):
        inner = t[9:-1]
        m = re.match(r'^((?:nom::)?[\w:]*?)(\w+)<', inner)
        if m and (inner.startswith('nom::') or '<' in inner.split('::{closure')[0]):
            comb = m.group(2)
            if comb in ('verify', 'peek', 'not', 'map_opt', 'all_consuming', 'complete', 'take_till', 'take_till1'):
                name, gens = top_generics(inner)
                gens = [g for g in gens if not g.startswith("'")]
                if comb in ('take_till', 'take_till1'):
                    streaming = 'complete' not in inner.split('<')[0]
                    return p_take_till(value_of_type(I, gens[0], env), comb == 'take_till1', streaming)
                n = GENERIC_PARSER_POS[comb]
                parts = [value_of_type(I, g, env) for g in gens[-n:]]
                return {'verify': p_verify, 'peek': p_peek, 'not': p_not, 'map_opt': p_map_opt, 'all_consuming': p_all_consuming, 'complete': p_complete}[comb](*parts)
    return _old_value_of_type(I, ty, env)


# ---------------------------------------------------------------------------- more of the nom 7 surface (a refactoring may reach for any of it)
_VecObj = VecObj

def _len(x):
    return len(as_slice(x))

def p_flat_map(p, f):
    def parse(I, inp):
        r = apply(I, p, inp)
        if r.variant == 'Err':
            return r
        rest, o = r.fields[0].items
        return apply(I, I.call_value(f, [o]), rest)
    return PyFn(parse, 'flat_map')

def p_map_parser(p, g):
    def parse(I, inp):
        r = apply(I, p, inp)
        if r.variant == 'Err':
            return r
        rest, o = r.fields[0].items
        r2 = apply(I, g, o)
        if r2.variant == 'Err':
            return r2
        return done(rest, r2.fields[0].items[1])
    return PyFn(parse, 'map_parser')

def p_consumed(p):
    def parse(I, inp):
        inp = as_slice(inp)
        r = apply(I, p, inp)
        if r.variant == 'Err':
            return r
        rest, o = r.fields[0].items
        return done(rest, Tup([inp.sub(0, len(inp) - _len(rest)), o]))
    return PyFn(parse, 'consumed')

def p_into(p):
    return p          # (the conversions in reach are identities on &[u8] / errors of the same type)

def p_many(p, lo, hi, kind, count_only=False, streaming_err=True):
    """many0 / many1 / many_m_n / many0_count / many1_count (nom 7: stops at the first recoverable error, a parser
    that succeeds without consuming is an error, Incomplete and Failure propagate)"""
    def parse(I, inp):
        acc = []
        cur = inp
        while hi is None or len(acc) < hi:
            r = apply(I, p, cur)
            if r.variant == 'Err':
                if is_err_kind(r, 'Error'):
                    if len(acc) < lo:
                        return nerror(inp, kind)
                    break
                return r
            rest, o = r.fields[0].items
            if _len(rest) == _len(cur):
                return nerror(cur, kind)
            acc.append(o); cur = rest
        return done(cur, len(acc) if count_only else _VecObj(acc))
    return PyFn(parse, kind)

def p_count(p, n):
    def parse(I, inp):
        acc = []; cur = inp
        for _ in range(n):
            r = apply(I, p, cur)
            if r.variant == 'Err':
                return r
            cur, o = r.fields[0].items
            acc.append(o)
        return done(cur, _VecObj(acc))
    return PyFn(parse, 'count')

def p_many_till(f, g):
    def parse(I, inp):
        acc = []; cur = inp
        while True:
            r = apply(I, g, cur)
            if r.variant == 'Ok':
                rest, o = r.fields[0].items
                return done(rest, Tup([_VecObj(acc), o]))
            if not is_err_kind(r, 'Error'):
                return r
            r = apply(I, f, cur)
            if r.variant == 'Err':
                return r
            rest, o = r.fields[0].items
            if _len(rest) == _len(cur):
                return nerror(cur, 'ManyTill')
            acc.append(o); cur = rest
    return PyFn(parse, 'many_till')

def p_separated_list(sep, f, at_least_one):
    def parse(I, inp):
        acc = []; cur = inp
        r = apply(I, f, cur)
        if r.variant == 'Err':
            if is_err_kind(r, 'Error') and not at_least_one:
                return done(cur, _VecObj(acc))
            return r
        cur, o = r.fields[0].items
        acc.append(o)
        while True:
            r = apply(I, sep, cur)
            if r.variant == 'Err':
                if is_err_kind(r, 'Error'):
                    return done(cur, _VecObj(acc))
                return r
            rest, _ = r.fields[0].items
            if _len(rest) == _len(cur):
                return nerror(cur, 'SeparatedList')
            r = apply(I, f, rest)
            if r.variant == 'Err':
                if is_err_kind(r, 'Error'):
                    return done(cur, _VecObj(acc))
                return r
            cur, o = r.fields[0].items
            acc.append(o)
    return PyFn(parse, 'separated_list')

def p_fold_many(p, init, g, lo, kind):
    def parse(I, inp):
        acc = I.call_value(init, []) if not isinstance(init, (int, bool)) and not is_sym(init) else init
        cur = inp; n = 0
        while True:
            r = apply(I, p, cur)
            if r.variant == 'Err':
                if is_err_kind(r, 'Error'):
                    if n < lo:
                        return nerror(inp, kind)
                    return done(cur, acc)
                return r
            rest, o = r.fields[0].items
            if _len(rest) == _len(cur):
                return nerror(cur, kind)
            acc = I.call_value(g, [acc, o]); cur = rest; n += 1
    return PyFn(parse, kind)

def p_length_value(f, g):
    def parse(I, inp):
        r = apply(I, f, inp)
        if r.variant == 'Err':
            return r
        rest, n = r.fields[0].items
        r2 = p_take(n).f(I, rest)
        if r2.variant == 'Err':
            return r2
        rest2, chunk = r2.fields[0].items
        r3 = apply(I, g, chunk)
        if r3.variant == 'Err':
            if is_err_kind(r3, 'Incomplete'):
                return nerror(chunk, 'Complete')
            return r3
        return done(rest2, r3.fields[0].items[1])
    return PyFn(parse, 'length_value')

def p_tag_no_case(tagv, streaming):
    t = as_items(tagv)
    def low(x):
        if is_sym(x):
            return z3.If(z3.And(z3.UGE(x, 65), z3.ULE(x, 90)), x + 32, x)
        return x + 32 if 65 <= x <= 90 else x
    def parse(I, inp):
        inp = as_slice(inp)
        items = inp.items()
        n = min(len(items), len(t))
        if not I.ctx.decide(seq_eq([low(x) for x in items[:n]], [low(x) for x in t[:n]])):
            return nerror(inp, 'Tag')
        if len(items) < len(t):
            return incomplete(len(t) - len(items)) if streaming else nerror(inp, 'Tag')
        return done(inp.sub(len(t), len(items)), inp.sub(0, len(t)))
    return PyFn(parse, 'tag_no_case')

def p_take_while_m_n(m, n, pred, streaming):
    def parse(I, inp):
        inp = as_slice(inp)
        items = inp.items()
        k = 0
        while k < len(items) and k < n and I.ctx.decide(I.call_value(pred, [items[k]])):
            k += 1
        if k == len(items) and k < n:
            if streaming:
                return incomplete(max(1, m - k) if k < m else 1)
            if k < m:
                return nerror(inp, 'TakeWhileMN')
        elif k < m:
            return nerror(inp, 'TakeWhileMN')
        return done(inp.sub(k, len(items)), inp.sub(0, k))
    return PyFn(parse, 'take_while_m_n')

def p_take_until1(tagv, streaming):
    t = as_items(tagv)
    def parse(I, inp):
        inp = as_slice(inp)
        items = inp.items()
        for i in range(len(items) - len(t) + 1):
            if I.ctx.decide(seq_eq(items[i:i+len(t)], t)):
                if i == 0:
                    return nerror(inp, 'TakeUntil')
                return done(inp.sub(i, len(items)), inp.sub(0, i))
        return incomplete(None) if streaming else nerror(inp, 'TakeUntil')
    return PyFn(parse, 'take_until1')

def p_satisfy(pred, streaming):
    def parse(I, inp):
        return _one_char(I, inp, streaming, lambda x: I.call_value(pred, [z3.ZeroExt(24, x) if is_sym(x) else x]), 'Satisfy')
    return PyFn(parse, 'satisfy')

def _uint_parser(bits, streaming):
    """nom::character::{streaming,complete}::u8..u64: decimal digits, overflow is an error (ErrorKind::Digit)"""
    def m(I, c, args, fr):
        inp = as_slice(args[0])
        items = inp.items()
        if not items:
            return incomplete(1) if streaming else nerror(inp, 'Digit')
        k = 0
        while k < len(items) and I.ctx.decide(is_digit(items[k])):
            k += 1
        if k == 0:
            return nerror(inp, 'Digit')
        if k == len(items) and streaming:
            return incomplete(1)
        val = 0
        W = 72
        for x in items[:k]:
            d = (z3.ZeroExt(W - 8, x) - 48) if is_sym(x) else (x - 48)
            val = val * 10 + d
            val = simp(val) if is_sym(val) else val
            over = z3.UGE(val, 1 << bits) if is_sym(val) else val >= (1 << bits)
            if I.ctx.decide(over):
                return nerror(inp, 'Digit')
        out = z3.Extract(bits - 1, 0, val) if is_sym(val) else val
        return done(inp.sub(k, len(items)), out)
    return m
for _b in (8, 16, 32, 64):
    model('nom::character::streaming::u%d' % _b, 'character::streaming::u%d' % _b)(_uint_parser(_b, True))
    model('nom::character::complete::u%d' % _b, 'character::complete::u%d' % _b)(_uint_parser(_b, False))

@model('nom::combinator::flat_map', 'combinator::flat_map')
def m_flat_map(I, c, args, fr): return p_flat_map(args[0], args[1])
@model('nom::combinator::map_parser', 'combinator::map_parser')
def m_map_parser(I, c, args, fr): return p_map_parser(args[0], args[1])
@model('nom::combinator::consumed', 'combinator::consumed')
def m_consumed(I, c, args, fr): return p_consumed(args[0])
@model('nom::combinator::into', 'combinator::into')
def m_into(I, c, args, fr): return p_into(args[0])
@model('nom::combinator::success', 'combinator::success')
def m_success(I, c, args, fr):
    v = args[0]
    return PyFn(lambda I, inp: done(inp, copy_value(v)), 'success')
@model('nom::combinator::fail', 'combinator::fail')
def m_fail(I, c, args, fr): return nerror(args[0], 'Fail')
@model('nom::combinator::cond', 'combinator::cond')
def m_cond(I, c, args, fr):
    b, p = args
    def parse(I, inp):
        if not I.ctx.decide(b):
            return done(inp, none())
        r = apply(I, p, inp)
        if r.variant == 'Err':
            return r
        rest, o = r.fields[0].items
        return done(rest, some(o))
    return PyFn(parse, 'cond')
@model('nom::multi::many0', 'multi::many0')
def m_many0(I, c, args, fr): return p_many(args[0], 0, None, 'Many0')
@model('nom::multi::many1', 'multi::many1')
def m_many1(I, c, args, fr): return p_many(args[0], 1, None, 'Many1')
@model('nom::multi::many0_count', 'multi::many0_count')
def m_many0_count(I, c, args, fr): return p_many(args[0], 0, None, 'Many0Count', count_only=True)
@model('nom::multi::many1_count', 'multi::many1_count')
def m_many1_count(I, c, args, fr): return p_many(args[0], 1, None, 'Many1Count', count_only=True)
@model('nom::multi::many_m_n', 'multi::many_m_n')
def m_many_m_n(I, c, args, fr): return p_many(args[2], args[0], args[1], 'ManyMN')
@model('nom::multi::count', 'multi::count')
def m_ncount(I, c, args, fr): return p_count(args[0], args[1])
@model('nom::multi::many_till', 'multi::many_till')
def m_many_till(I, c, args, fr): return p_many_till(args[0], args[1])
@model('nom::multi::separated_list0', 'multi::separated_list0')
def m_sep0(I, c, args, fr): return p_separated_list(args[0], args[1], False)
@model('nom::multi::separated_list1', 'multi::separated_list1')
def m_sep1(I, c, args, fr): return p_separated_list(args[0], args[1], True)
@model('nom::multi::fold_many0', 'multi::fold_many0')
def m_fold0(I, c, args, fr): return p_fold_many(args[0], args[1], args[2], 0, 'Many0')
@model('nom::multi::fold_many1', 'multi::fold_many1')
def m_fold1(I, c, args, fr): return p_fold_many(args[0], args[1], args[2], 1, 'Many1')
@model('nom::multi::length_value', 'multi::length_value')
def m_length_value(I, c, args, fr): return p_length_value(args[0], args[1])
@model('nom::multi::length_count', 'multi::length_count')
def m_length_count(I, c, args, fr):
    f, g = args
    def parse(I, inp):
        r = apply(I, f, inp)
        if r.variant == 'Err':
            return r
        rest, n = r.fields[0].items
        if is_sym(n):
            n = I.ctx.concretize(n, 'count')
        return p_count(g, n).f(I, rest)
    return PyFn(parse, 'length_count')
@model('nom::bytes::streaming::tag_no_case', 'streaming::tag_no_case')
def m_tag_no_case(I, c, args, fr): return p_tag_no_case(args[0], True)
@model('nom::bytes::complete::tag_no_case', 'complete::tag_no_case')
def m_ctag_no_case(I, c, args, fr): return p_tag_no_case(args[0], False)
@model('nom::bytes::streaming::take_while_m_n', 'streaming::take_while_m_n')
def m_twmn(I, c, args, fr): return p_take_while_m_n(args[0], args[1], args[2], True)
@model('nom::bytes::complete::take_while_m_n', 'complete::take_while_m_n')
def m_ctwmn(I, c, args, fr): return p_take_while_m_n(args[0], args[1], args[2], False)
@model('nom::bytes::streaming::take_until1', 'streaming::take_until1')
def m_take_until1(I, c, args, fr): return p_take_until1(args[0], True)
@model('nom::bytes::complete::take_until1', 'complete::take_until1')
def m_ctake_until1(I, c, args, fr): return p_take_until1(args[0], False)
@model('nom::character::streaming::satisfy', 'streaming::satisfy')
def m_satisfy(I, c, args, fr): return p_satisfy(args[0], True)
@model('nom::character::complete::satisfy', 'complete::satisfy')
def m_csatisfy(I, c, args, fr): return p_satisfy(args[0], False)

# zero-sized closures of these combinators: (number of trailing generic arguments that are parsers/functions, builder)
_ZST2 = {
    'flat_map': (lambda g: g[-3:-1], lambda ps: p_flat_map(*ps)),
    'map_parser': (lambda g: g[-2:], lambda ps: p_map_parser(*ps)),
    'consumed': (lambda g: g[-2:-1], lambda ps: p_consumed(*ps)),
    'into': (lambda g: g[-1:], lambda ps: p_into(*ps)),
    'many0': (lambda g: g[-1:], lambda ps: p_many(ps[0], 0, None, 'Many0')),
    'many1': (lambda g: g[-1:], lambda ps: p_many(ps[0], 1, None, 'Many1')),
    'many0_count': (lambda g: g[-1:], lambda ps: p_many(ps[0], 0, None, 'Many0Count', count_only=True)),
    'many1_count': (lambda g: g[-1:], lambda ps: p_many(ps[0], 1, None, 'Many1Count', count_only=True)),
    'many_till': (lambda g: g[-2:], lambda ps: p_many_till(*ps)),
    'separated_list0': (lambda g: g[-2:], lambda ps: p_separated_list(ps[1], ps[0], False)),
    'separated_list1': (lambda g: g[-2:], lambda ps: p_separated_list(ps[1], ps[0], True)),
    'length_value': (lambda g: g[-2:], lambda ps: p_length_value(*ps)),
    'satisfy': (lambda g: g[:1], None),
}
_old_value_of_type2 = value_of_type
def value_of_type(I, ty, env):
    t = strip_lifetimes(ty.strip())
    if t.startswith('{closure@'):
        inner = t[9:-1]
        m = re.match(r'^((?:nom::)?[\w:]*?)(\w+)<', inner)
        if m and (inner.startswith('nom::') or '<' in inner.split('::{closure')[0]) and m.group(2) in _ZST2:
            comb = m.group(2)
            name, gens = top_generics(inner)
            gens = [g for g in gens if not g.startswith("'")]
            pick, build = _ZST2[comb]
            if comb == 'satisfy':
                return p_satisfy(value_of_type(I, gens[0], env), 'complete' not in inner.split('<')[0])
            return build([value_of_type(I, g, env) for g in pick(gens)])
    return _old_value_of_type2(I, ty, env)
