"""Library models: the nom 7 combinators the repository's parser uses, with nom's *streaming* semantics for &[u8]
(Incomplete vs Error vs Failure, cut, opt, alt order).  Parsers are python callables wrapped in PyFn; zero-sized nom
closures that MIR passes as `const ZeroSized: {closure@nom::...}` are rebuilt from their type string; predicates and
mappers are the repository's own closures / functions and are interpreted."""
import re
import z3
from values import *
from interp import model, MODELS, Interp, simp, Frame
from models_core import deref, as_slice, as_items
from mirparse import split_top, match_close
from rtypes import strip_lifetimes

# ---------------------------------------------------------------------------- result helpers
def needed(n):
    if is_sym(n):
        return Adt('Needed', 'Size', 1, [n])
    return Adt('Needed', 'Size', 1, [n]) if n > 0 else Adt('Needed', 'Unknown', 0, [])

def incomplete(n=None):
    return err(Adt('Err', 'Incomplete', 0, [needed(n) if n is not None else Adt('Needed', 'Unknown', 0, [])]))

def nerror(inp, kind):
    return err(Adt('Err', 'Error', 1, [Adt('Error', None, 0, [inp, Opaque('ErrorKind', kind)], ['input', 'code'])]))

def done(rest, out):
    return ok(Tup([rest, out]))

def apply(I, p, inp):
    """apply parser value p to input slice"""
    return I.call_value(p, [inp])

def is_err_kind(r, kind):
    return r.variant == 'Err' and r.fields[0].variant == kind

# ---------------------------------------------------------------------------- leaf parsers
def p_tag(tagv):
    t = as_items(tagv)
    def parse(I, inp):
        inp = as_slice(inp)
        items = inp.items()
        n = min(len(items), len(t))
        if not I.ctx.decide(seq_eq(items[:n], t[:n])):
            return nerror(inp, 'Tag')
        if len(items) < len(t):
            return incomplete(len(t) - len(items))
        return done(inp.sub(len(t), len(items)), inp.sub(0, len(t)))
    return PyFn(parse, 'tag(%s)' % show_bytes(t))

def p_take(count):
    def parse(I, inp):
        inp = as_slice(inp)
        n = len(inp)
        c = count
        if is_sym(c):
            C = bv(c, 64)
            if I.ctx.decide(z3.UGT(C, n)):
                return incomplete(simp(C - n))
            k = 0
            while k < n and not I.ctx.decide(C == k):
                k += 1
            c = k
        if c > n:
            return incomplete(c - n)
        return done(inp.sub(c, n), inp.sub(0, c))
    return PyFn(parse, 'take')

def p_take_until(tagv):
    t = as_items(tagv)
    def parse(I, inp):
        inp = as_slice(inp)
        items = inp.items()
        for i in range(len(items) - len(t) + 1):
            if I.ctx.decide(seq_eq(items[i:i+len(t)], t)):
                return done(inp.sub(i, len(items)), inp.sub(0, i))
        return incomplete(None)
    return PyFn(parse, 'take_until')

def split_at_position(I, inp, stop_pred, at_least_one, kind):
    """nom streaming split_at_position / split_at_position1: first element for which stop_pred holds"""
    inp = as_slice(inp)
    items = inp.items()
    for i, x in enumerate(items):
        if I.ctx.decide(stop_pred(I, x)):
            if i == 0 and at_least_one:
                return nerror(inp, kind)
            return done(inp.sub(i, len(items)), inp.sub(0, i))
    return incomplete(1)

def p_take_while(pred, at_least_one):
    def parse(I, inp):
        return split_at_position(I, inp, lambda I, x: b_not(I.call_value(pred, [x])), at_least_one, 'TakeWhile1')
    return PyFn(parse, 'take_while1' if at_least_one else 'take_while')

def is_digit(x):
    if is_sym(x):
        return z3.And(z3.UGE(x, 48), z3.ULE(x, 57))
    return 48 <= x <= 57

def parse_digit1(I, inp):
    return split_at_position(I, inp, lambda I, x: b_not(is_digit(x)), True, 'Digit')

def p_char(c):
    def parse(I, inp):
        inp = as_slice(inp)
        if len(inp) == 0:
            return incomplete(1)
        if I.ctx.decide(int_eq(bv(inp.at(0), 32) if is_sym(inp.at(0)) else inp.at(0), c)):
            return done(inp.sub(1, len(inp)), c)
        return nerror(inp, 'Char')
    return PyFn(parse, 'char(%r)' % (chr(c) if isinstance(c, int) else c,))

# ---------------------------------------------------------------------------- combinators
def p_map(p, f):
    def parse(I, inp):
        r = apply(I, p, inp)
        if r.variant == 'Err':
            return r
        rest, o = r.fields[0].items
        return done(rest, I.call_value(f, [o]))
    return PyFn(parse, 'map')

def p_map_res(p, f):
    def parse(I, inp):
        r = apply(I, p, inp)
        if r.variant == 'Err':
            return r
        rest, o = r.fields[0].items
        o2 = I.call_value(f, [o])
        if o2.variant == 'Ok':
            return done(rest, o2.fields[0])
        return nerror(inp, 'MapRes')
    return PyFn(parse, 'map_res')

def p_opt(p):
    def parse(I, inp):
        r = apply(I, p, inp)
        if r.variant == 'Ok':
            rest, o = r.fields[0].items
            return done(rest, some(o))
        if is_err_kind(r, 'Error'):
            return done(inp, none())
        return r
    return PyFn(parse, 'opt')

def p_cut(p):
    def parse(I, inp):
        r = apply(I, p, inp)
        if is_err_kind(r, 'Error'):
            e = r.fields[0]
            return err(Adt('Err', 'Failure', 2, list(e.fields)))
        return r
    return PyFn(parse, 'cut')

def p_seq(parsers, select):
    """run parsers in sequence; `select(outputs)` builds the result"""
    def parse(I, inp):
        outs = []
        cur = inp
        for p in parsers:
            r = apply(I, p, cur)
            if r.variant == 'Err':
                return r
            cur, o = r.fields[0].items
            outs.append(o)
        return done(cur, select(outs))
    return PyFn(parse, 'seq')

def p_alt(parsers):
    def parse(I, inp):
        last = None
        for p in parsers:
            r = apply(I, p, inp)
            if is_err_kind(r, 'Error'):
                last = r
                continue
            return r
        return last
    return PyFn(parse, 'alt')

def tuple_items(v):
    return list(v.items) if isinstance(v, Tup) else [v]

# ---------------------------------------------------------------------------- constructor models
@model('nom::bytes::streaming::tag', 'bytes::streaming::tag', 'streaming::tag')
def m_tag(I, c, args, fr):
    return p_tag(args[0])

@model('nom::bytes::streaming::take', 'bytes::streaming::take', 'streaming::take')
def m_take(I, c, args, fr):
    return p_take(args[0])

@model('nom::bytes::streaming::take_until', 'streaming::take_until')
def m_take_until(I, c, args, fr):
    return p_take_until(args[0])

@model('nom::bytes::streaming::take_while', 'streaming::take_while')
def m_take_while(I, c, args, fr):
    return p_take_while(args[0], False)

@model('nom::bytes::streaming::take_while1', 'streaming::take_while1')
def m_take_while1(I, c, args, fr):
    return p_take_while(args[0], True)

@model('nom::character::streaming::char', 'character::streaming::char', 'streaming::char')
def m_char(I, c, args, fr):
    return p_char(args[0])

@model('nom::character::streaming::newline', 'streaming::newline')
def m_newline(I, c, args, fr):
    return p_char(10).f(I, args[0])

@model('nom::character::streaming::digit1', 'streaming::digit1')
def m_digit1(I, c, args, fr):
    return parse_digit1(I, args[0])

@model('nom::character::is_alphabetic', 'character::is_alphabetic', 'is_alphabetic')
def m_is_alphabetic(I, c, args, fr):
    x = args[0]
    if is_sym(x):
        return simp(z3.Or(z3.And(z3.UGE(x, 0x41), z3.ULE(x, 0x5a)), z3.And(z3.UGE(x, 0x61), z3.ULE(x, 0x7a))))
    return 0x41 <= x <= 0x5a or 0x61 <= x <= 0x7a

@model('nom::character::is_digit', 'character::is_digit', 'is_digit')
def m_is_digit(I, c, args, fr):
    return simp(is_digit(args[0])) if is_sym(args[0]) else is_digit(args[0])

@model('nom::character::is_alphanumeric', 'character::is_alphanumeric', 'is_alphanumeric')
def m_is_alphanumeric(I, c, args, fr):
    return b_or(m_is_alphabetic(I, c, args, fr), m_is_digit(I, c, args, fr))

@model('nom::combinator::map', 'combinator::map')
def m_nmap(I, c, args, fr):
    return p_map(args[0], args[1])

@model('nom::combinator::map_res', 'combinator::map_res', 'map_res')
def m_nmap_res(I, c, args, fr):
    return p_map_res(args[0], args[1])

@model('nom::combinator::opt', 'combinator::opt', 'opt')
def m_nopt(I, c, args, fr):
    return p_opt(args[0])

@model('nom::combinator::cut', 'combinator::cut', 'cut')
def m_ncut(I, c, args, fr):
    return p_cut(args[0])

@model('nom::sequence::terminated', 'sequence::terminated', 'terminated')
def m_terminated(I, c, args, fr):
    return p_seq(args, lambda o: o[0])

@model('nom::sequence::preceded', 'sequence::preceded', 'preceded')
def m_preceded(I, c, args, fr):
    return p_seq(args, lambda o: o[1])

@model('nom::sequence::delimited', 'sequence::delimited', 'delimited')
def m_delimited(I, c, args, fr):
    return p_seq(args, lambda o: o[1])

@model('nom::sequence::separated_pair', 'sequence::separated_pair', 'separated_pair')
def m_separated_pair(I, c, args, fr):
    return p_seq(args, lambda o: Tup([o[0], o[2]]))

@model('nom::sequence::pair', 'sequence::pair', 'pair')
def m_pair(I, c, args, fr):
    return p_seq(args, lambda o: Tup([o[0], o[1]]))

@model('nom::sequence::tuple', 'sequence::tuple', 'tuple')
def m_tuple(I, c, args, fr):
    return p_seq(tuple_items(args[0]), lambda o: Tup(o))

@model('nom::branch::alt', 'branch::alt', 'alt')
def m_alt(I, c, args, fr):
    return p_alt(tuple_items(args[0]))

@model('nom::multi::length_data', 'multi::length_data', 'length_data')
def m_length_data(I, c, args, fr):
    p = args[0]
    def parse(I, inp):
        r = apply(I, p, inp)
        if r.variant == 'Err':
            return r
        rest, n = r.fields[0].items
        return p_take(n).f(I, rest)
    return PyFn(parse, 'length_data')

@model('nom::combinator::recognize', 'combinator::recognize', 'recognize')
def m_recognize(I, c, args, fr):
    p = args[0]
    def parse(I, inp):
        inp = as_slice(inp)
        r = apply(I, p, inp)
        if r.variant == 'Err':
            return r
        rest = r.fields[0].items[0]
        return done(rest, inp.sub(0, len(inp) - len(as_slice(rest))))
    return PyFn(parse, 'recognize')

@model('nom::combinator::value', 'combinator::value')
def m_value(I, c, args, fr):
    v, p = args
    def parse(I, inp):
        r = apply(I, p, inp)
        if r.variant == 'Err':
            return r
        return done(r.fields[0].items[0], copy_value(v))
    return PyFn(parse, 'value')

@model('Err::is_incomplete')
def m_is_incomplete(I, c, args, fr):
    return deref(args[0]).variant == 'Incomplete'

@model('Needed::new')
def m_needed_new(I, c, args, fr):
    return needed(args[0])

@model('Parser::parse')
def m_parser_parse(I, c, args, fr):
    return I.call_value(args[0], [args[1]])

# ---------------------------------------------------------------------------- zero-sized nom closures: rebuild from the type text
GENERIC_PARSER_POS = {
    # combinator -> indices (from the end of the generic list) of the parser / function type arguments, in call order
    'map': 2, 'map_res': 2, 'opt': 1, 'cut': 1, 'terminated': 2, 'preceded': 2, 'pair': 2, 'delimited': 3, 'separated_pair': 3,
    'take_while': -1, 'take_while1': -1, 'alt': 1, 'tuple': 1, 'recognize': 1, 'length_data': 1,
}

def top_generics(s):
    """`name<a, b<c>, d>` -> (name, [a, b<c>, d])"""
    j = s.index('<')
    k = match_close(s, j)
    return s[:j], split_top(s[j+1:k])

def value_of_type(I, ty, env):
    """a value of zero-sized type `ty` (type text)"""
    ty = strip_lifetimes(ty.strip())
    if ty.startswith('{closure@nom::') or ty.startswith('{closure@'):
        inner = ty[9:-1]
        if not inner.startswith('nom::') and '<' not in inner.split('::{closure')[0]:
            f = I.prog.closure_fn(inner)
            if f is None:
                raise Unsupported('closure body not found: ' + inner)
            return Closure(f, [], [], inner)
        m = re.match(r'^((?:nom::)?[\w:]*?)(\w+)<', inner)
        if not m:
            raise Unsupported('cannot rebuild zero-sized closure ' + ty[:120])
        comb = m.group(2)
        name, gens = top_generics(inner)
        gens = [g for g in gens if not g.startswith("'")]
        if comb in ('take_while', 'take_while1'):
            pred = value_of_type(I, gens[0], env)
            return p_take_while(pred, comb == 'take_while1')
        n = GENERIC_PARSER_POS.get(comb)
        if n is None:
            raise Unsupported('zero-sized nom combinator ' + comb)
        parts = [value_of_type(I, g, env) for g in gens[-n:]]
        if comb == 'map':
            return p_map(*parts)
        if comb == 'map_res':
            return p_map_res(*parts)
        if comb == 'opt':
            return p_opt(parts[0])
        if comb == 'cut':
            return p_cut(parts[0])
        if comb == 'terminated':
            return p_seq(parts, lambda o: o[0])
        if comb == 'preceded':
            return p_seq(parts, lambda o: o[1])
        if comb == 'pair':
            return p_seq(parts, lambda o: Tup([o[0], o[1]]))
        if comb == 'delimited':
            return p_seq(parts, lambda o: o[1])
        if comb == 'separated_pair':
            return p_seq(parts, lambda o: Tup([o[0], o[2]]))
        if comb in ('alt', 'tuple'):
            lst = parts[0]
            items = tuple_items(lst)
            return p_alt(items) if comb == 'alt' else p_seq(items, lambda o: Tup(o))
        if comb == 'recognize':
            return m_recognize(I, None, parts, None)
        if comb == 'length_data':
            return m_length_data(I, None, parts, None)
        raise Unsupported('zero-sized nom combinator ' + comb)
    if ty.startswith('(') and ty.endswith(')'):
        return Tup([value_of_type(I, t, env) for t in split_top(ty[1:-1])])
    m = re.match(r'^(?:unsafe )?fn\(.*\{(.*)\}$', ty, re.S)
    if m:
        return FnItem(m.group(1), dict(env or {}))
    raise Unsupported('value of zero-sized type ' + ty[:120])

_orig_call_value = Interp.call_value
def call_value(self, f, args, fr=None):
    g = f.get() if isinstance(f, Ref) else f
    if isinstance(g, Zst) and g.ty.startswith('{closure@') and ('nom::' in g.ty.split('<')[0] or re.match(r'^\{closure@(?:\w+::)*\w+<', g.ty)):
        cache = getattr(self, '_zst_cache', None)
        if cache is None:
            cache = self._zst_cache = {}
        p = cache.get(g.ty)
        if p is None:
            p = cache[g.ty] = value_of_type(self, g.ty, fr.env if fr is not None else {})
        return _orig_call_value(self, p, args, fr)
    return _orig_call_value(self, f, args, fr)
Interp.call_value = call_value


# ---------------------------------------------------------------------------- nom "complete" variants (no Incomplete: the input is all there is)
def complete_split(I, inp, stop_pred, at_least_one, kind):
    inp = as_slice(inp)
    items = inp.items()
    i = 0
    while i < len(items) and not I.ctx.decide(stop_pred(I, items[i])):
        i += 1
    if i == 0 and at_least_one:
        return nerror(inp, kind)
    return done(inp.sub(i, len(items)), inp.sub(0, i))

@model('nom::character::complete::digit1', 'complete::digit1')
def m_cdigit1(I, c, args, fr):
    return complete_split(I, args[0], lambda I, x: b_not(is_digit(x)), True, 'Digit')

@model('nom::character::complete::digit0', 'complete::digit0')
def m_cdigit0(I, c, args, fr):
    return complete_split(I, args[0], lambda I, x: b_not(is_digit(x)), False, 'Digit')

@model('nom::bytes::complete::tag', 'complete::tag')
def m_ctag(I, c, args, fr):
    t = as_items(args[0])
    def parse(I, inp):
        inp = as_slice(inp)
        items = inp.items()
        if len(items) < len(t) or not I.ctx.decide(seq_eq(items[:len(t)], t)):
            return nerror(inp, 'Tag')
        return done(inp.sub(len(t), len(items)), inp.sub(0, len(t)))
    return PyFn(parse, 'complete::tag')

@model('nom::bytes::complete::take', 'complete::take')
def m_ctake(I, c, args, fr):
    n = args[0]
    def parse(I, inp):
        inp = as_slice(inp)
        k = I.ctx.concretize(n) if is_sym(n) else n
        if k > len(inp):
            return nerror(inp, 'Eof')
        return done(inp.sub(k, len(inp)), inp.sub(0, k))
    return PyFn(parse, 'complete::take')

@model('nom::bytes::complete::take_while', 'complete::take_while')
def m_ctake_while(I, c, args, fr):
    pred = args[0]
    return PyFn(lambda I, inp: complete_split(I, inp, lambda I, x: b_not(I.call_value(pred, [x])), False, 'TakeWhile'), 'complete::take_while')

@model('nom::bytes::complete::take_while1', 'complete::take_while1')
def m_ctake_while1(I, c, args, fr):
    pred = args[0]
    return PyFn(lambda I, inp: complete_split(I, inp, lambda I, x: b_not(I.call_value(pred, [x])), True, 'TakeWhile1'), 'complete::take_while1')

@model('nom::bytes::complete::take_until', 'complete::take_until')
def m_ctake_until(I, c, args, fr):
    t = as_items(args[0])
    def parse(I, inp):
        inp = as_slice(inp)
        items = inp.items()
        for i in range(len(items) - len(t) + 1):
            if I.ctx.decide(seq_eq(items[i:i+len(t)], t)):
                return done(inp.sub(i, len(items)), inp.sub(0, i))
        return nerror(inp, 'TakeUntil')
    return PyFn(parse, 'complete::take_until')

@model('nom::character::complete::char', 'complete::char')
def m_cchar(I, c, args, fr):
    ch = args[0]
    def parse(I, inp):
        inp = as_slice(inp)
        if len(inp) and I.ctx.decide(int_eq(bv(inp.at(0), 32) if is_sym(inp.at(0)) else inp.at(0), ch)):
            return done(inp.sub(1, len(inp)), ch)
        return nerror(inp, 'Char')
    return PyFn(parse, 'complete::char')

@model('nom::character::complete::newline', 'complete::newline')
def m_cnewline(I, c, args, fr):
    return m_cchar(I, c, [10], fr).f(I, args[0])
