"""Parser for rustc's textual MIR (`-Zunpretty=mir`, optimized MIR, nightly 1.97).

Every function of the dumped crate becomes a `Func` with pre-parsed statements and terminators
(tuples; see the grammar notes next to each parser).  Nothing in here knows about the
repository: it is a generic reader for the subset of MIR syntax rustc prints.
"""
import re

class MirSyntaxError(Exception):
    pass

# --------------------------------------------------------------------------- bracket helpers
OPEN = '([{<'
CLOSE = ')]}>'

def match_close(s, i):
    """s[i] is an opening bracket; return index of its matching closer.  `->` / `=>` are not
    closers; `<`/`>` only count inside type-like text (callers use this on such text only)."""
    depth = 0
    j = i
    n = len(s)
    while j < n:
        c = s[j]
        if c in '([{':
            depth += 1
        elif c in ')]}':
            depth -= 1
            if depth == 0:
                return j
        elif c == '<':
            depth += 1
        elif c == '>' and s[j-1] not in '-=':
            depth -= 1
            if depth == 0:
                return j
        elif c == '"':
            j = skip_string(s, j)
            continue
        elif c == "'" and is_char_lit(s, j):
            j = skip_char(s, j)
            continue
        j += 1
    raise MirSyntaxError('unbalanced: ' + s[i:i+80])

def is_char_lit(s, j):
    # 'x' or '\n' / '\'' / '\u{..}' ; lifetimes look like 'a or '_ followed by non-quote
    if s[j+1:j+2] == '\\':
        return True
    return s[j+2:j+3] == "'" and s[j+1] != "'" or (len(s) > j+2 and ord(s[j+1]) > 127 and "'" in s[j+2:j+6])

def skip_char(s, j):
    k = j + 1
    if s[k] == '\\':
        k += 2
        while s[k] != "'":
            k += 1
        return k + 1
    while s[k] != "'":
        k += 1
    return k + 1

def skip_string(s, j):
    k = j + 1
    while s[k] != '"':
        if s[k] == '\\':
            k += 1
        k += 1
    return k + 1

def split_top(s, sep=','):
    """split at `sep` outside every bracket/quote"""
    out = []
    depth = 0
    cur = []
    j = 0
    n = len(s)
    while j < n:
        c = s[j]
        if c == '"':
            k = skip_string(s, j); cur.append(s[j:k]); j = k; continue
        if c == "'" and is_char_lit(s, j):
            k = skip_char(s, j); cur.append(s[j:k]); j = k; continue
        if c in '([{':
            depth += 1
        elif c in ')]}':
            depth -= 1
        elif c == '<':
            depth += 1
        elif c == '>' and j > 0 and s[j-1] not in '-=':
            depth -= 1
        if c == sep and depth == 0:
            out.append(''.join(cur).strip()); cur = []
        else:
            cur.append(c)
        j += 1
    t = ''.join(cur).strip()
    if t:
        out.append(t)
    return out

def find_top(s, needle, start=0):
    """index of `needle` in s outside brackets/quotes, or -1"""
    depth = 0
    j = start
    n = len(s)
    L = len(needle)
    while j < n:
        c = s[j]
        if depth == 0 and s.startswith(needle, j):
            return j
        if c == '"':
            j = skip_string(s, j); continue
        if c == "'" and is_char_lit(s, j):
            j = skip_char(s, j); continue
        if c in '([{':
            depth += 1
        elif c in ')]}':
            depth -= 1
        elif c == '<':
            depth += 1
        elif c == '>' and j > 0 and s[j-1] not in '-=':
            depth -= 1
        j += 1
    return -1

# --------------------------------------------------------------------------- places
# place := _N | (*place) | (place.N: TYPE) | (place as NAME) | place[_N] | place[N of M] | place[-N of M]
def parse_place(s, i=0):
    n = len(s)
    if s[i] == '_':
        m = re.compile(r'_\d+').match(s, i)
        base = m.group(0); projs = []; i = m.end()
    elif s[i] == '(':
        if s[i+1] == '*':
            (base, projs), j = parse_place(s, i + 2)
            if s[j] != ')':
                raise MirSyntaxError('deref place: ' + s[i:i+80])
            projs = projs + [('deref',)]
            i = j + 1
        else:
            (base, projs), j = parse_place(s, i + 1)
            if s[j] == '.':
                m = re.compile(r'\.(\d+): ').match(s, j)
                k = m.end()
                depth = 0
                while True:
                    c = s[k]
                    if c in '([{':
                        depth += 1
                    elif c == '<':
                        depth += 1
                    elif c == '>' and s[k-1] not in '-=':
                        depth -= 1
                    elif c in ')]}':
                        if depth == 0 and c == ')':
                            break
                        depth -= 1
                    k += 1
                projs = projs + [('field', int(m.group(1)), s[m.end():k])]
                i = k + 1
            elif s.startswith(' as ', j):
                k = s.index(')', j)
                projs = projs + [('downcast', s[j+4:k])]
                i = k + 1
            else:
                raise MirSyntaxError('place: ' + s[i:i+80])
    else:
        raise MirSyntaxError('place: ' + s[i:i+80])
    while i < n and s[i] == '[':
        k = s.index(']', i)
        inner = s[i+1:k]
        m = re.match(r'^(-?)(\d+) of (\d+)$', inner)
        if m:
            projs = projs + [('constindex', int(m.group(2)), m.group(1) == '-')]
        elif re.match(r'^_\d+$', inner):
            projs = projs + [('index', inner)]
        else:
            m = re.match(r'^(\d+):(-?)(\d+)$', inner)
            if not m:
                raise MirSyntaxError('index: ' + inner)
            projs = projs + [('subslice', int(m.group(1)), int(m.group(3)), m.group(2) == '-')]
        i = k + 1
    return (base, projs), i

def place(s):
    s = s.strip()
    p, i = parse_place(s)
    if i != len(s):
        raise MirSyntaxError('trailing text after place: ' + s)
    return (p[0], tuple(p[1]))

# --------------------------------------------------------------------------- operands
def operand(s):
    """('copy'|'move', place) | ('const', text) | ('fnitem', text)"""
    s = s.strip()
    if s.startswith('no_retag '):
        s = s[9:]
    if s.startswith('copy '):
        return ('copy', place(s[5:]))
    if s.startswith('move '):
        return ('move', place(s[5:]))
    if s.startswith('const '):
        return ('const', s[6:].strip())
    return ('fnitem', s)

BINOPS = {'Add', 'Sub', 'Mul', 'Div', 'Rem', 'BitXor', 'BitAnd', 'BitOr', 'Shl', 'Shr', 'Eq', 'Lt', 'Le', 'Ne',
          'Ge', 'Gt', 'Cmp', 'Offset', 'AddWithOverflow', 'SubWithOverflow', 'MulWithOverflow',
          'AddUnchecked', 'SubUnchecked', 'MulUnchecked', 'ShlUnchecked', 'ShrUnchecked'}
UNOPS = {'Not', 'Neg', 'PtrMetadata'}
CAST_RE = re.compile(r'^(.*) as (.*) \((Transmute|Subtype|IntToInt|IntToFloat|FloatToInt|FloatToFloat|PtrToPtr|FnPtrToPtr|PointerExposeProvenance|PointerWithExposedProvenance|PointerCoercion\(.*\))\)$')

def rvalue(s):
    s = s.strip()
    if s.startswith('no_retag '):
        s = s[9:]
    # references
    if s.startswith('&'):
        m = re.match(r'^&(raw const |raw mut |mut |fake shallow |fake deep |)', s)
        return ('ref', m.group(1).strip(), place(s[m.end():]))
    m = re.match(r'^(\w+)\((.*)\)$', s)
    if m and m.group(1) in BINOPS:
        a, b = split_top(m.group(2))
        return ('binop', m.group(1), operand(a), operand(b))
    if m and m.group(1) in UNOPS:
        return ('unop', m.group(1), operand(m.group(2)))
    if m and m.group(1) == 'discriminant':
        return ('discriminant', place(m.group(2)))
    if m and m.group(1) == 'Len':
        return ('len', place(m.group(2)))
    if s.startswith('deref_copy '):
        return ('use', ('copy', place(s[11:])))
    if s.startswith(('copy ', 'move ', 'const ')):
        m = CAST_RE.match(s)
        if m:
            return ('cast', m.group(3).split('(')[0], operand(m.group(1)), m.group(2))
        return ('use', operand(s))
    if s == '()':
        return ('tuple', [])
    if s.startswith('('):
        k = match_close(s, 0)
        if k == len(s) - 1:
            return ('tuple', [operand(x) for x in split_top(s[1:-1])])
    if s.startswith('['):
        k = match_close(s, 0)
        if k == len(s) - 1:
            inner = s[1:-1]
            semi = find_top(inner, '; ')
            if semi >= 0:
                return ('repeat', operand(inner[:semi]), inner[semi+2:])
            return ('array', [operand(x) for x in split_top(inner)])
    m = CAST_RE.match(s)
    if m:       # fn item cast:  foo as fn(..) (PointerCoercion(ReifyFnPointer))
        return ('cast', m.group(3).split('(')[0], operand(m.group(1)), m.group(2))
    # closures / coroutines:  {closure@LOC} { a: op, b: op }   or without captures: {closure@LOC}
    if s.startswith('{closure@') or s.startswith('{coroutine@') or s.startswith('{async '):
        k = match_close(s, 0)
        head = s[:k+1]
        rest = s[k+1:].strip()
        fields = []
        if rest:
            assert rest[0] == '{' and rest[-1] == '}', s
            for f in split_top(rest[1:-1]):
                nm, op = f.split(': ', 1)
                fields.append((nm.strip(), operand(op)))
        kind = 'closure' if head.startswith('{closure@') else 'coroutine'
        return (kind, head, fields)
    # ADT aggregates:  Path::<T>::Variant(op, ..) | Path { f: op, .. } | Path::Variant | Path(op)
    # find the end of the path (outside <>): first '(' or ' {' at depth 0
    depth = 0
    j = 0
    n = len(s)
    while j < n:
        c = s[j]
        if c == '<':
            depth += 1
        elif c == '>' and s[j-1] not in '-=':
            depth -= 1
        elif depth == 0 and (c == '(' or (c == '{' and s[j-1] == ' ')):
            break
        elif c in '([{':
            depth += 1
        elif c in ')]}':
            depth -= 1
        j += 1
    path = s[:j].strip()
    if j >= n:
        return ('adt', path, None, [])
    if s[j] == '(':
        if match_close(s, j) != n - 1:
            raise MirSyntaxError('rvalue: ' + s)
        return ('adt', path, None, [operand(x) for x in split_top(s[j+1:-1])])
    if match_close(s, j) != n - 1:
        raise MirSyntaxError('rvalue: ' + s)
    names = []
    ops = []
    for f in split_top(s[j+1:-1]):
        nm, op = f.split(': ', 1)
        names.append(nm.strip()); ops.append(operand(op))
    return ('adt', path, names, ops)

# --------------------------------------------------------------------------- statements
def split_assign(st):
    k = find_top(st, ' = ')
    if k < 0:
        return None
    return st[:k], st[k+3:]

TARGETS_RE = re.compile(r'^(.*) -> (\[[^\[\]]*\]|bb\d+|unwind \w+(?:\(\w+\))?)$')

def parse_targets(t):
    """`[return: bb1, unwind: bb2]` -> dict"""
    out = {}
    t = t.strip()
    if t.startswith('['):
        for part in split_top(t[1:-1]):
            if ': ' in part:
                k, v = part.split(': ', 1)
                out[k.strip()] = v.strip()
            else:
                out[part.strip()] = True
    elif t.startswith('bb'):
        out['unwind'] = t          # diverging call: the only edge is the unwind edge
    return out

def statement(st):
    """returns ('stmt', ...) or ('term', ...)"""
    st = st.strip()
    if st.endswith(';'):
        st = st[:-1]
    if st.startswith(('StorageLive(', 'StorageDead(', 'nop', 'FakeRead(', 'PlaceMention(', 'Retag(', 'AscribeUserType(',
                      'Coverage::', 'ConstEvalCounter', 'Deinit(', 'BackwardIncompatibleDropHint(')):
        return None
    if st == 'return':
        return ('term', ('return',))
    if st == 'unreachable':
        return ('term', ('unreachable',))
    if st.startswith('resume') or st.startswith('terminate') or st == 'abort':
        return ('term', ('resume',))
    if st.startswith('goto -> '):
        return ('term', ('goto', st[8:].strip()))
    if st.startswith('assume('):
        return None
    if st.startswith('switchInt('):
        k = match_close(st, 9)
        op = operand(st[10:k])
        tg = st[k+1:].strip()
        assert tg.startswith('-> ['), st
        cases = []
        other = None
        for part in split_top(tg[4:-1]):
            v, bb = part.split(': ')
            if v.strip() == 'otherwise':
                other = bb.strip()
            else:
                cases.append((int(v), bb.strip()))
        return ('term', ('switch', op, cases, other))
    if st.startswith('assert('):
        k = match_close(st, 6)
        inner = split_top(st[7:k])
        cond = inner[0]
        neg = cond.startswith('!')
        if neg:
            cond = cond[1:]
        msg = inner[1] if len(inner) > 1 else ''
        tg = parse_targets(st[k+1:].strip()[3:])
        return ('term', ('assert', operand(cond), neg, msg, tg.get('success')))
    if st.startswith('drop('):
        k = match_close(st, 4)
        tg = parse_targets(st[k+1:].strip()[3:])
        return ('term', ('drop', place(st[5:k]), tg.get('return')))
    if st.startswith('discriminant('):
        k = match_close(st, 12)
        rest = st[k+1:].strip()
        if rest.startswith('= '):
            return ('stmt', ('setdisc', place(st[13:k]), int(rest[2:])))
    m = TARGETS_RE.match(st)
    if m:
        head = m.group(1)
        tg = parse_targets(m.group(2))
        sp = split_assign(head)
        if sp and not head.startswith('<') or (sp and head.startswith('(')):
            dest, call = sp
            dest = place(dest)
        elif sp and head.startswith('<'):
            # `<T as Trait>::f(..)` without destination never contains ' = ' at top level, so this is dest = ...
            dest, call = sp
            dest = place(dest)
        else:
            dest, call = None, head
        # callee(args): find the last top-level '(' ... ')' group
        if not call.endswith(')'):
            raise MirSyntaxError('call: ' + st)
        # forward scan: first '(' outside <>, [], {} starts the argument list
        depth = 0
        j = 0
        n = len(call)
        while j < n:
            c = call[j]
            if c in '<[{':
                depth += 1
            elif c in ']}' or (c == '>' and call[j-1] not in '-='):
                depth -= 1
            elif c == '(':
                if depth == 0:
                    break
                depth += 1
            elif c == ')':
                depth -= 1
            j += 1
        if j >= n:
            raise MirSyntaxError('call: ' + st)
        callee = call[:j].strip()
        args = [operand(x) for x in split_top(call[j+1:-1])]
        return ('term', ('call', dest, callee, args, tg.get('return')))
    sp = split_assign(st)
    if sp:
        return ('stmt', ('assign', place(sp[0]), rvalue(sp[1])))
    raise MirSyntaxError('statement: ' + st)

# --------------------------------------------------------------------------- functions
class Func:
    __slots__ = ('name', 'kind', 'args', 'ret', 'locals', 'blocks', 'raw_header', 'crate', 'const_value', 'nlines',
                 'argtypes', 'entry', 'order')
    def __init__(self, name, kind):
        self.name = name; self.kind = kind; self.args = []; self.ret = None; self.locals = {}
        self.blocks = {}; self.raw_header = ''; self.crate = None; self.const_value = None; self.nlines = 0
        self.argtypes = []; self.order = 0
    def __repr__(self):
        return '<Func %s>' % self.name

HEADER_FN = re.compile(r'^fn (.*)$')
HEADER_CONST = re.compile(r'^(const|static|static mut) (.*)$')

def parse_header(line):
    """returns Func (without body)"""
    if line.startswith('fn '):
        body = line[3:]
        # name ends at the first top-level '(' that begins the argument list: scan with depth on <> {} []
        depth = 0
        j = 0
        while j < len(body):
            c = body[j]
            if c in '<{[':
                depth += 1
            elif c in '}]' or (c == '>' and body[j-1] not in '-='):
                depth -= 1
            elif c == '(' and depth == 0:
                break
            j += 1
        name = body[:j]
        k = match_close(body, j)
        f = Func(name, 'fn')
        for a in split_top(body[j+1:k]):
            m = re.match(r'^(_\d+): (.*)$', a)
            f.args.append(m.group(1)); f.argtypes.append(m.group(2)); f.locals[m.group(1)] = m.group(2)
        rest = body[k+1:].strip()
        if rest.startswith('-> '):
            f.ret = rest[3:].rstrip('{').strip()
        return f
    m = HEADER_CONST.match(line)
    if m:
        body = m.group(2)
        k = find_top(body, ': ')
        name = body[:k]
        rest = body[k+2:]
        e = find_top(rest, ' = ')
        f = Func(name, 'const')
        f.ret = rest[:e]
        val = rest[e+3:].strip()
        if val != '{':
            f.const_value = val.rstrip(';')
        return f
    return None

def parse_mir(path, crate=None):
    funcs = {}
    dups = {}
    cur = None
    bb = None
    lines = open(path, encoding='utf-8', errors='replace').read().split('\n')
    i = 0
    n = len(lines)
    while i < n:
        line = lines[i]
        i += 1
        if cur is None:
            if line.startswith(('fn ', 'const ', 'static ')):
                f = parse_header(line)
                if f is None:
                    continue
                f.crate = crate
                f.raw_header = line
                f.order = i
                if f.const_value is not None:
                    if f.name in funcs:
                        dups.setdefault(f.name, [funcs[f.name]]).append(f)       # macro-generated items share a name
                    else:
                        funcs[f.name] = f
                    continue
                cur = f
                bb = None
            continue
        if line == '}':
            cur.nlines = sum(len(b[0]) + 1 for b in cur.blocks.values())
            if cur.name in funcs:
                dups.setdefault(cur.name, [funcs[cur.name]]).append(cur)
            else:
                funcs[cur.name] = cur
            cur = None
            continue
        m = re.match(r'^    (bb\d+)(?: \(cleanup\))?: \{$', line)
        if m:
            bb = m.group(1)
            cur.blocks[bb] = ([], None, '(cleanup)' in line)
            stmts = []
            term = None
            while True:
                l = lines[i]
                i += 1
                if l == '    }':
                    break
                t = l.strip()
                if not t:
                    continue
                # statements can span several lines only inside string constants: join until ';'
                r = statement(t)
                if r is None:
                    continue
                if r[0] == 'stmt':
                    stmts.append(r[1])
                else:
                    term = r[1]
            cur.blocks[bb] = (stmts, term, '(cleanup)' in line)
            continue
        m = re.match(r'^    let (?:mut )?(_\d+): (.*);$', line)
        if m:
            cur.locals[m.group(1)] = m.group(2)
            continue
        m = re.match(r'^        let (?:mut )?(_\d+): (.*);$', line.replace('    ', '', line.count('    ') - 2) if False else line)
        if m:
            cur.locals[m.group(1)] = m.group(2)
            continue
        m = re.match(r'^\s+let (?:mut )?(_\d+): (.*);$', line)
        if m:
            cur.locals[m.group(1)] = m.group(2)
    return funcs, dups
