"""Library models: iterators (lazy python objects following the std adapter contracts), slices, Vec."""
import z3
from values import *
from interp import model, MODELS, runtime_type, seq_len, short, simp, has_wide
from models_core import (deref, as_items, as_slice, mk_option, char_of, explode, val_eq, val_cmp, ordering, resolve_targ,
                         default_of, is_param_like, push_char, elem_index, byte_offset, conv_into)
from rtypes import base_name, type_str, subst, int_info, parse_type

# ============================================================================ iterator objects
class Iter:
    """model iterator: next(I) -> python value or STOP"""
    def next(self, I): raise NotImplementedError
    def next_back(self, I): raise Unsupported('next_back on %s' % type(self).__name__)
    def size(self): return None
    def on_clone(self, I): raise Unsupported('clone of %s' % type(self).__name__)

class Stop:
    pass
STOP = Stop()

class ListIter(Iter):
    """slice::Iter / IterMut / vec::IntoIter over a python list.  mode 'ref' yields &T, 'val' yields T"""
    def __init__(self, back, mode, lo=0, hi=None):
        self.back = back; self.mode = mode; self.lo = lo; self.hi = len(back) if hi is None else hi
    def item(self, i):
        if self.mode == 'ref':
            return Ref(ListLoc(self.back, i))
        return self.back[i]
    def next(self, I):
        if self.lo >= self.hi:
            return STOP
        i = self.lo; self.lo += 1
        return self.item(i)
    def next_back(self, I):
        if self.lo >= self.hi:
            return STOP
        self.hi -= 1
        return self.item(self.hi)
    def size(self): return self.hi - self.lo
    def on_clone(self, I):
        if self.mode == 'val':
            return ListIter([deep_clone(x) for x in self.back[self.lo:self.hi]], 'val')
        return ListIter(self.back, self.mode, self.lo, self.hi)
    def on_drop(self, I):
        if self.mode == 'val':
            for x in self.back[self.lo:self.hi]:
                I.drop_value(x)
            self.lo = self.hi
    def as_slice(self):
        return SliceRef(self.back, self.lo, self.hi, 'slice')

class CharsIter(Iter):
    def __init__(self, s): self.s = s; self.i = 0; self.j = len(s)
    def next(self, I):
        if self.i >= self.j:
            return STOP
        x = self.s.at(self.i); self.i += 1
        return char_of(I, x)
    def next_back(self, I):
        if self.i >= self.j:
            return STOP
        self.j -= 1
        return char_of(I, self.s.at(self.j))
    def size(self): return self.j - self.i
    def on_clone(self, I):
        c = CharsIter(self.s); c.i = self.i; c.j = self.j; return c
    def as_str(self): return self.s.sub(self.i, self.j)

class CharIndicesIter(Iter):
    def __init__(self, s): self.s = s; self.i = 0; self.off = 0
    def next(self, I):
        if self.i >= len(self.s):
            return STOP
        x = self.s.at(self.i); self.i += 1
        off = self.off
        from interp import elem_len
        self.off += elem_len(x)
        return Tup([off, char_of(I, x)])

class MapIter(Iter):
    def __init__(self, inner, f): self.inner = inner; self.f = f
    def next(self, I):
        x = iter_next(I, self.inner)
        return STOP if x is STOP else I.call_value(self.f, [x])
    def next_back(self, I):
        x = iter_next_back(I, self.inner)
        return STOP if x is STOP else I.call_value(self.f, [x])
    def size(self): return iter_size(self.inner)
    def on_drop(self, I): I.drop_value(self.inner)

class FilterIter(Iter):
    def __init__(self, inner, f): self.inner = inner; self.f = f
    def next(self, I):
        while True:
            x = iter_next(I, self.inner)
            if x is STOP:
                return STOP
            if I.ctx.decide(I.call_value(self.f, [ref_to(x)])):
                return x
            I.drop_value(x)
    def next_back(self, I):
        while True:
            x = iter_next_back(I, self.inner)
            if x is STOP:
                return STOP
            if I.ctx.decide(I.call_value(self.f, [ref_to(x)])):
                return x

class FilterMapIter(Iter):
    def __init__(self, inner, f): self.inner = inner; self.f = f
    def next(self, I):
        while True:
            x = iter_next(I, self.inner)
            if x is STOP:
                return STOP
            r = I.call_value(self.f, [x])
            if r.variant == 'Some':
                return r.fields[0]

class EnumerateIter(Iter):
    def __init__(self, inner): self.inner = inner; self.n = 0
    def next(self, I):
        x = iter_next(I, self.inner)
        if x is STOP:
            return STOP
        n = self.n; self.n += 1
        return Tup([n, x])
    def next_back(self, I):
        # Enumerate is double-ended over an exact-size iterator: the index of the last item is front count + remaining - 1
        k = iter_size(self.inner)
        if k is None:
            raise Unsupported('next_back on an enumerate of unknown length')
        x = iter_next_back(I, self.inner)
        if x is STOP:
            return STOP
        return Tup([self.n + k - 1, x])
    def size(self): return iter_size(self.inner)

class RevIter(Iter):
    def __init__(self, inner): self.inner = inner
    def next(self, I): return iter_next_back(I, self.inner)
    def next_back(self, I): return iter_next(I, self.inner)
    def size(self): return iter_size(self.inner)

class PeekableIter(Iter):
    def __init__(self, inner): self.inner = inner; self.peeked = None   # None | [value or STOP]
    def next(self, I):
        if self.peeked is not None:
            x = self.peeked[0]; self.peeked = None
            return x
        return iter_next(I, self.inner)
    def peek(self, I):
        if self.peeked is None:
            self.peeked = [iter_next(I, self.inner)]
        return self.peeked
    def size(self):
        s = iter_size(self.inner)
        if s is None: return None
        return s + (1 if self.peeked is not None and self.peeked[0] is not STOP else 0)

class ChainIter(Iter):
    def __init__(self, a, b): self.a = a; self.b = b
    def next(self, I):
        if self.a is not None:
            x = iter_next(I, self.a)
            if x is not STOP:
                return x
            self.a = None
        return iter_next(I, self.b)

class ZipIter(Iter):
    def __init__(self, a, b): self.a = a; self.b = b
    def next(self, I):
        x = iter_next(I, self.a)
        if x is STOP:
            return STOP
        y = iter_next(I, self.b)
        if y is STOP:
            return STOP
        return Tup([x, y])

class TakeIter(Iter):
    def __init__(self, inner, n): self.inner = inner; self.n = n
    def next(self, I):
        if self.n == 0:
            return STOP
        self.n -= 1
        return iter_next(I, self.inner)

class SkipIter(Iter):
    def __init__(self, inner, n): self.inner = inner; self.n = n
    def next(self, I):
        while self.n > 0:
            self.n -= 1
            if iter_next(I, self.inner) is STOP:
                return STOP
        return iter_next(I, self.inner)

class StepByIter(Iter):
    def __init__(self, inner, n): self.inner = inner; self.n = n; self.first = True
    def next(self, I):
        if self.first:
            self.first = False
            return iter_next(I, self.inner)
        for _ in range(self.n - 1):
            if iter_next(I, self.inner) is STOP:
                return STOP
        return iter_next(I, self.inner)

class TakeWhileIter(Iter):
    def __init__(self, inner, f): self.inner = inner; self.f = f; self.done = False
    def next(self, I):
        if self.done:
            return STOP
        x = iter_next(I, self.inner)
        if x is STOP:
            return STOP
        if I.ctx.decide(I.call_value(self.f, [ref_to(x)])):
            return x
        self.done = True
        return STOP

class SkipWhileIter(Iter):
    def __init__(self, inner, f): self.inner = inner; self.f = f; self.started = False
    def next(self, I):
        while True:
            x = iter_next(I, self.inner)
            if x is STOP or self.started:
                return x
            if not I.ctx.decide(I.call_value(self.f, [ref_to(x)])):
                self.started = True
                return x

class ClonedIter(Iter):
    def __init__(self, inner): self.inner = inner
    def next(self, I):
        x = iter_next(I, self.inner)
        return STOP if x is STOP else deep_clone(deref(x))
    def next_back(self, I):
        x = iter_next_back(I, self.inner)
        return STOP if x is STOP else deep_clone(deref(x))
    def size(self): return iter_size(self.inner)

class FlatIter(Iter):
    def __init__(self, inner, f=None): self.inner = inner; self.f = f; self.cur = None
    def next(self, I):
        while True:
            if self.cur is not None:
                x = iter_next(I, self.cur)
                if x is not STOP:
                    return x
                self.cur = None
            y = iter_next(I, self.inner)
            if y is STOP:
                return STOP
            if self.f is not None:
                y = I.call_value(self.f, [y])
            self.cur = into_iter(I, y)

class OnceIter(Iter):
    def __init__(self, v): self.v = [v]
    def next(self, I):
        if self.v:
            return self.v.pop()
        return STOP
    def next_back(self, I): return self.next(I)
    def size(self): return len(self.v)

class RangeIter(Iter):
    def __init__(self, lo, hi): self.lo = lo; self.hi = hi
    def next(self, I):
        if is_sym(self.lo) or is_sym(self.hi):
            raise Unsupported('symbolic range iteration')
        if self.lo >= self.hi:
            return STOP
        x = self.lo; self.lo += 1
        return x
    def next_back(self, I):
        if self.lo >= self.hi:
            return STOP
        self.hi -= 1
        return self.hi
    def size(self): return max(0, self.hi - self.lo)

class SplitIter(Iter):
    """str::split(pat) / splitn"""
    def __init__(self, s, pat, limit=None): self.s = s; self.pat = pat; self.done = False; self.limit = limit
    def next(self, I):
        if self.done:
            return STOP
        if self.limit is not None:
            if self.limit == 0:
                return STOP
            self.limit -= 1
            if self.limit == 0:
                self.done = True
                return self.s
        items = self.s.items()
        pv = self.pat
        if isinstance(pv, SliceRef):
            from models_core import find_sub
            i = find_sub(I, items, pv.items()); n = len(pv)
        else:
            from models_core import char_of_nofork
            i = None; n = 1
            for k, x in enumerate(items):
                if I.ctx.decide(int_eq(char_of_nofork(x), pv)):
                    i = k; break
        if i is None:
            self.done = True
            return self.s
        head = self.s.sub(0, i)
        self.s = self.s.sub(i + n, len(items))
        return head

def py_iter(v):
    v = deref(v) if isinstance(v, Ref) else v
    return v

def iter_next(I, it):
    it = py_iter(it)
    if isinstance(it, Iter):
        return it.next(I)
    if isinstance(it, Adt):
        rt = runtime_type(it)
        hit = I.prog.find_impl('Iterator', 'next', rt)
        if hit:
            r = I.run(hit[0].func, [ref_to(it)], dict(hit[1]))
            return r.fields[0] if r.variant == 'Some' else STOP
        if it.ty in ('Range',):
            pass
    raise Unsupported('Iterator::next on %s' % short(it))

def iter_next_back(I, it):
    it = py_iter(it)
    if isinstance(it, Iter):
        return it.next_back(I)
    if isinstance(it, Adt):
        rt = runtime_type(it)
        hit = I.prog.find_impl('DoubleEndedIterator', 'next_back', rt)
        if hit:
            r = I.run(hit[0].func, [ref_to(it)], dict(hit[1]))
            return r.fields[0] if r.variant == 'Some' else STOP
    raise Unsupported('next_back on %s' % short(it))

def iter_size(it):
    it = py_iter(it)
    if isinstance(it, Iter):
        return it.size()
    return None

def into_iter(I, v):
    """IntoIterator::into_iter on a runtime value"""
    if isinstance(v, Iter):
        return v
    if isinstance(v, VecObj):
        return ListIter(v.v, 'val')
    if isinstance(v, Array):
        return ListIter(v.items, 'val')
    if isinstance(v, Ref):
        t = v.get()
        if isinstance(t, VecObj):
            return ListIter(t.v, 'ref')
        if isinstance(t, Array):
            return ListIter(t.items, 'ref')
        if isinstance(t, Iter):
            return v
        if isinstance(t, Adt):
            rt = runtime_type(v)
            hit = I.prog.find_impl('IntoIterator', 'into_iter', rt)
            if hit:
                return I.run(hit[0].func, [v], dict(hit[1]))
            if I.prog.find_impl('Iterator', 'next', runtime_type(t)):
                return v
        from models_coll import MapObj
        if isinstance(t, MapObj):
            return t.iter_refs()
    if isinstance(v, SliceRef):
        return ListIter(v.back, 'ref', v.lo, v.hi)
    if isinstance(v, Adt):
        if v.ty == 'Option':
            return OnceIter(v.fields[0]) if v.variant == 'Some' else ListIter([], 'val')
        rt = runtime_type(v)
        hit = I.prog.find_impl('IntoIterator', 'into_iter', rt)
        if hit:
            return I.run(hit[0].func, [v], dict(hit[1]))
        if I.prog.find_impl('Iterator', 'next', rt):
            return v
        if v.ty == 'Range':
            return RangeIter(v.fields[0], v.fields[1])
    from models_coll import MapObj
    if isinstance(v, MapObj):
        return v.into_iter()
    raise Unsupported('into_iter of %s' % short(v))

def drain(I, it):
    out = []
    while True:
        x = iter_next(I, it)
        if x is STOP:
            return out
        out.append(x)

# ============================================================================ trait method models
@model('IntoIterator::into_iter')
def m_into_iter(I, c, args, fr):
    return into_iter(I, args[0])

@model('Iterator::next')
def m_next(I, c, args, fr):
    x = iter_next(I, args[0])
    return none() if x is STOP else some(x)

@model('DoubleEndedIterator::next_back')
def m_next_back(I, c, args, fr):
    x = iter_next_back(I, args[0])
    return none() if x is STOP else some(x)

@model('Iterator::size_hint')
def m_size_hint(I, c, args, fr):
    n = iter_size(args[0])
    if n is None:
        raise Unsupported('size_hint of %s' % short(py_iter(args[0])))
    return Tup([n, some(n)])

@model('ExactSizeIterator::len')
def m_exact_len(I, c, args, fr):
    it = py_iter(args[0])
    n = iter_size(it)
    if n is None:
        if isinstance(it, Adt):
            hit = I.prog.find_impl('Iterator', 'size_hint', runtime_type(it))
            if hit:
                r = I.run(hit[0].func, [ref_to(it)], dict(hit[1]))
                return r.items[0]
        raise Unsupported('ExactSizeIterator::len of %s' % short(it))
    return n

@model('Iterator::map')
def m_map(I, c, args, fr):
    return MapIter(args[0], args[1])

@model('Iterator::filter')
def m_filter(I, c, args, fr):
    return FilterIter(args[0], args[1])

@model('Iterator::filter_map')
def m_filter_map(I, c, args, fr):
    return FilterMapIter(args[0], args[1])

@model('Iterator::enumerate')
def m_enumerate(I, c, args, fr):
    return EnumerateIter(args[0])

@model('Iterator::rev')
def m_rev(I, c, args, fr):
    return RevIter(args[0])

@model('Iterator::peekable')
def m_peekable(I, c, args, fr):
    return PeekableIter(args[0])

@model('Peekable::peek', 'Peekable::peek_mut')
def m_peek(I, c, args, fr):
    p = py_iter(args[0])
    cell = p.peek(I)
    if cell[0] is STOP:
        return none()
    return some(Ref(ListLoc(cell, 0)))

@model('Peekable::next_if')
def m_next_if(I, c, args, fr):
    p = py_iter(args[0])
    cell = p.peek(I)
    if cell[0] is STOP:
        return none()
    if I.ctx.decide(I.call_value(args[1], [Ref(ListLoc(cell, 0))])):
        return some(p.next(I))
    return none()

@model('Iterator::chain')
def m_chain(I, c, args, fr):
    return ChainIter(args[0], into_iter(I, args[1]))

@model('Iterator::zip')
def m_zip(I, c, args, fr):
    return ZipIter(args[0], into_iter(I, args[1]))

@model('Iterator::take')
def m_take(I, c, args, fr):
    return TakeIter(args[0], args[1])

@model('Iterator::skip')
def m_skip(I, c, args, fr):
    return SkipIter(args[0], args[1])

@model('Iterator::step_by')
def m_step_by(I, c, args, fr):
    if args[1] == 0:
        raise Panic('step_by(0)')
    return StepByIter(args[0], args[1])

@model('Iterator::take_while')
def m_take_while(I, c, args, fr):
    return TakeWhileIter(args[0], args[1])

@model('Iterator::skip_while')
def m_skip_while(I, c, args, fr):
    return SkipWhileIter(args[0], args[1])

@model('Iterator::cloned', 'Iterator::copied')
def m_cloned(I, c, args, fr):
    return ClonedIter(args[0])

@model('Iterator::flatten')
def m_flatten(I, c, args, fr):
    return FlatIter(args[0])

@model('Iterator::flat_map')
def m_flat_map(I, c, args, fr):
    return FlatIter(args[0], args[1])

@model('Iterator::by_ref')
def m_by_ref(I, c, args, fr):
    return args[0]

@model('Iterator::fuse')
def m_fuse(I, c, args, fr):
    return args[0]

@model('iter::once')
def m_once(I, c, args, fr):
    return OnceIter(args[0])

@model('iter::empty')
def m_empty(I, c, args, fr):
    return ListIter([], 'val')

@model('Iterator::count')
def m_count(I, c, args, fr):
    n = 0
    it = args[0]
    while iter_next(I, it) is not STOP:
        n += 1
    return n

@model('Iterator::last')
def m_last(I, c, args, fr):
    last = STOP
    while True:
        x = iter_next(I, args[0])
        if x is STOP:
            break
        last = x
    return none() if last is STOP else some(last)

@model('Iterator::nth')
def m_nth(I, c, args, fr):
    it = args[0]
    # a repo override of nth takes precedence (resolved statically before models are consulted)
    for _ in range(args[1]):
        if iter_next(I, it) is STOP:
            return none()
    x = iter_next(I, it)
    return none() if x is STOP else some(x)

@model('Iterator::sum')
def m_sum(I, c, args, fr):
    t = resolve_targ(c, fr)
    bits = int_info(type_str(t))[0] if t is not None and int_info(type_str(t)) else 64
    acc = 0
    for x in drain(I, args[0]):
        x = deref(x)
        if is_sym(acc) or is_sym(x):
            A = bv(acc, bits); B = bv(x, bits)
            if I.ctx.decide(z3.Not(z3.BVAddNoOverflow(A, B, False))):
                raise Panic('attempt to add with overflow (Iterator::sum)')
            acc = simp(A + B)
        else:
            acc += x
            if acc >= 1 << bits:
                raise Panic('attempt to add with overflow (Iterator::sum)')
    return acc

@model('Iterator::find')
def m_find(I, c, args, fr):
    it = args[0]
    while True:
        x = iter_next(I, it)
        if x is STOP:
            return none()
        if I.ctx.decide(I.call_value(args[1], [ref_to(x)])):
            return some(x)

@model('Iterator::find_map')
def m_find_map(I, c, args, fr):
    it = args[0]
    while True:
        x = iter_next(I, it)
        if x is STOP:
            return none()
        r = I.call_value(args[1], [x])
        if r.variant == 'Some':
            return r

@model('Iterator::position')
def m_position(I, c, args, fr):
    it = args[0]
    n = 0
    while True:
        x = iter_next(I, it)
        if x is STOP:
            return none()
        if I.ctx.decide(I.call_value(args[1], [x])):
            return some(n)
        n += 1

@model('Iterator::rposition')
def m_rposition(I, c, args, fr):
    it = py_iter(args[0])
    n = iter_size(it)
    while True:
        x = iter_next_back(I, it)
        if x is STOP:
            return none()
        n -= 1
        if I.ctx.decide(I.call_value(args[1], [x])):
            return some(n)

@model('Iterator::any')
def m_any(I, c, args, fr):
    it = args[0]
    while True:
        x = iter_next(I, it)
        if x is STOP:
            return False
        if I.ctx.decide(I.call_value(args[1], [x])):
            return True

@model('Iterator::all')
def m_all(I, c, args, fr):
    it = args[0]
    while True:
        x = iter_next(I, it)
        if x is STOP:
            return True
        if not I.ctx.decide(I.call_value(args[1], [x])):
            return False

@model('Iterator::for_each')
def m_for_each(I, c, args, fr):
    for x in drain_lazy(I, args[0]):
        I.call_value(args[1], [x])
    return UNIT

def drain_lazy(I, it):
    while True:
        x = iter_next(I, it)
        if x is STOP:
            return
        yield x

@model('Iterator::fold')
def m_fold(I, c, args, fr):
    acc = args[1]
    for x in drain_lazy(I, args[0]):
        acc = I.call_value(args[2], [acc, x])
    return acc

def _try_kind(c, fr, i):
    t = resolve_targ(c, fr, i)
    return base_name(t) if t is not None and t[0] == 'path' else None

def _try_wrap(kind, v):
    if kind == 'Result': return ok(v)
    if kind == 'Option': return some(v)
    if kind == 'ControlFlow': return Adt('ControlFlow', 'Continue', 0, [v])
    raise Unsupported('try_fold over %s' % kind)

@model('Iterator::try_fold', 'Iterator::try_for_each')
def m_try_fold(I, c, args, fr):
    # try_fold::<B, F, R>(&mut self, init, f) / try_for_each::<F, R>(&mut self, f): stop at the first residual (Err / None / Break)
    fold = c.name == 'try_fold'
    kind = _try_kind(c, fr, 2 if fold else 1)
    acc = args[1] if fold else UNIT
    f = args[2] if fold else args[1]
    it = deref(args[0]) if isinstance(args[0], Ref) else args[0]
    while True:
        x = iter_next(I, it)
        if x is STOP:
            if kind is None:
                raise Unsupported('try_fold: unknown Try type')
            return _try_wrap(kind, acc)
        r = I.call_value(f, [acc, x] if fold else [x])
        if not isinstance(r, Adt) or r.ty not in ('Result', 'Option', 'ControlFlow'):
            raise Unsupported('try_fold over %s' % short(r))
        kind = r.ty
        if r.variant in ('Err', 'None', 'Break'):
            return r
        acc = r.fields[0]

@model('Iterator::max', 'Iterator::min')
def m_iter_max(I, c, args, fr):
    best = STOP
    for x in drain_lazy(I, args[0]):
        if best is STOP:
            best = x
        else:
            r = val_cmp(I, x, best)
            if (c.name == 'max' and r >= 0) or (c.name == 'min' and r < 0):
                best = x
    return none() if best is STOP else some(best)

@model('Iterator::collect')
def m_collect(I, c, args, fr):
    t = resolve_targ(c, fr)
    return collect_into(I, args[0], t, fr)

@model('FromIterator::from_iter')
def m_from_iter(I, c, args, fr):
    t = subst(c.qself, fr.env) if fr is not None and fr.env else c.qself
    return collect_into(I, into_iter(I, args[0]), t, fr)

def collect_into(I, it, t, fr):
    if t is None:
        raise Unsupported('collect without target type')
    b = base_name(t)
    if b == 'Vec':
        return VecObj(drain(I, it))
    if b == 'String':
        s = StrBuf([])
        for x in drain_lazy(I, it):
            x = deref(x) if isinstance(x, Ref) else x
            if isinstance(x, (SliceRef, StrBuf)):
                s.b.extend(as_items(x))
            else:
                push_char(I, s.b, x)
        return s
    if b in ('HashMap', 'BTreeMap', 'HashSet', 'BTreeSet'):
        from models_coll import MapObj
        m = MapObj(b)
        for x in drain_lazy(I, it):
            if b.endswith('Map'):
                m.insert(I, x.items[0], x.items[1])
            else:
                m.insert(I, x, UNIT)
        return m
    if b == 'Result':
        inner = t[2][0]
        out = []
        for x in drain_lazy(I, it):
            if x.variant == 'Err':
                for y in out:
                    I.drop_value(y)
                I.drop_value(it)
                return x
            out.append(x.fields[0])
        return ok(collect_into(I, ListIter(out, 'val'), inner, fr))
    if b == 'Option':
        inner = t[2][0]
        out = []
        for x in drain_lazy(I, it):
            if x.variant == 'None':
                return none()
            out.append(x.fields[0])
        return some(collect_into(I, ListIter(out, 'val'), inner, fr))
    if b == 'Box' and t[2] and t[2][0][0] == 'slice':
        return BoxObj(Array(drain(I, it)))
    if b == 'BytesMut':
        return ByteBuf(drain(I, it))
    hit = I.prog.find_impl('FromIterator', 'from_iter', t)
    if hit:
        return I.run(hit[0].func, [it], dict(hit[1]))
    raise Unsupported('collect into ' + type_str(t))

@model('Extend::extend')
def m_extend(I, c, args, fr):
    dst = deref(args[0])
    it = into_iter(I, args[1])
    if isinstance(dst, VecObj):
        dst.v.extend(drain(I, it))
        return UNIT
    if isinstance(dst, StrBuf):
        for x in drain_lazy(I, it):
            x = deref(x) if isinstance(x, Ref) else x
            if isinstance(x, (SliceRef, StrBuf)):
                dst.b.extend(as_items(x))
            else:
                push_char(I, dst.b, x)
        return UNIT
    if isinstance(dst, ByteBuf):
        for x in drain_lazy(I, it):
            dst.b.append(deref(x))
        return UNIT
    from models_coll import MapObj
    if isinstance(dst, MapObj):
        for x in drain_lazy(I, it):
            dst.insert(I, x.items[0], x.items[1]) if isinstance(x, Tup) else dst.insert(I, x, UNIT)
        return UNIT
    raise Unsupported('extend of %s' % short(dst))

@model('Chars::as_str')
def m_chars_as_str(I, c, args, fr):
    return py_iter(args[0]).as_str()

@model('Iter::as_slice', 'IntoIter::as_slice')
def m_iter_as_slice(I, c, args, fr):
    return py_iter(args[0]).as_slice()

# ============================================================================ slices
@model('slice::len')
def m_slice_len(I, c, args, fr):
    return len(as_slice(args[0]))

@model('slice::iter')
def m_slice_iter(I, c, args, fr):
    s = as_slice(args[0])
    return ListIter(s.back, 'ref', s.lo, s.hi)

@model('slice::iter_mut')
def m_slice_iter_mut(I, c, args, fr):
    s = as_slice(args[0])
    return ListIter(s.back, 'ref', s.lo, s.hi)

@model('slice::first', 'slice::last', 'slice::first_mut', 'slice::last_mut')
def m_slice_first(I, c, args, fr):
    s = as_slice(args[0])
    if len(s) == 0:
        return none()
    i = s.lo if c.name.startswith('first') else s.hi - 1
    return some(Ref(ListLoc(s.back, i)))

@model('slice::get', 'slice::get_mut')
def m_slice_get(I, c, args, fr):
    s = as_slice(args[0])
    i = args[1]
    if isinstance(i, Adt):
        r = range_bounds(i, len(s))
        if r is None:
            return none()
        return some(s.sub(r[0], r[1]))
    if is_sym(i):
        raise Unsupported('symbolic slice index')
    if 0 <= i < len(s):
        return some(Ref(ListLoc(s.back, s.lo + i)))
    return none()

@model('slice::contains')
def m_slice_contains(I, c, args, fr):
    s = as_slice(args[0])
    return b_or(*[val_eq(I, x, args[1]) for x in s.items()])

@model('slice::to_vec', 'slice::to_owned')
def m_slice_to_vec(I, c, args, fr):
    return VecObj([deep_clone(x) for x in as_slice(args[0]).items()])

@model('slice::split_first', 'slice::split_last')
def m_split_first(I, c, args, fr):
    s = as_slice(args[0])
    if len(s) == 0:
        return none()
    if c.name == 'split_first':
        return some(Tup([Ref(ListLoc(s.back, s.lo)), s.sub(1, len(s))]))
    return some(Tup([Ref(ListLoc(s.back, s.hi - 1)), s.sub(0, len(s) - 1)]))

@model('slice::starts_with')
def m_slice_starts_with(I, c, args, fr):
    a = as_slice(args[0]).items(); b = as_slice(args[1]).items()
    if len(b) > len(a):
        return False
    return seq_eq(a[:len(b)], b)

@model('slice::copy_from_slice', 'slice::clone_from_slice')
def m_copy_from_slice(I, c, args, fr):
    d = as_slice(args[0]); s = as_slice(args[1])
    if len(d) != len(s):
        raise Panic('source slice length does not match destination slice length')
    d.back[d.lo:d.hi] = s.items()
    return UNIT

@model('slice::fill')
def m_fill(I, c, args, fr):
    d = as_slice(args[0])
    for i in range(d.lo, d.hi):
        d.back[i] = args[1]
    return UNIT

def range_offsets(I, r, items):
    """(lo, hi) element indices of a Range* Adt of byte offsets over elements of varying byte length"""
    from interp import resolve_offset
    t = r.ty
    f = r.fields
    one = lambda x: x + 1
    lo, hi = 0, len(items)
    if t in ('RangeFrom', 'Range', 'RangeInclusive'):
        lo = resolve_offset(I, items, f[0])
    if t == 'RangeTo':
        hi = resolve_offset(I, items, f[0])
    elif t == 'Range':
        hi = resolve_offset(I, items, f[1])
    elif t == 'RangeInclusive':
        hi = resolve_offset(I, items, f[1] + 1)
    elif t == 'RangeToInclusive':
        hi = resolve_offset(I, items, f[0] + 1)
    elif t not in ('RangeFull', 'RangeFrom'):
        raise Unsupported('range type ' + t)
    if lo is None or hi is None or lo > hi:
        return None
    return lo, hi

def range_bounds(r, n):
    """(lo, hi) of a Range* Adt applied to length n, or None if out of range"""
    t = r.ty
    f = r.fields
    if t == 'RangeFull':
        lo, hi = 0, n
    elif t == 'RangeFrom':
        lo, hi = f[0], n
    elif t == 'RangeTo':
        lo, hi = 0, f[0]
    elif t == 'Range':
        lo, hi = f[0], f[1]
    elif t == 'RangeInclusive':
        lo, hi = f[0], f[1] + 1
    elif t == 'RangeToInclusive':
        lo, hi = 0, f[0] + 1
    else:
        raise Unsupported('range type ' + t)
    if is_sym(lo) or is_sym(hi):
        raise Unsupported('symbolic range bounds')
    if lo > hi or hi > n:
        return None
    return lo, hi

@model('Index::index', 'IndexMut::index_mut', 'SliceIndex::index', 'SliceIndex::index_mut')
def m_index(I, c, args, fr):
    base = deref(args[0])
    i = args[1]
    from models_coll import MapObj
    if isinstance(base, MapObj):
        r = base.get(I, i)
        if r is None:
            raise Panic('key not found in map index')
        return r
    if isinstance(base, (StrBuf, ByteBuf, VecObj, Array, SliceRef)) or (isinstance(base, Adt) and base.ty == 'Cow'):
        s = as_slice(base)
        if isinstance(i, Adt):
            if s.kind == 'str':
                items = s.items()
                total = sum_len(items)
                rb = range_bounds(i, total)
                if rb is None:
                    raise Panic('str slice index out of range')
                return s.sub(elem_index(items, rb[0]), elem_index(items, rb[1]))
            items = s.items()
            if has_wide(items) or any(is_sym(f) for f in i.fields):
                rb = range_offsets(I, i, items)
                if rb is None:
                    raise Panic('range index out of range for slice')
                return s.sub(rb[0], rb[1])
            rb = range_bounds(i, len(s))
            if rb is None:
                raise Panic('range end index out of range for slice of length %d' % len(s))
            return s.sub(rb[0], rb[1])
        if is_sym(i):
            raise Unsupported('symbolic index')
        if not 0 <= i < len(s):
            raise Panic('index out of bounds: the len is %d but the index is %d' % (len(s), i))
        return Ref(ListLoc(s.back, s.lo + i))
    raise Unsupported('Index::index on %s' % short(base))

def sum_len(items):
    from interp import elem_len
    return sum(elem_len(x) for x in items)

@model('str::get')
def m_str_get(I, c, args, fr):
    s = as_slice(args[0])
    items = s.items()
    rb = range_bounds(args[1], sum_len(items))
    if rb is None:
        return none()
    try:
        return some(s.sub(elem_index(items, rb[0]), elem_index(items, rb[1])))
    except Panic:
        return none()

@model('str::split', 'str::splitn')
def m_str_split(I, c, args, fr):
    if c.name == 'splitn':
        return SplitIter(as_slice(args[0]), deref(args[2]), args[1])
    return SplitIter(as_slice(args[0]), deref(args[1]))

@model('str::strip_prefix', 'str::strip_suffix')
def m_strip_prefix(I, c, args, fr):
    s = as_slice(args[0])
    pv = deref(args[1])
    p = pv.items() if isinstance(pv, SliceRef) else [pv]
    items = s.items()
    if len(p) > len(items):
        return none()
    if c.name == 'strip_prefix':
        if I.ctx.decide(seq_eq(items[:len(p)], p)):
            return some(s.sub(len(p), len(items)))
    else:
        if I.ctx.decide(seq_eq(items[len(items)-len(p):], p)):
            return some(s.sub(0, len(items) - len(p)))
    return none()

# ============================================================================ Vec
@model('Vec::new')
def m_vec_new(I, c, args, fr):
    return VecObj([])

@model('Vec::with_capacity')
def m_vec_with_capacity(I, c, args, fr):
    return VecObj([])

@model('Vec::push')
def m_vec_push(I, c, args, fr):
    deref(args[0]).v.append(args[1])
    return UNIT

@model('Vec::pop')
def m_vec_pop(I, c, args, fr):
    v = deref(args[0]).v
    return some(v.pop()) if v else none()

@model('Vec::len')
def m_vec_len(I, c, args, fr):
    return len(deref(args[0]).v)

@model('Vec::is_empty')
def m_vec_is_empty(I, c, args, fr):
    return len(deref(args[0]).v) == 0

@model('Vec::capacity')
def m_vec_capacity(I, c, args, fr):
    return len(deref(args[0]).v)

@model('Vec::reserve', 'Vec::reserve_exact', 'Vec::shrink_to_fit', 'String::reserve', 'String::shrink_to_fit')
def m_vec_reserve(I, c, args, fr):
    return UNIT

@model('Vec::clear')
def m_vec_clear(I, c, args, fr):
    v = deref(args[0])
    for x in v.v:
        I.drop_value(x)
    del v.v[:]
    return UNIT

@model('Vec::truncate')
def m_vec_truncate(I, c, args, fr):
    v = deref(args[0])
    for x in v.v[args[1]:]:
        I.drop_value(x)
    del v.v[args[1]:]
    return UNIT

@model('Vec::insert')
def m_vec_insert(I, c, args, fr):
    v = deref(args[0]).v
    if args[1] > len(v):
        raise Panic('insertion index out of bounds')
    v.insert(args[1], args[2])
    return UNIT

@model('Vec::remove')
def m_vec_remove(I, c, args, fr):
    v = deref(args[0]).v
    if args[1] >= len(v):
        raise Panic('removal index out of bounds')
    return v.pop(args[1])

@model('Vec::swap_remove')
def m_vec_swap_remove(I, c, args, fr):
    v = deref(args[0]).v
    i = args[1]
    if i >= len(v):
        raise Panic('swap_remove index out of bounds')
    last = v.pop()
    if i < len(v):
        x = v[i]; v[i] = last
        return x
    return last

@model('Vec::as_slice', 'Vec::as_mut_slice')
def m_vec_as_slice(I, c, args, fr):
    return as_slice(args[0])

@model('Vec::extend_from_slice')
def m_vec_extend_from_slice(I, c, args, fr):
    deref(args[0]).v.extend(deep_clone(x) for x in as_items(args[1]))
    return UNIT

@model('Vec::append')
def m_vec_append(I, c, args, fr):
    a = deref(args[0]); b = deref(args[1])
    a.v.extend(b.v); del b.v[:]
    return UNIT

@model('Vec::drain')
def m_vec_drain(I, c, args, fr):
    v = deref(args[0])
    rb = range_bounds(args[1], len(v.v))
    if rb is None:
        raise Panic('drain range out of bounds')
    items = v.v[rb[0]:rb[1]]
    del v.v[rb[0]:rb[1]]
    return ListIter(items, 'val')

@model('Vec::retain')
def m_vec_retain(I, c, args, fr):
    v = deref(args[0])
    keep = []
    for x in v.v:
        if I.ctx.decide(I.call_value(args[1], [ref_to(x)])):
            keep.append(x)
        else:
            I.drop_value(x)
    v.v[:] = keep
    return UNIT

@model('Vec::into_boxed_slice')
def m_vec_into_boxed(I, c, args, fr):
    return BoxObj(Array(args[0].v))

@model('Vec::last', 'Vec::first', 'Vec::last_mut', 'Vec::first_mut')
def m_vec_last(I, c, args, fr):
    return m_slice_first(I, c, args, fr)

@model('Vec::contains')
def m_vec_contains(I, c, args, fr):
    return m_slice_contains(I, c, args, fr)

@model('Vec::iter', 'Vec::iter_mut')
def m_vec_iter(I, c, args, fr):
    return m_slice_iter(I, c, args, fr)

@model('Vec::dedup')
def m_vec_dedup(I, c, args, fr):
    v = deref(args[0])
    out = []
    for x in v.v:
        if out and I.ctx.decide(val_eq(I, out[-1], x)):
            I.drop_value(x)
        else:
            out.append(x)
    v.v[:] = out
    return UNIT

@model('from_elem', 'vec::from_elem')
def m_from_elem(I, c, args, fr):
    return VecObj([deep_clone(args[0]) for _ in range(args[1])])

class SplitWsIter(Iter):
    """str::split_whitespace / split_ascii_whitespace: maximal runs of non-whitespace"""
    def __init__(self, s, ascii_only): self.s = s; self.i = 0; self.ascii = ascii_only
    def ws(self, x):
        if isinstance(x, WChar):
            if self.ascii:
                return False
            c = x.cp
            return z3.Or(c == 0x85, c == 0xa0, c == 0x1680, z3.And(z3.UGE(c, 0x2000), z3.ULE(c, 0x200a)), c == 0x2028,
                         c == 0x2029, c == 0x202f, c == 0x205f, c == 0x3000)
        if is_sym(x):
            if self.ascii:
                return z3.Or(x == 32, x == 9, x == 10, x == 12, x == 13)
            return z3.Or(x == 32, z3.And(z3.UGE(x, 9), z3.ULE(x, 13)))
        return x in ((32, 9, 10, 12, 13) if self.ascii else (32, 9, 10, 11, 12, 13))
    def next(self, I):
        n = len(self.s)
        while self.i < n and I.ctx.decide(self.ws(self.s.at(self.i))):
            self.i += 1
        if self.i >= n:
            return STOP
        j = self.i
        while j < n and not I.ctx.decide(self.ws(self.s.at(j))):
            j += 1
        r = self.s.sub(self.i, j)
        self.i = j
        return r

@model('str::split_whitespace', 'str::split_ascii_whitespace')
def m_split_ws(I, c, args, fr):
    return SplitWsIter(as_slice(args[0]), c.name == 'split_ascii_whitespace')

@model('str::lines')
def m_lines(I, c, args, fr):
    raise Unsupported('str::lines')

@model('slice::strip_prefix', 'slice::strip_suffix')
def m_slice_strip(I, c, args, fr):
    s = as_slice(args[0])
    p = as_items(args[1])
    items = s.items()
    if len(p) > len(items):
        return none()
    if c.name == 'strip_prefix':
        if I.ctx.decide(b_and(*[val_eq(I, x, y) for x, y in zip(items[:len(p)], p)])):
            return some(s.sub(len(p), len(items)))
    else:
        if I.ctx.decide(b_and(*[val_eq(I, x, y) for x, y in zip(items[len(items)-len(p):], p)])):
            return some(s.sub(0, len(items) - len(p)))
    return none()

@model('slice::ends_with')
def m_slice_ends_with(I, c, args, fr):
    a = as_slice(args[0]).items(); b = as_slice(args[1]).items()
    if len(b) > len(a):
        return False
    return b_and(*[val_eq(I, x, y) for x, y in zip(a[len(a)-len(b):], b)])

@model('slice::split_at', 'slice::split_at_mut')
def m_slice_split_at(I, c, args, fr):
    s = as_slice(args[0])
    k = args[1]
    if k > len(s):
        raise Panic('mid > len')
    return Tup([s.sub(0, k), s.sub(k, len(s))])

@model('slice::reverse')
def m_slice_reverse(I, c, args, fr):
    s = as_slice(args[0])
    s.back[s.lo:s.hi] = s.back[s.lo:s.hi][::-1]
    return UNIT

@model('slice::concat', 'slice::join')
def m_slice_join(I, c, args, fr):
    parts = as_slice(args[0]).items()
    sep = as_items(args[1]) if len(args) > 1 else []
    out = []
    for i, p in enumerate(parts):
        if i:
            out.extend(sep)
        out.extend(as_items(p))
    return StrBuf(out)

def _iter_cmp(I, a, b):
    while True:
        x = iter_next(I, a); y = iter_next(I, b)
        if x is STOP and y is STOP:
            return 0
        if x is STOP:
            return -1
        if y is STOP:
            return 1
        r = val_cmp(I, x, y)
        if r != 0:
            return r

def _into_iter(I, v):
    it = v
    if not isinstance(it, Iter):
        it = MODELS['IntoIterator::into_iter'](I, None, [v], None)
    return it

@model('Iterator::cmp')
def m_iter_cmp(I, c, args, fr):
    return ordering(_iter_cmp(I, args[0], _into_iter(I, args[1])))

@model('Iterator::partial_cmp')
def m_iter_partial_cmp(I, c, args, fr):
    return some(ordering(_iter_cmp(I, args[0], _into_iter(I, args[1]))))

@model('Iterator::eq', 'Iterator::ne')
def m_iter_eq(I, c, args, fr):
    a = args[0]; b = _into_iter(I, args[1])
    while True:
        x = iter_next(I, a); y = iter_next(I, b)
        if x is STOP or y is STOP:
            r = x is STOP and y is STOP
            return r if c.name == 'eq' else not r
        if not I.ctx.decide(val_eq(I, x, y)):
            return c.name != 'eq'

@model('Iterator::lt', 'Iterator::le', 'Iterator::gt', 'Iterator::ge')
def m_iter_lt(I, c, args, fr):
    r = _iter_cmp(I, args[0], _into_iter(I, args[1]))
    return {'lt': r < 0, 'le': r <= 0, 'gt': r > 0, 'ge': r >= 0}[c.name]

class MapWhileIter(Iter):
    """Iterator::map_while: yields f(x) while it is Some; the first element mapped to None is consumed (and dropped)"""
    def __init__(self, inner, f): self.inner = inner; self.f = f; self.done = False
    def next(self, I):
        if self.done:
            return STOP
        x = iter_next(I, self.inner)
        if x is STOP:
            return STOP
        r = I.call_value(self.f, [x])
        if r.variant == 'Some':
            return r.fields[0]
        self.done = True
        return STOP
    def size(self): return None
    def on_drop(self, I): I.drop_value(self.inner)

@model('Iterator::map_while')
def m_map_while(I, c, args, fr):
    return MapWhileIter(args[0], args[1])

class ScanIter(Iter):
    def __init__(self, inner, st, f): self.inner = inner; self.st = ValLoc(st); self.f = f; self.done = False
    def next(self, I):
        if self.done:
            return STOP
        x = iter_next(I, self.inner)
        if x is STOP:
            return STOP
        r = I.call_value(self.f, [Ref(self.st), x])
        if r.variant == 'Some':
            return r.fields[0]
        self.done = True
        return STOP
    def size(self): return None

@model('Iterator::scan')
def m_scan(I, c, args, fr):
    return ScanIter(args[0], args[1], args[2])

class InspectIter(Iter):
    def __init__(self, inner, f): self.inner = inner; self.f = f
    def next(self, I):
        x = iter_next(I, self.inner)
        if x is not STOP:
            I.call_value(self.f, [ref_to(x)])
        return x
    def size(self): return iter_size(self.inner)

@model('Iterator::inspect')
def m_inspect(I, c, args, fr):
    return InspectIter(args[0], args[1])

@model('Iterator::unzip')
def m_unzip(I, c, args, fr):
    a, b = [], []
    for x in drain_lazy(I, args[0]):
        a.append(x.items[0]); b.append(x.items[1])
    return Tup([VecObj(a), VecObj(b)])

@model('Iterator::partition')
def m_partition(I, c, args, fr):
    a, b = [], []
    for x in drain_lazy(I, args[0]):
        (a if I.ctx.decide(I.call_value(args[1], [ref_to(x)])) else b).append(x)
    return Tup([VecObj(a), VecObj(b)])

@model('Iterator::reduce')
def m_reduce(I, c, args, fr):
    acc = STOP
    for x in drain_lazy(I, args[0]):
        acc = x if acc is STOP else I.call_value(args[1], [acc, x])
    return none() if acc is STOP else some(acc)

@model('Iterator::min_by_key', 'Iterator::max_by_key')
def m_min_by_key(I, c, args, fr):
    best = STOP; bk = None
    for x in drain_lazy(I, args[0]):
        k = I.call_value(args[1], [ref_to(x)])
        if best is STOP:
            best, bk = x, k
        else:
            r = val_cmp(I, k, bk)
            if (c.name == 'max_by_key' and r >= 0) or (c.name == 'min_by_key' and r < 0):
                best, bk = x, k
    return none() if best is STOP else some(best)

# ---------------------------------------------------------------------------- sorting / de-duplication (std docs: sort is stable; the
# unstable variants may order equal elements differently - the stable order is the one modelled)
def _ord_idx(I, r):
    """-1/0/1 of an Ordering value (concrete variant or symbolic discriminant)"""
    if r.variant in ('Less', 'Equal', 'Greater'):
        return {'Less': -1, 'Equal': 0, 'Greater': 1}[r.variant]
    v = r.vidx
    if is_sym(v):
        v = I.ctx.concretize(v, 'ordering')
    return -1 if v in (-1, 255) else v

def _insertion_sort(items, less_or_eq):
    out = []
    for x in items:
        k = len(out)
        while k > 0 and not less_or_eq(out[k - 1], x):
            k -= 1
        out.insert(k, x)
    return out

def _sort_target(args):
    s = deref(args[0])
    if isinstance(s, VecObj):
        return s.v, 0, len(s.v)
    s = as_slice(args[0])
    return s.back, s.lo, s.hi

@model('slice::sort', 'slice::sort_unstable', 'Vec::sort', 'Vec::sort_unstable')
def m_slice_sort(I, c, args, fr):
    back, lo, hi = _sort_target(args)
    back[lo:hi] = _insertion_sort(back[lo:hi], lambda a, b: val_cmp(I, a, b) <= 0)
    return UNIT

@model('slice::sort_by', 'slice::sort_unstable_by', 'Vec::sort_by', 'Vec::sort_unstable_by')
def m_slice_sort_by(I, c, args, fr):
    back, lo, hi = _sort_target(args)
    back[lo:hi] = _insertion_sort(back[lo:hi], lambda a, b: _ord_idx(I, I.call_value(args[1], [ref_to(a), ref_to(b)])) <= 0)
    return UNIT

@model('slice::sort_by_key', 'slice::sort_unstable_by_key', 'slice::sort_by_cached_key', 'Vec::sort_by_key', 'Vec::sort_unstable_by_key', 'Vec::sort_by_cached_key')
def m_slice_sort_by_key(I, c, args, fr):
    back, lo, hi = _sort_target(args)
    keyed = [(I.call_value(args[1], [ref_to(x)]), x) for x in back[lo:hi]]
    back[lo:hi] = [x for _, x in _insertion_sort(keyed, lambda a, b: val_cmp(I, a[0], b[0]) <= 0)]
    return UNIT

@model('slice::is_sorted')
def m_slice_is_sorted(I, c, args, fr):
    back, lo, hi = _sort_target(args)
    xs = back[lo:hi]
    return all(val_cmp(I, a, b) <= 0 for a, b in zip(xs, xs[1:]))

@model('Vec::dedup_by_key')
def m_vec_dedup_by_key(I, c, args, fr):
    v = deref(args[0])
    out = []; lastk = None
    for x in v.v:
        k = I.call_value(args[1], [ref_to(x)])
        if out and I.ctx.decide(val_eq(I, lastk, k)):
            I.drop_value(x)
        else:
            out.append(x); lastk = k
    v.v[:] = out
    return UNIT

@model('Vec::dedup_by')
def m_vec_dedup_by(I, c, args, fr):
    v = deref(args[0])
    out = []
    for x in v.v:
        # same_bucket(a, b): a is the current element, b the previous retained one
        if out and I.ctx.decide(I.call_value(args[1], [ref_to(x), ref_to(out[-1])])):
            I.drop_value(x)
        else:
            out.append(x)
    v.v[:] = out
    return UNIT
