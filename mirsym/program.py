"""Program index: the MIR of /repo's crates plus what has to be read from the sources
(impl headers at `<impl at file:line:col>` locations, enum variant order, generic parameter names)."""
import os, re, subprocess, sys, time, hashlib
import mirparse
from mirparse import split_top, match_close, find_top
from rtypes import parse_type, base_name, unify, subst, type_str, strip_lifetimes, parse_callee

REPO = os.environ.get('VERIF_REPO', '/repo')
WS = os.path.join(os.path.dirname(os.path.dirname(os.path.abspath(__file__))), 'ws')

STD_ENUMS = {
    'Option': ['None', 'Some'],
    'Result': ['Ok', 'Err'],
    'Poll': ['Ready', 'Pending'],
    'ControlFlow': ['Continue', 'Break'],
    'Cow': ['Borrowed', 'Owned'],
    'Bound': ['Included', 'Excluded', 'Unbounded'],
    'Ordering': ['Less', 'Equal', 'Greater'],       # discriminants -1, 0, 1 (handled specially)
    'Err': ['Incomplete', 'Error', 'Failure'],      # nom::Err
    'Needed': ['Unknown', 'Size'],
    'Out2': ['A', 'B'], 'Out3': ['A', 'B', 'C'],       # ws/shims/tokio select! model
}

FOREIGN_ROOTS = ('std::', 'core::', 'alloc::', 'nom::', 'tokio::', 'bytes::', 'tracing::', 'ahash::')
def is_foreign_type(t):
    while t is not None and t[0] in ('ref', 'ptr'):
        t = t[2]
    return t is not None and t[0] == 'path' and t[1].startswith(FOREIGN_ROOTS)

def upvars_needed(body):
    """number of captured places the closure / coroutine body accesses: max k in `((*_1).k: T)` / `(_1.k: T)` + 1"""
    mx = -1
    def scan_place(pl):
        nonlocal mx
        base, projs = pl
        if base != '_1' and not base_alias.get(base):
            return
        ps = list(projs)
        # ((*_1).k)  or  (_1.k)  - for coroutines through the pinned reference: ((*(_1.0)).k) is copied into a local first
        i = 0
        if ps and ps[0][0] == 'deref':
            i = 1
        if i < len(ps) and ps[i][0] == 'field' and not (i + 0 < len(ps) and i > 0 and ps[i - 1][0] == 'downcast'):
            if i == 0 and base == '_1' and is_coroutine:
                return
            mx = max(mx, ps[i][1])
    is_coroutine = bool(body.argtypes and body.argtypes[0].startswith('Pin<'))
    base_alias = {}
    def walk(x):
        if isinstance(x, tuple):
            if len(x) == 2 and isinstance(x[0], str) and x[0].startswith('_') and isinstance(x[1], tuple):
                scan_place(x)
            for y in x:
                walk(y)
        elif isinstance(x, list):
            for y in x:
                walk(y)
    for bb, (stmts, term, cl) in body.blocks.items():
        for s in stmts:
            # coroutine: `_25 = copy (_1.0: &mut {async ...})` makes _25 an alias of the state pointer
            if is_coroutine and s[0] == 'assign' and s[2][0] == 'use' and s[2][1][0] in ('copy', 'move') and s[2][1][1][0] == '_1' and not s[1][1]:
                base_alias[s[1][0]] = True
    for bb, (stmts, term, cl) in body.blocks.items():
        walk(stmts); walk(term)
    return mx + 1

def count_uses(f, local):
    n = 0
    def walk(x, top):
        nonlocal n
        if isinstance(x, tuple):
            if len(x) == 2 and x[0] == local and isinstance(x[1], tuple):
                n += 1
            for y in x:
                walk(y, False)
        elif isinstance(x, list):
            for y in x:
                walk(y, False)
        elif x == local:
            n += 1
    for bb, (stmts, term, cl) in f.blocks.items():
        for s in stmts:
            if s[0] == 'assign':
                if s[1][0] == local and not s[1][1]:
                    walk(s[2], False)
                    continue
                walk(s[1], False); walk(s[2], False)
            else:
                walk(s, False)
        walk(term, False)
    return n - 0

def rtypes_str(t):
    return type_str(t) if t is not None else ''

class ImplFn:
    __slots__ = ('func', 'trait', 'trait_args', 'self_pat', 'params', 'method', 'fn_params', 'header')
    def __repr__(self):
        return '<ImplFn %s for %s :: %s>' % (self.trait, type_str(self.self_pat) if self.self_pat else '?', self.method)

def strip_comments(src):
    src = re.sub(r'//[^\n]*', '', src)
    src = re.sub(r'/\*.*?\*/', '', src, flags=re.S)
    return src

def balanced_angle(s, i):
    """s[i] == '<' -> index after the matching '>'"""
    depth = 0
    j = i
    while j < len(s):
        c = s[j]
        if c == '<':
            depth += 1
        elif c == '>' and s[j-1] not in '-=':
            depth -= 1
            if depth == 0:
                return j + 1
        j += 1
    raise ValueError('unbalanced <')

def generic_names(gen):
    """'<'a, A: X, const N: usize>' -> (['A', 'N'])   (lifetimes dropped)"""
    out = []
    for p in split_top(gen[1:-1]):
        p = p.strip()
        if not p or p.startswith("'"):
            continue
        if p.startswith('const '):
            p = p[6:]
        mm = re.match(r'\w+', p)
        if mm:
            out.append(mm.group(0))
    return out

class Program:
    def __init__(self):
        self.funcs = {}          # name -> Func (unique names)
        self.multi = {}          # name -> [Func]  (macro-generated duplicates)
        self.const_multi = {}    # const name -> [Func] in textual order
        self.enums = {}          # enum name -> [variants]   (repo enums; on name collision: list of lists)
        self.structs = set()
        self.impl_methods = {}   # (trait or None, method) -> [ImplFn]
        self.free = {}           # last segment -> [(segments tuple, Func)]
        self.closures = {}       # closure location text -> Func
        self.consts = {}         # name suffix -> Func/const
        self.sources = {}
        self.dump_seconds = 0.0
        self.mir_files = {}
        self.src_hash = ''
        self.traits = {}         # trait name -> set(methods declared in repo)
        self.ctor_fns = {}
        self.defmods = {}

    # ------------------------------------------------------------------ MIR dump
    def dump_mir(self, scratch, crates=('mpd_protocol', 'mpd_client'), target=None):
        t0 = time.time()
        env = dict(os.environ)
        env['CARGO_TARGET_DIR'] = target or os.path.join(scratch, 'ws-target')
        env['CARGO_NET_OFFLINE'] = 'true'
        env.pop('RUSTFLAGS', None)
        for crate in crates:
            out = os.path.join(scratch, crate + '.mir')
            cmd = ['cargo', '+nightly', 'rustc', '--offline', '-p', crate, '--lib']
            if crate == 'mpd_protocol':
                cmd += ['--features', 'async']
            elif getattr(self, 'features', None):
                cmd += ['--features', ','.join(self.features)]
            cmd += ['--', '-Zunpretty=mir', '-C', 'debug-assertions=on', '-Zub-checks=no', '-C', 'overflow-checks=on']
            with open(out, 'w') as fo:
                r = subprocess.run(cmd, cwd=WS, env=env, stdout=fo, stderr=subprocess.PIPE, text=True)
            if r.returncode != 0 or os.path.getsize(out) == 0:
                sys.stderr.write(r.stderr[-4000:])
                raise RuntimeError('MIR dump of %s failed (the repository does not build against the verification shims)' % crate)
            self.mir_files[crate] = out
        self.dump_seconds = time.time() - t0

    def load(self, scratch, crates=('mpd_protocol', 'mpd_client')):
        for crate in crates:
            path = self.mir_files.get(crate) or os.path.join(scratch, crate + '.mir')
            funcs, dups = mirparse.parse_mir(path, crate)
            # `const {allocN: &T}` operands refer to statics through the allocation table printed with each function
            import re as _re
            if not hasattr(self, 'alloc_static'):
                self.alloc_static = {}
            for m in _re.finditer(r'^(alloc\d+) \(static: ([\w:]+),', open(path, encoding='utf-8', errors='replace').read(), _re.M):
                self.alloc_static[(crate, m.group(1))] = m.group(2)
            for name, f in funcs.items():
                key = name
                if key in self.funcs:               # same trimmed name in both crates: qualify
                    key = crate + '::' + name
                self.funcs[key] = f
            for name, lst in dups.items():
                self.multi.setdefault(name, []).extend(lst)
        self.read_sources()
        self.finish_sources()
        self.repair_captures()
        self.index()

    # ------------------------------------------------------------------ sources
    def read_sources(self):
        h = hashlib.sha256()
        for crate in ('mpd_protocol', 'mpd_client'):
            root = os.path.join(REPO, crate, 'src')
            for dp, _, fs in os.walk(root):
                for fn in sorted(fs):
                    if fn.endswith('.rs'):
                        p = os.path.join(dp, fn)
                        txt = open(p, encoding='utf-8').read()
                        self.sources[p] = txt
                        h.update(p.encode()); h.update(txt.encode())
        self.src_hash = h.hexdigest()[:16]
        for p, txt in self.sources.items():
            src = strip_comments(txt)
            for m in re.finditer(r'\benum\s+(\w+)[^{;]*\{', src):
                k = match_close(src, m.end() - 1)
                body = src[m.end():k]
                variants = []
                for part in split_top(body):
                    part = re.sub(r'#\[[^\]]*\]', '', part).strip()
                    mm = re.match(r'(\w+)', part)
                    if mm:
                        variants.append(mm.group(1))
                self.enums.setdefault(m.group(1), []).append(variants)
            modname = os.path.basename(os.path.dirname(p)) if p.endswith('mod.rs') else os.path.basename(p)[:-3]
            for m in re.finditer(r'\b(?:struct|enum)\s+(\w+)', src):
                self.defmods.setdefault(m.group(1), set()).add(modname)
            for m in re.finditer(r'\bstruct\s+(\w+)', src):
                self.structs.add(m.group(1))
            for m in re.finditer(r'\btrait\s+(\w+)[^{;]*\{', src):
                k = match_close(src, m.end() - 1)
                self.traits.setdefault(m.group(1), set()).update(re.findall(r'\bfn\s+(\w+)', src[m.end():k]))

    def finish_sources(self):
        import rtypes
        rtypes.AMBIG.clear()
        for n, mods in self.defmods.items():
            if len(mods) > 1:
                rtypes.AMBIG[n] = set(mods)

    def span_text(self, loc):
        """'FILE:L:C: L2:C2' -> source text of the span"""
        m = re.match(r'^(.*):(\d+):(\d+): (\d+):(\d+)$', loc)
        if not m:
            return None
        path = m.group(1)
        if not path.startswith('/'):
            path = os.path.join(REPO, path)
        txt = self.sources.get(path)
        if txt is None:
            return None
        lines = txt.split('\n')
        l1, c1, l2, c2 = int(m.group(2)), int(m.group(3)), int(m.group(4)), int(m.group(5))
        if l1 == l2:
            return lines[l1-1][c1-1:c2-1]
        parts = [lines[l1-1][c1-1:]] + lines[l1:l2-1] + [lines[l2-1][:c2-1]]
        return '\n'.join(parts)

    def text_after(self, loc, limit=20000):
        m = re.match(r'^(.*):(\d+):(\d+): (\d+):(\d+)$', loc)
        path = m.group(1)
        if not path.startswith('/'):
            path = os.path.join(REPO, path)
        txt = self.sources.get(path)
        lines = txt.split('\n')
        l1, c1 = int(m.group(2)), int(m.group(3))
        return ('\n'.join([lines[l1-1][c1-1:]] + lines[l1:]))[:limit]

    def variant_index(self, enum, variant):
        if enum == 'Ordering':
            if variant in ('Less', 'Equal', 'Greater'):
                return {'Less': -1, 'Equal': 0, 'Greater': 1}[variant]
            return {'Relaxed': 0, 'Release': 1, 'Acquire': 2, 'AcqRel': 3, 'SeqCst': 4}.get(variant)
        if enum in self.enums:
            for vs in self.enums[enum]:
                if variant in vs:
                    return vs.index(variant)
        if enum in STD_ENUMS and variant in STD_ENUMS[enum]:
            return STD_ENUMS[enum].index(variant)
        return None

    def is_variant(self, enum, variant):
        return self.variant_index(enum, variant) is not None

    # ------------------------------------------------------------------ index
    def all_funcs(self):
        for f in self.funcs.values():
            yield f
        for lst in self.multi.values():
            for f in lst[1:]:
                yield f

    def repair_captures(self):
        """rustc's MIR pretty printer zips the operands of a closure / coroutine aggregate with the names of the captured
        *variables*; when one variable is captured through several places (disjoint field captures) the text shows fewer
        operands than the body uses.  The missing operands are the temporaries assigned right before the aggregate that
        are used nowhere else; if they cannot be identified the aggregate is marked and executing it is inconclusive."""
        by_loc = {}
        for f in self.all_funcs():
            if f.argtypes:
                m = re.search(r'\{(?:closure|async block|async closure|coroutine)@([^}]*)\}', f.argtypes[0])
                if m:
                    by_loc[m.group(1).replace(' (#0)', '')] = f
        self.body_by_loc = by_loc
        for f in self.all_funcs():
            for bb, (stmts, term, cl) in f.blocks.items():
                for si, s in enumerate(stmts):
                    if s[0] != 'assign' or s[2][0] not in ('closure', 'coroutine'):
                        continue
                    rv = s[2]
                    loc = rv[1][rv[1].index('@') + 1:-1].replace(' (#0)', '')
                    body = by_loc.get(loc)
                    if body is None and rv[0] == 'coroutine':
                        body = self.funcs.get(f.name + '::{closure#0}')
                    if body is None:
                        continue
                    need = upvars_needed(body)
                    have = len(rv[2])
                    if need <= have:
                        continue
                    used = set(o[1][0] for _, o in rv[2] if o[0] in ('copy', 'move'))
                    cands = []
                    for t in reversed(stmts[:si]):
                        if t[0] != 'assign' or t[1][1]:
                            break
                        if t[1][0] in used:
                            continue
                        cands.append(t[1][0])
                    cands.reverse()
                    cands = [c for c in cands if count_uses(f, c) == 0]
                    missing = need - have
                    if len(cands) >= missing:
                        extra = cands[-missing:] if False else cands[:missing]
                        fields = list(rv[2]) + [('?', ('move', (c, ()))) for c in extra]
                        stmts[si] = ('assign', s[1], (rv[0], rv[1], fields))
                    else:
                        stmts[si] = ('assign', s[1], (rv[0], rv[1], list(rv[2]) + [('?', ('const', '!missing-capture'))] * missing))

    def disambiguate_closures(self, closures_by_loc):
        """closures created by one macro expanded several times share their source location: the k-th closure aggregate of that
        location inside a function (textual order) is the function's k-th closure body of that location"""
        for loc, fs in closures_by_loc.items():
            if len(fs) < 2:
                continue
            parents = {}
            for f in fs:
                m = re.match(r'^(.*)::\{closure#(\d+)\}$', f.name)
                if m:
                    parents.setdefault(m.group(1), []).append((int(m.group(2)), f))
            for pname, bodies in parents.items():
                bodies.sort(key=lambda x: x[0])
                cands = [g for g in self.all_funcs() if g.name == pname]
                for g in cands:
                    k = 0
                    for bb in sorted(g.blocks, key=lambda b: int(b[2:])):
                        stmts = g.blocks[bb][0]
                        for si, st in enumerate(stmts):
                            if st[0] == 'assign' and st[2][0] == 'closure' and st[2][1].startswith('{closure@' + loc + '}'):
                                if k < len(bodies):
                                    tag = '%s#%d' % (loc, bodies[k][0])
                                    self.closures[tag] = bodies[k][1]
                                    stmts[si] = ('assign', st[1], ('closure', '{closure@' + tag + '}', st[2][2]))
                                k += 1

    def index(self):
        closures_by_loc = {}
        impl_cache = {}
        for f in self.all_funcs():
            name = f.name
            m = re.search(r'<impl at ([^>]*)>::(\w+)((?:::\{closure#\d+\})*)$', name)
            mc = re.search(r'\{closure#\d+\}$', name)
            if f.kind == 'fn' and mc and f.argtypes:
                t = f.argtypes[0]
                mm = re.search(r'\{closure@([^}]*)\}', t)
                if mm and not t.startswith('Pin<'):
                    self.closures[mm.group(1)] = f
                    closures_by_loc.setdefault(mm.group(1), []).append(f)
            if f.kind == 'const':
                self.const_multi.setdefault(name, []).append(f)
                self.consts.setdefault(name, f)
                if m and not m.group(3):
                    # associated constant of an inherent impl: also reachable as `Type::NAME` (how MIR operands name it)
                    loc = m.group(1)
                    if loc not in impl_cache:
                        impl_cache[loc] = self.parse_impl_header(loc)
                    sp = impl_cache[loc][2]
                    if sp is not None and sp[0] == 'path':
                        mod = name.split('::<impl at')[0]
                        self.consts.setdefault((mod + '::' if mod else '') + sp[1].split('::')[-1] + '::' + m.group(2), f)
                continue
            if m and not m.group(3):
                loc = m.group(1)
                method = m.group(2)
                if loc not in impl_cache:
                    impl_cache[loc] = self.parse_impl_header(loc)
                trait, trait_args, self_pat, params, htext = impl_cache[loc]
                e = ImplFn()
                e.func = f; e.trait = trait; e.trait_args = trait_args; e.params = params; e.method = method
                e.header = htext
                if self_pat is None:
                    self_pat = self.self_from_header(f)
                    if params == ('$macro',):
                        e.params = tuple(sorted(set(re.findall(r'\b[A-Z]\b', rtypes_str(self_pat)))))
                if self_pat is not None and self_pat[0] == 'path' and '::' not in self_pat[1]:
                    import rtypes
                    if self_pat[1] in rtypes.AMBIG:
                        mod = name.split('::<impl at')[0].split('::')[-1]
                        if mod:
                            self_pat = ('path', mod + '::' + self_pat[1], self_pat[2])
                e.self_pat = self_pat
                e.fn_params = self.fn_generics(self.text_after(loc), method, f)
                self.impl_methods.setdefault((trait, method), []).append(e)
            elif not m and not mc and '{' not in name:
                segs = tuple(s for s in re.sub(r'<[^<>]*>', '', name).split('::') if s)
                self.free.setdefault(segs[-1], []).append((segs, f))
        self.disambiguate_closures(closures_by_loc)

    def self_from_header(self, f):
        """Self type of a method from the MIR header when the source header cannot tell (macros, derives)"""
        if f.argtypes:
            t = parse_type(f.argtypes[0])
            while t[0] == 'ref':
                t = t[2]
            return t
        if f.ret:
            t = parse_type(f.ret)
            if t[0] == 'path' and base_name(t) in ('Result', 'Option') and t[2]:
                t = t[2][0]
            return t
        return None

    def parse_impl_header(self, loc):
        txt = self.span_text(loc)
        if txt is None:
            return (None, (), None, (), '')
        t = ' '.join(strip_comments(txt).split())
        if not t.startswith('impl'):
            # derive: the span is the derive's trait name
            return (t.strip(), (), None, (), t)
        rest = t[4:].strip()
        params = ()
        if '$' in t:
            # macro-generated impl: only the trait name can be read from the source
            mm = re.search(r'(\w+)(?:<[^$]*>)? for ', t)
            return (mm.group(1) if mm else None, (), None, ('$macro',), t)
        if rest.startswith('<'):
            k = balanced_angle(rest, 0)
            params = tuple(generic_names(rest[:k]))
            rest = rest[k:].strip()
        w = find_top(rest, ' where ')
        if w >= 0:
            rest = rest[:w]
        if rest.endswith(' where'):
            rest = rest[:-6]
        f = find_top(rest, ' for ')
        trait = None
        trait_args = ()
        if f >= 0:
            tr = parse_type(rest[:f].strip().lstrip('!'))
            trait = base_name(tr) if tr[0] == 'path' else rest[:f].strip()
            trait_args = tr[2] if tr[0] == 'path' else ()
            selft = rest[f+5:].strip()
        else:
            selft = rest.strip()
        if '$' in selft or '$' in (trait or ''):
            return (trait if trait and '$' not in trait else None, trait_args, None, params, t)
        return (trait, trait_args, parse_type(selft), params, t)

    def fn_generics(self, text_after, method, f):
        """names of the generic parameters declared on `fn method<...>` (searching the source after the impl)"""
        m = re.search(r'\bfn\s+%s\s*(<)?' % re.escape(method), text_after)
        names = []
        if m and m.group(1):
            k = balanced_angle(text_after, m.end() - 1)
            names = generic_names(text_after[m.end()-1:k])
        return tuple(names)

    def free_fn_generics(self, f):
        nm = f.name.split('::')[-1]
        for p, txt in self.sources.items():
            if ('/' + (f.crate or '') + '/') not in p:
                continue
            m = re.search(r'\bfn\s+%s\s*<' % re.escape(nm), txt)
            if m:
                k = balanced_angle(txt, m.end() - 1)
                return tuple(generic_names(txt[m.end()-1:k]))
        return ()

    # ------------------------------------------------------------------ lookup
    def find_free(self, segs, crate=None):
        """segs: tuple of path segment names (generics stripped).  Longest-suffix match on repo free fns; between equally good
        matches the one in the caller's crate wins (MIR prints crate-local paths: `field_value` exists in both crates' namespaces)."""
        cands = self.free.get(segs[-1])
        if not cands:
            return None
        if crate is not None:
            cands = sorted(cands, key=lambda x: 0 if getattr(x[1], 'crate', None) == crate else 1)
        best = None
        for fsegs, f in cands:
            n = min(len(fsegs), len(segs))
            if fsegs[-n:] == segs[-n:]:
                # all of the shorter path must match; crate prefix of the longer one is free
                extra = segs[:-n] if len(segs) > n else fsegs[:-n]
                if all(e in ('mpd_protocol', 'mpd_client', 'crate', 'self', 'super') or True for e in extra):
                    if best is None or n > best[0]:
                        best = (n, f)
        return best[1] if best else None

    def find_impl(self, trait, method, self_t, trait_args=()):
        """first repo impl of `trait::method` (trait None = inherent) whose Self pattern unifies with self_t"""
        out = []
        foreign = is_foreign_type(self_t)
        if foreign and trait is None:
            return None                     # the repository cannot have inherent impls of a foreign type
        for e in self.impl_methods.get((trait, method), ()):
            if e.self_pat is None:
                continue
            if foreign:
                # a trait impl for a foreign type (`impl Argument for Cow<'_, str>`): never match a repository type of the same name
                sp = e.self_pat
                while sp[0] in ('ref', 'ptr'):
                    sp = sp[2]
                if sp[0] == 'path' and sp[1] not in e.params and (base_name(sp) in self.structs or base_name(sp) in self.enums):
                    continue
            env = {}
            if not unify(e.self_pat, self_t, e.params, env):
                continue
            if trait_args and e.trait_args and len(trait_args) == len(e.trait_args):
                if not all(unify(a, b, e.params, env) for a, b in zip(e.trait_args, trait_args)):
                    continue
            out.append((e, env))
        if not out:
            return None
        if len(out) > 1:
            # prefer the most specific pattern (non-parameter Self)
            out.sort(key=lambda x: (x[0].self_pat[0] == 'path' and x[0].self_pat[1] in x[0].params))
        return out[0]

    def closure_fn(self, loc):
        return self.closures.get(loc)

    def func_by_suffix(self, suffix):
        """harness helper: unique Func whose name ends with `suffix`"""
        hits = [f for n, f in self.funcs.items() if n == suffix or n.endswith('::' + suffix) or n.endswith('>::' + suffix)]
        if len(hits) == 1:
            return hits[0]
        if not hits:
            raise KeyError('no function ' + suffix)
        raise KeyError('ambiguous function %s: %s' % (suffix, [h.name for h in hits][:5]))
