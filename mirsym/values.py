"""Runtime values of the MIR interpreter.

Scalars:  python int (bit pattern, unsigned, reduced modulo the width the context knows) or z3 BitVec;
          python bool or z3 Bool; unit = ().
Everything else is one of the classes below.  Plain aggregates (Tup, Adt) are copied on MIR `copy`;
library objects (strings, vectors, channels ...) have identity and are never copied implicitly.
"""
import z3

class Unsupported(Exception):
    """The interpreter (or a library model) cannot execute this construct: the check is inconclusive."""

class Panic(Exception):
    """The interpreted program panicked on this path."""
    def __init__(self, msg, where=None):
        Exception.__init__(self, msg)
        self.msg = msg
        self.where = where

class PathInfeasible(Exception):
    """The current path condition became unsatisfiable."""

class InternalError(Exception):
    """Interpreter invariant broken (bug in interpreter or model) - inconclusive, never an alarm."""

def is_sym(v):
    return isinstance(v, z3.ExprRef)

UNIT = ()

class Uninit:
    def __repr__(self):
        return '<uninit>'
UNINIT = Uninit()

# ------------------------------------------------------------------ locations and references
class Loc:
    """an assignable location"""
    __slots__ = ()
    def get(self): raise NotImplementedError
    def set(self, v): raise NotImplementedError

class DictLoc(Loc):
    __slots__ = ('d', 'k')
    def __init__(self, d, k): self.d = d; self.k = k
    def get(self):
        return self.d[self.k]
    def set(self, v): self.d[self.k] = v

class ListLoc(Loc):
    __slots__ = ('l', 'i')
    def __init__(self, l, i): self.l = l; self.i = i
    def get(self): return self.l[self.i]
    def set(self, v): self.l[self.i] = v

class AttrLoc(Loc):
    __slots__ = ('o', 'a')
    def __init__(self, o, a): self.o = o; self.a = a
    def get(self): return getattr(self.o, self.a)
    def set(self, v): setattr(self.o, self.a, v)

class ValLoc(Loc):
    """a fresh anonymous location holding a value (temporaries created by models)"""
    __slots__ = ('v',)
    def __init__(self, v): self.v = v
    def get(self): return self.v
    def set(self, v): self.v = v

class FnLoc(Loc):
    __slots__ = ('g', 's')
    def __init__(self, g, s=None): self.g = g; self.s = s
    def get(self): return self.g()
    def set(self, v):
        if self.s is None:
            raise InternalError('write through read-only location')
        self.s(v)

class Ref:
    """&T / &mut T / raw pointer to a sized place"""
    __slots__ = ('loc',)
    def __init__(self, loc): self.loc = loc
    def get(self): return self.loc.get()
    def set(self, v): self.loc.set(v)
    def __repr__(self):
        try:
            return '&' + repr(self.loc.get())
        except Exception:
            return '&<?>'

def ref_to(v):
    return Ref(ValLoc(v))

class SliceRef:
    """&[T] / &str / &mut [T]: fat pointer into a python list (`kind` 'str' or 'slice')"""
    __slots__ = ('back', 'lo', 'hi', 'kind')
    def __init__(self, back, lo, hi, kind):
        self.back = back; self.lo = lo; self.hi = hi; self.kind = kind
    def __len__(self): return self.hi - self.lo
    def items(self): return self.back[self.lo:self.hi]
    def at(self, i): return self.back[self.lo + i]
    def sub(self, lo, hi): return SliceRef(self.back, self.lo + lo, self.lo + hi, self.kind)
    def __repr__(self):
        return ('&str' if self.kind == 'str' else '&[]') + show_bytes(self.items())

def show_bytes(items):
    out = []
    for b in items:
        if isinstance(b, int):
            out.append(chr(b) if 32 <= b < 127 else '\\x%02x' % b)
        elif isinstance(b, (WChar, DecRun, FloatLit)):
            out.append(repr(b))
        elif is_sym(b):
            out.append('{%s}' % b)
        else:
            return repr(items)
    return '"' + ''.join(out) + '"'

def str_ref(data):
    if isinstance(data, str):
        data = data.encode()
    return SliceRef(list(data), 0, len(data), 'str')

def bytes_ref(data):
    return SliceRef(list(data), 0, len(data), 'slice')

# ------------------------------------------------------------------ string elements beyond single bytes
class WChar:
    """one non-ASCII unicode scalar value inside a string (symbolic code point), `n` UTF-8 bytes long"""
    __slots__ = ('cp', 'n')
    def __init__(self, cp, n): self.cp = cp; self.n = n
    def __repr__(self): return '{U+%s/%d}' % (self.cp, self.n)

class FloatLit:
    """the plain decimal text (digits with one '.') of a non-negative finite f64 term; no sign, no exponent"""
    __slots__ = ('val', 'lenv')
    def __init__(self, val, lenv=None): self.val = val; self.lenv = lenv          # lenv: byte length of the text as a 64-bit term (bounded by the harness)
    def __repr__(self): return '{float %s}' % (self.val,)

class DecRun:
    """the decimal rendering of an unsigned integer term: 1..20 ASCII digits, no sign"""
    __slots__ = ('val', 'bits', 'as_float')
    def __init__(self, val, bits): self.val = val; self.bits = bits; self.as_float = None
    def __repr__(self): return '{dec %s}' % (self.val,)

# ------------------------------------------------------------------ aggregates
class Tup:
    __slots__ = ('items',)
    def __init__(self, items): self.items = list(items)
    def __repr__(self): return '(' + ', '.join(map(repr, self.items)) + ')'

class Adt:
    """struct / enum value.  `vidx` is the variant index (0 for structs)."""
    __slots__ = ('ty', 'variant', 'vidx', 'fields', 'names', 'targs')
    def __init__(self, ty, variant, vidx, fields, names=None, targs=()):
        self.ty = ty; self.variant = variant; self.vidx = vidx; self.fields = list(fields); self.names = names; self.targs = targs
    def __repr__(self):
        head = self.ty + ('::' + self.variant if self.variant else '')
        if not self.fields:
            return head
        if self.names:
            return head + '{' + ', '.join('%s: %r' % (n, f) for n, f in zip(self.names, self.fields)) + '}'
        return head + '(' + ', '.join(map(repr, self.fields)) + ')'
    def field(self, name):
        return self.fields[self.names.index(name)]

def some(v): return Adt('Option', 'Some', 1, [v])
NONE = None
def none(): return Adt('Option', 'None', 0, [])
def ok(v): return Adt('Result', 'Ok', 0, [v])
def err(v): return Adt('Result', 'Err', 1, [v])
def is_some(v): return v.variant == 'Some'

class Array:
    """[T; N] by value"""
    __slots__ = ('items',)
    def __init__(self, items): self.items = list(items)
    def __repr__(self): return '[' + ', '.join(map(repr, self.items)) + ']'

class Closure:
    __slots__ = ('fn', 'upvars', 'names', 'loc')
    def __init__(self, fn, upvars, names=None, loc=None):
        self.fn = fn; self.upvars = list(upvars); self.names = names; self.loc = loc
    def __repr__(self): return '<closure %s>' % (self.fn.name if hasattr(self.fn, 'name') else self.fn)

class FnItem:
    """a function item / fn pointer value: the callee path text and the substitution at creation"""
    __slots__ = ('text', 'env', 'crate')
    def __init__(self, text, env=None, crate=None): self.text = text; self.env = env or {}; self.crate = crate
    def __repr__(self): return '<fn %s>' % self.text

class PyFn:
    """a callable implemented by the harness / a model (e.g. a nom parser object)"""
    __slots__ = ('f', 'name')
    def __init__(self, f, name='pyfn'): self.f = f; self.name = name
    def __repr__(self): return '<pyfn %s>' % self.name

class Coroutine:
    """async fn body: state machine.  state 0 = unresumed, 1 = returned, 2 = panicked, >=3 suspended"""
    __slots__ = ('fn', 'upvars', 'names', 'state', 'saved', 'env', 'tag')
    def __init__(self, fn, upvars, names, env):
        self.fn = fn; self.upvars = list(upvars); self.names = names; self.state = 0; self.saved = {}; self.env = env
        self.tag = None
    def __repr__(self): return '<coroutine %s state %d>' % (self.fn.name, self.state)

class CoroView:
    """`(*coroutine) as variant#N`"""
    __slots__ = ('co', 'variant')
    def __init__(self, co, variant): self.co = co; self.variant = variant

class Pin:
    __slots__ = ('ptr',)
    def __init__(self, ptr): self.ptr = ptr
    def __repr__(self): return 'Pin(%r)' % (self.ptr,)

class Zst:
    """a zero-sized constant of the given type text (closures without captures, fn items, markers)"""
    __slots__ = ('ty',)
    def __init__(self, ty): self.ty = ty
    def __repr__(self): return '<zst %s>' % self.ty[:60]

# ------------------------------------------------------------------ library objects (identity semantics)
class StrBuf:
    """String / Box<str> / Arc<str> contents"""
    __slots__ = ('b', 'kind')
    def __init__(self, b, kind='String'):
        self.b = list(b); self.kind = kind
    def __repr__(self): return self.kind + show_bytes(self.b)
    def as_ref(self): return SliceRef(self.b, 0, len(self.b), 'str')

class ByteBuf:
    """BytesMut / Bytes / Vec<u8> used as bytes.  `spare` = the bytes of the allocation beyond len (capacity - len): they
    keep their old contents after truncate and are what split_off(at > len) / unsplit / resize operate on"""
    __slots__ = ('b', 'kind', 'spare', 'tail_of')
    def __init__(self, b, kind='BytesMut'):
        self.b = list(b); self.kind = kind; self.spare = []; self.tail_of = None
    def __repr__(self): return self.kind + show_bytes(self.b)
    def as_ref(self): return SliceRef(self.b, 0, len(self.b), 'slice')

class VecObj:
    __slots__ = ('v',)
    def __init__(self, v): self.v = list(v)
    def __repr__(self): return 'vec' + repr(self.v)

class BoxObj:
    __slots__ = ('v', 'kind')
    def __init__(self, v, kind='Box'): self.v = v; self.kind = kind
    def __repr__(self): return '%s(%r)' % (self.kind, self.v)

class Opaque:
    """a value the models treat as a black box (Formatter, Context, io::Error ...)"""
    __slots__ = ('kind', 'data')
    def __init__(self, kind, data=None): self.kind = kind; self.data = data
    def __repr__(self): return '<%s %r>' % (self.kind, self.data)

# ------------------------------------------------------------------ copying
def copy_value(v):
    """MIR `copy`: duplicate plain aggregates, keep identity of library objects and references"""
    if isinstance(v, Tup):
        return Tup([copy_value(x) for x in v.items])
    if isinstance(v, Adt):
        return Adt(v.ty, v.variant, v.vidx, [copy_value(x) for x in v.fields], v.names, v.targs)
    if isinstance(v, Array):
        return Array([copy_value(x) for x in v.items])
    return v

def deep_clone(v):
    """`Clone::clone` of an owned value: everything owned is duplicated, Arc shares"""
    if isinstance(v, Tup):
        return Tup([deep_clone(x) for x in v.items])
    if isinstance(v, Adt):
        return Adt(v.ty, v.variant, v.vidx, [deep_clone(x) for x in v.fields], v.names, v.targs)
    if isinstance(v, Array):
        return Array([deep_clone(x) for x in v.items])
    if isinstance(v, StrBuf):
        return v if v.kind == 'Arc<str>' else StrBuf(v.b, v.kind)
    if isinstance(v, ByteBuf):
        return ByteBuf(v.b, v.kind)
    if isinstance(v, VecObj):
        return VecObj([deep_clone(x) for x in v.v])
    if isinstance(v, BoxObj):
        return v if v.kind == 'Arc' else BoxObj(deep_clone(v.v), v.kind)
    return v

# ------------------------------------------------------------------ z3 helpers
def bv(v, bits):
    if is_sym(v):
        if z3.is_bool(v):
            return z3.If(v, z3.BitVecVal(1, bits), z3.BitVecVal(0, bits))
        s = v.size()
        if s == bits:
            return v
        if s < bits:
            return z3.ZeroExt(bits - s, v)
        return z3.Extract(bits - 1, 0, v)
    if isinstance(v, bool):
        v = int(v)
    return z3.BitVecVal(v, bits)

def to_bool(v):
    if isinstance(v, bool) or z3.is_bool(v) if is_sym(v) else isinstance(v, bool):
        return v
    if is_sym(v):
        return v != 0
    return bool(v)

def b_not(a):
    if is_sym(a):
        return z3.Not(a)
    return not a

def b_and(*xs):
    out = []
    for x in xs:
        if is_sym(x):
            out.append(x)
        elif not x:
            return False
    if not out:
        return True
    return z3.And(*out) if len(out) > 1 else out[0]

def b_or(*xs):
    out = []
    for x in xs:
        if is_sym(x):
            out.append(x)
        elif x:
            return True
    if not out:
        return False
    return z3.Or(*out) if len(out) > 1 else out[0]

def int_eq(a, b):
    """equality of two scalar values (ints / bitvecs / bools)"""
    sa = is_sym(a); sb = is_sym(b)
    if not sa and not sb:
        return a == b
    if sa and z3.is_bool(a) or sb and z3.is_bool(b):
        a = a if sa else z3.BoolVal(bool(a))
        b = b if sb else z3.BoolVal(bool(b))
        if not z3.is_bool(a): a = a != 0
        if not z3.is_bool(b): b = b != 0
        return a == b
    if sa and not sb:
        b = z3.BitVecVal(b, a.size())
    elif sb and not sa:
        a = z3.BitVecVal(a, b.size())
    elif a.size() != b.size():
        n = max(a.size(), b.size())
        a = bv(a, n); b = bv(b, n)
    r = a == b
    r = z3.simplify(r)
    if z3.is_true(r):
        return True
    if z3.is_false(r):
        return False
    return r

def seq_eq(xs, ys):
    """equality of two sequences of scalar elements with concrete lengths"""
    if len(xs) != len(ys):
        return False
    conds = []
    for x, y in zip(xs, ys):
        if isinstance(x, (WChar, DecRun, FloatLit)) or isinstance(y, (WChar, DecRun, FloatLit)):
            if x is y:
                continue
            if isinstance(x, WChar) and isinstance(y, WChar) and x.n == y.n:
                conds.append(int_eq(x.cp, y.cp))
                continue
            raise Unsupported('comparison of composite string elements')
        c = int_eq(x, y)
        if c is False:
            return False
        if c is not True:
            conds.append(c)
    return b_and(*conds)
