"""Well-formed UTF-8 byte sequences (Unicode 15, Table 3-7) over byte terms, decided through a decider (forks on
symbolic bytes by byte class).  Used both as the model of core::str::from_utf8 and by the reference decoders."""
import z3
from values import is_sym

def rng(D, b, lo, hi):
    if is_sym(b):
        return D.decide(z3.And(z3.UGE(b, lo), z3.ULE(b, hi)))
    return lo <= b <= hi

def utf8_valid(D, items, segments=None):
    """segments (optional list): receives (start, length) of every scalar value"""
    i = 0
    n = len(items)
    while i < n:
        b = items[i]
        if rng(D, b, 0x00, 0x7f):
            if segments is not None: segments.append((i, 1))
            i += 1; continue
        if rng(D, b, 0xc2, 0xdf):
            need = [(0x80, 0xbf)]
        elif rng(D, b, 0xe0, 0xe0):
            need = [(0xa0, 0xbf), (0x80, 0xbf)]
        elif rng(D, b, 0xe1, 0xec) or rng(D, b, 0xee, 0xef):
            need = [(0x80, 0xbf), (0x80, 0xbf)]
        elif rng(D, b, 0xed, 0xed):
            need = [(0x80, 0x9f), (0x80, 0xbf)]
        elif rng(D, b, 0xf0, 0xf0):
            need = [(0x90, 0xbf), (0x80, 0xbf), (0x80, 0xbf)]
        elif rng(D, b, 0xf1, 0xf3):
            need = [(0x80, 0xbf), (0x80, 0xbf), (0x80, 0xbf)]
        elif rng(D, b, 0xf4, 0xf4):
            need = [(0x80, 0x8f), (0x80, 0xbf), (0x80, 0xbf)]
        else:
            return False
        for k, (lo, hi) in enumerate(need):
            if i + 1 + k >= n or not rng(D, items[i + 1 + k], lo, hi):
                return False
        if segments is not None: segments.append((i, 1 + len(need)))
        i += 1 + len(need)
    return True

def utf8_lossy_segments(D, items):
    """String::from_utf8_lossy over byte terms: list of ('ok', start, length) | ('bad', start, length) where every 'bad'
    segment is one maximal invalid subsequence (replaced by one U+FFFD) - Unicode's "substitution of maximal subparts",
    which is what std implements (Utf8Chunks)."""
    out = []
    i = 0
    n = len(items)
    while i < n:
        b = items[i]
        if rng(D, b, 0x00, 0x7f):
            out.append(('ok', i, 1)); i += 1; continue
        if rng(D, b, 0xc2, 0xdf):
            need = [(0x80, 0xbf)]
        elif rng(D, b, 0xe0, 0xe0):
            need = [(0xa0, 0xbf), (0x80, 0xbf)]
        elif rng(D, b, 0xe1, 0xec) or rng(D, b, 0xee, 0xef):
            need = [(0x80, 0xbf), (0x80, 0xbf)]
        elif rng(D, b, 0xed, 0xed):
            need = [(0x80, 0x9f), (0x80, 0xbf)]
        elif rng(D, b, 0xf0, 0xf0):
            need = [(0x90, 0xbf), (0x80, 0xbf), (0x80, 0xbf)]
        elif rng(D, b, 0xf1, 0xf3):
            need = [(0x80, 0xbf), (0x80, 0xbf), (0x80, 0xbf)]
        elif rng(D, b, 0xf4, 0xf4):
            need = [(0x80, 0x8f), (0x80, 0xbf), (0x80, 0xbf)]
        else:
            out.append(('bad', i, 1)); i += 1; continue
        good = 0
        for k, (lo, hi) in enumerate(need):
            if i + 1 + k < n and rng(D, items[i + 1 + k], lo, hi):
                good += 1
            else:
                break
        if good == len(need):
            out.append(('ok', i, 1 + good)); i += 1 + good
        else:
            out.append(('bad', i, 1 + good)); i += 1 + good
    return out
