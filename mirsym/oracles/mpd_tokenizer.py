"""Port of MPD's request tokenizer (src/util/Tokenizer.cxx, MPD 0.23) and of the line handling in front of it
(src/client/Read.cxx: the line ends at LF, trailing whitespace is stripped, the buffer is a C string, i.e. it ends at
the first NUL).  Works on lists of byte terms (python ints or z3 8-bit terms); every comparison goes through
`D.decide`, so the same code is the concrete oracle (replay) and the symbolic oracle (path forking).

    static constexpr bool valid_word_first_char(char ch) { return IsAlphaASCII(ch); }
    static constexpr bool valid_word_char(char ch) { return IsAlphaNumericASCII(ch) || ch == '_'; }
    static constexpr bool valid_unquoted_char(char ch) { return (unsigned char)ch > 0x20 && ch != '"' && ch != '\\''; }
    NextString: '"' ... '"' with backslash escaping any next char; after the closing quote: whitespace or end
"""
import z3
from values import is_sym, int_eq, b_and, b_or, b_not

class TokError(Exception):
    pass

class ConcreteDecider:
    def decide(self, c):
        if isinstance(c, bool):
            return c
        c = z3.simplify(c)
        if z3.is_true(c): return True
        if z3.is_false(c): return False
        raise ValueError('symbolic condition in concrete oracle')

def le(b, k):
    return z3.ULE(b, k) if is_sym(b) else b <= k
def ge(b, k):
    return z3.UGE(b, k) if is_sym(b) else b >= k
def between(b, lo, hi):
    return b_and(ge(b, lo), le(b, hi))
def is_ws_or_null(b):
    return le(b, 0x20)
def is_alpha(b):
    return b_or(between(b, 65, 90), between(b, 97, 122))
def is_alnum(b):
    return b_or(is_alpha(b), between(b, 48, 57))

def c_string(D, line):
    """the bytes up to the first NUL"""
    for i, b in enumerate(line):
        if D.decide(int_eq(b, 0)):
            return line[:i]
    return line

def strip_right(D, s):
    n = len(s)
    while n > 0 and D.decide(is_ws_or_null(s[n-1])):
        n -= 1
    return s[:n]

def strip_left(D, s, i):
    while i < len(s) and D.decide(is_ws_or_null(s[i])):
        i += 1
    return i

def next_word(D, s, i):
    if i >= len(s):
        return None, i
    if not D.decide(is_alpha(s[i])):
        raise TokError('Letter expected')
    j = i + 1
    while j < len(s):
        if D.decide(is_ws_or_null(s[j])):
            return s[i:j], strip_left(D, s, j + 1)
        if not D.decide(b_or(is_alnum(s[j]), int_eq(s[j], ord('_')))):
            raise TokError('Invalid word character')
        j += 1
    return s[i:j], j

def valid_unquoted(b):
    return b_and(b_not(le(b, 0x20)), b_not(int_eq(b, ord('"'))), b_not(int_eq(b, ord("'"))))

def next_unquoted(D, s, i):
    if i >= len(s):
        return None, i
    if not D.decide(valid_unquoted(s[i])):
        raise TokError('Invalid unquoted character')
    j = i + 1
    while j < len(s):
        if D.decide(is_ws_or_null(s[j])):
            return s[i:j], strip_left(D, s, j + 1)
        if not D.decide(valid_unquoted(s[j])):
            raise TokError('Invalid unquoted character')
        j += 1
    return s[i:j], j

def next_string(D, s, i):
    if i >= len(s):
        return None, i
    if not D.decide(int_eq(s[i], ord('"'))):
        raise TokError("'\"' expected")
    j = i + 1
    out = []
    while True:
        if j >= len(s):
            raise TokError("Missing closing '\"'")
        if D.decide(int_eq(s[j], ord('"'))):
            break
        if D.decide(int_eq(s[j], ord('\\'))):
            j += 1
            if j >= len(s):
                raise TokError("Missing closing '\"'")
        out.append(s[j])
        j += 1
    j += 1
    if j < len(s) and not D.decide(is_ws_or_null(s[j])):
        raise TokError("Space expected after closing '\"'")
    return out, strip_left(D, s, j)

def next_param(D, s, i):
    if i < len(s) and D.decide(int_eq(s[i], ord('"'))):
        return next_string(D, s, i)
    return next_unquoted(D, s, i)

def tokenize_line(D, line):
    """line: the bytes of one request line WITHOUT the terminating LF.  Returns [command, arg1, ...] (lists of byte
    terms) or raises TokError.  (command_process: first NextWord, then NextParam until the end.)"""
    s = c_string(D, list(line))
    s = strip_right(D, s)
    i = strip_left(D, s, 0) if False else 0
    name, i = next_word(D, s, i)
    if name is None:
        raise TokError('No command given')
    out = [name]
    while True:
        a, i = next_param(D, s, i)
        if a is None:
            return out
        out.append(a)
        if len(out) > 64:
            raise TokError('Too many arguments')

def split_lines(D, wire):
    """split a byte stream at LF; returns (complete lines, rest)"""
    lines = []
    cur = []
    for b in wire:
        if D.decide(int_eq(b, 10)):
            lines.append(cur); cur = []
        else:
            cur.append(b)
    return lines, cur
