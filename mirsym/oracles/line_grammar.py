"""Reference decoder of the MPD response grammar (written from the protocol reference, independent of the crate):

    response   := frame-lines* ( "OK\n" | "ACK [" code "@" index "] {" command? "} " message "\n" )
                | ( frame-lines* "list_OK\n" )* ... "OK\n"            (command list form)
    frame-line := key ": " value "\n"        key = [A-Za-z_-]+ , value = any bytes but LF, valid UTF-8
                | "binary: " length "\n" <length bytes> "\n"

Works on lists of byte terms through a decider (concrete or symbolic, see oracles/mpd_tokenizer.py).
decode(D, stream) -> (outcomes, consumed) with outcomes = [('response', frames, error)] ... and a final status:
  'boundary' (stream ends exactly after a response), 'partial' (inside a response), 'invalid' (malformed line met)."""
from values import is_sym, int_eq, b_and, b_or, b_not, seq_eq
from oracles.mpd_tokenizer import is_alpha, between

class Malformed(Exception):
    pass

def is_key_char(b):
    return b_or(is_alpha(b), int_eq(b, ord('_')), int_eq(b, ord('-')))

def is_digit(b):
    return between(b, 48, 57)

def starts(D, s, i, text):
    t = text if isinstance(text, (bytes, bytearray)) else text.encode()
    if i + len(t) > len(s):
        return False
    return D.decide(seq_eq(s[i:i+len(t)], list(t)))

def could_start(D, s, i, text):
    """the available bytes are a (possibly complete) prefix of text"""
    t = list(text)
    n = min(len(t), len(s) - i)
    return D.decide(seq_eq(s[i:i+n], t[:n]))

def find_lf(D, s, i):
    j = i
    while j < len(s):
        if D.decide(int_eq(s[j], 10)):
            return j
        j += 1
    return None

def number(D, s, i, maxval):
    """decimal digits at s[i:]; returns (value term or int, next index) - raises Malformed if none / too large, returns
    None if the digits run to the end of the input (incomplete)"""
    j = i
    val = 0
    while j < len(s) and D.decide(is_digit(s[j])):
        d = s[j]
        if is_sym(d) or is_sym(val):
            import z3
            from values import bv
            val = z3.simplify(bv(val, 80) * 10 + z3.ZeroExt(72, d - 48))
            if D.decide(z3.UGT(val, maxval)):
                raise Malformed('number too large')
        else:
            val = val * 10 + (d - 48)
            if val > maxval:
                raise Malformed('number too large')
        j += 1
    if j == len(s):
        return None
    if j == i:
        raise Malformed('digit expected')
    return val, j

U64 = (1 << 64) - 1

def utf8_ok(D, items):
    from oracles.utf8 import utf8_valid
    return utf8_valid(D, items)

class OutsideClaim(Exception):
    pass

def decode_line(D, s, i):
    """one protocol element starting at s[i].  Returns (kind, data, next) or None when more bytes are needed.
    kind: 'ok' | 'list_ok' | 'ack' (code, index, command or None, message) | 'binary' (payload) | 'field' (key, value)"""
    # end markers / fixed prefixes may be incomplete
    for text, kind in ((b'OK\n', 'ok'), (b'list_OK\n', 'list_ok')):
        if could_start(D, s, i, text):
            if len(s) - i < len(text):
                return None
            return kind, None, i + len(text)
    if could_start(D, s, i, b'ACK '):
        if len(s) - i < 4:
            return None
        j = i + 4
        try:
            if j >= len(s): return None
            if not D.decide(int_eq(s[j], ord('['))): raise Malformed('[')
            r = number(D, s, j + 1, U64)
            if r is None: return None
            code, j = r
            if not D.decide(int_eq(s[j], ord('@'))): raise Malformed('@')
            r = number(D, s, j + 1, U64)
            if r is None: return None
            idx, j = r
            for ch in b'] {':
                if j >= len(s): return None
                if not D.decide(int_eq(s[j], ch)): raise Malformed('] {')
                j += 1
            k = j
            while k < len(s) and D.decide(b_or(is_alpha(s[k]), int_eq(s[k], ord('_')))):
                k += 1
            if k >= len(s): return None
            cmd = s[j:k] if k > j else None
            j = k
            for ch in b'} ':
                if j >= len(s): return None
                if not D.decide(int_eq(s[j], ch)): raise Malformed('} ')
                j += 1
            e = find_lf(D, s, j)
            if e is None: return None
            msg = s[j:e]
            if not utf8_ok(D, msg): raise Malformed('utf8')
            return 'ack', (code, idx, cmd, msg), e + 1
        except Malformed:
            # an ACK-looking line that is not a well-formed error is not a field either ("ACK " has a blank in the key)
            raise
    if could_start(D, s, i, b'binary: '):
        if len(s) - i < 8:
            return None
        try:
            r = number(D, s, i + 8, (1 << 64) - 1)
        except Malformed:
            r = 'notbinary'
        if r is None:
            return None
        if r != 'notbinary':
            n, j = r
            if D.decide(int_eq(s[j], 10)):
                j += 1
                # payload of n bytes + LF
                if is_sym(n):
                    import z3
                    if D.decide(z3.UGT(n, len(s) - j)):
                        return None
                    k = 0
                    while not D.decide(n == k):
                        k += 1
                    n = k
                if len(s) - j < n + 1:
                    return None
                if not D.decide(int_eq(s[j + n], 10)):
                    raise Malformed('binary terminator')
                return 'binary', s[j:j + n], j + n + 1
        # otherwise: an ordinary field whose key happens to be "binary"
    # key: value
    k = i
    while k < len(s) and D.decide(is_key_char(s[k])):
        k += 1
    if k >= len(s):
        return None
    if k == i:
        raise Malformed('key expected')
    for ch in b': ':
        if k >= len(s): return None
        if not D.decide(int_eq(s[k], ch)): raise Malformed(': ')
        k += 1
    e = find_lf(D, s, k)
    if e is None:
        return None
    val = s[k:e]
    if not utf8_ok(D, val):
        raise Malformed('utf8')
    return 'field', (s[i:k - 2], val), e + 1

def decode(D, s):
    """returns (responses, status, consumed) - responses: list of (frames, error); frames: list of (fields, binary);
    status: 'boundary' | 'partial' | 'invalid'; consumed: index after the last complete response"""
    out = []
    i = 0
    consumed = 0
    frames = []
    cur = None           # (fields, binary) of the frame in progress
    in_list = False
    started = False      # some complete line of the current response was decoded
    while True:
        if i >= len(s):
            return out, ('boundary' if not started and i == consumed else 'partial'), consumed
        try:
            r = decode_line(D, s, i)
        except Malformed:
            return out, 'invalid', consumed
        if r is None:
            return out, 'partial', consumed
        kind, data, nxt = r
        i = nxt
        started = True
        if kind == 'field':
            if cur is None: cur = ([], None)
            cur[0].append(data)
        elif kind == 'binary':
            if cur is None: cur = ([], None)
            cur = (cur[0], data)
        elif kind == 'list_ok':
            frames.append(cur if cur is not None else ([], None))
            cur = None
            in_list = True
        elif kind == 'ok':
            if in_list:
                pass            # the frame in progress after the last list_OK is empty in a well-formed reply
            else:
                frames.append(cur if cur is not None else ([], None))
            out.append((frames, None))
            frames = []; cur = None; in_list = False; started = False; consumed = i
        elif kind == 'ack':
            out.append((frames if in_list else [], data))
            frames = []; cur = None; in_list = False; started = False; consumed = i
