"""Port of MPD's filter expression parser (src/song/Filter.cxx, MPD 0.23: SongFilter::ParseExpression, ExpectWord,
ExpectFilterType (tag-like types only), ParseStringFilter, ExpectQuoted).  Works on byte-term lists through a decider,
like oracles/mpd_tokenizer.py.  Result: ('tag', name, op, value) | ('not', t) | ('and', [t, ...]).

    static std::string ExpectQuoted(const char *&s) {
        const char quote = *s++;
        if (quote != '"' && quote != '\'') throw "Quoted string expected";
        while (*s != quote) { if (*s == '\\') ++s; if (*s == 0) throw "Closing quote not found"; buffer[length++] = *s++; }
        s = StripLeft(s + 1); ...
"""
from values import is_sym, int_eq, b_and, b_or, b_not
from oracles.mpd_tokenizer import is_alnum, is_ws_or_null, le

class FilterError(Exception):
    pass

def is_tag_name_char(b):
    return b_or(is_alnum(b), int_eq(b, ord('_')), int_eq(b, ord('-')))

class Parser:
    def __init__(self, D, s):
        self.D = D; self.s = list(s); self.i = 0
    def peek(self, k=0):
        return self.s[self.i + k] if self.i + k < len(self.s) else 0
    def at(self, ch, k=0):
        return self.D.decide(int_eq(self.peek(k), ord(ch)))
    def strip_left(self):
        while self.i < len(self.s) and self.D.decide(is_ws_or_null(self.s[self.i])):
            self.i += 1
    def expect_word(self):
        b = self.i
        while self.i < len(self.s) and self.D.decide(is_tag_name_char(self.s[self.i])):
            self.i += 1
        if self.i == b:
            raise FilterError('Word expected')
        w = self.s[b:self.i]
        self.strip_left()
        return w
    def word_is(self, w, text):
        if len(w) != len(text):
            return False
        return self.D.decide(b_and(*[int_eq(x, y) for x, y in zip(w, text.encode())]))
    def expect_quoted(self):
        q = self.peek()
        if self.at('"'):
            quote = ord('"')
        elif self.at("'"):
            quote = ord("'")
        else:
            raise FilterError('Quoted string expected')
        self.i += 1
        out = []
        while True:
            if self.i >= len(self.s):
                raise FilterError('Closing quote not found')
            if self.D.decide(int_eq(self.s[self.i], quote)):
                break
            if self.D.decide(int_eq(self.s[self.i], ord('\\'))):
                self.i += 1
                if self.i >= len(self.s):
                    raise FilterError('Closing quote not found')
            out.append(self.s[self.i])
            self.i += 1
        self.i += 1
        self.strip_left()
        return out
    def prefix_ignore_case(self, text):
        t = text.encode()
        if self.i + len(t) > len(self.s):
            return False
        conds = []
        for k, c in enumerate(t):
            x = self.s[self.i + k]
            lo = c | 0x20 if chr(c).isalpha() else c
            up = c & ~0x20 if chr(c).isalpha() else c
            conds.append(b_or(int_eq(x, lo), int_eq(x, up)))
        return self.D.decide(b_and(*conds))
    def parse_string_filter(self):
        for kw, op in (('contains ', 'Contain'), ('!contains ', '!contains'), ('starts_with ', 'starts_with'), ('!starts_with ', '!starts_with')):
            if self.prefix_ignore_case(kw):
                self.i += len(kw)
                self.strip_left()
                return op, self.expect_quoted()
        if self.at('!') and self.at('=', 1):
            op = 'NotEqual'
        elif self.at('=') and self.at('~', 1):
            op = 'Match'
        elif self.at('!') and self.at('~', 1):
            op = 'NotMatch'
        elif self.at('=') and self.at('=', 1):
            op = 'Equal'
        else:
            raise FilterError("'==' or '!=' expected")
        self.i += 2
        self.strip_left()
        return op, self.expect_quoted()
    def parse_expression(self, depth=0):
        if depth > 12:
            raise FilterError('nesting too deep')
        if not self.at('('):
            raise FilterError("'(' expected")
        self.i += 1
        self.strip_left()
        if self.at('('):
            first = self.parse_expression(depth + 1)
            if self.at(')'):
                self.i += 1
                self.strip_left()
                return first
            if not self.word_is(self.expect_word(), 'AND'):
                raise FilterError("'AND' expected")
            items = [first]
            while True:
                items.append(self.parse_expression(depth + 1))
                if self.at(')'):
                    self.i += 1
                    self.strip_left()
                    return ('and', items)
                if not self.word_is(self.expect_word(), 'AND'):
                    raise FilterError("'AND' expected")
        if self.at('!'):
            self.i += 1
            self.strip_left()
            if not self.at('('):
                raise FilterError("'(' expected")
            inner = self.parse_expression(depth + 1)
            if not self.at(')'):
                raise FilterError("')' expected")
            self.i += 1
            self.strip_left()
            return ('not', inner)
        name = self.expect_word()
        op, value = self.parse_string_filter()
        if not self.at(')'):
            raise FilterError("')' expected")
        self.i += 1
        self.strip_left()
        return ('tag', name, op, value)

def parse_filter(D, s):
    """SongFilter::Parse(const char *s): s = StripLeft(s); ParseExpression; the whole string must be consumed"""
    p = Parser(D, s)
    p.strip_left()
    t = p.parse_expression()
    if p.i < len(p.s):
        raise FilterError('Unparsed garbage after expression')
    return t

def flatten(t):
    """normal form up to associativity of AND"""
    if t[0] == 'and':
        items = []
        for x in t[1]:
            fx = flatten(x)
            if fx[0] == 'and':
                items.extend(fx[1])
            else:
                items.append(fx)
        return ('and', items)
    if t[0] == 'not':
        return ('not', flatten(t[1]))
    return t
