"""Rust type strings as printed in MIR: parsing, substitution, unification, callee paths."""
import re
from functools import lru_cache
from mirparse import split_top, match_close, find_top

# A type is a tuple:
#   ('ref', mut:bool, T) ('ptr', mut, T) ('tuple', (T..)) ('slice', T) ('array', T, N) ('never',)
#   ('path', 'a::b::Name', (args..))       -- generic args of the LAST segment only are kept structured;
#                                             inner-segment generics are kept inside the name text
#   ('qpath', Self, Trait, 'Assoc')        -- <T as Trait>::Assoc
#   ('param', 'T')  is represented as ('path','T',()) and recognised through the substitution map
#   ('opaque', text)                       -- closures, fn pointers, dyn, impl, coroutines

LIFETIME = re.compile(r"(?:for<[^<>]*> )|'(?:\w+)\b ?(?:, )?")

def strip_lifetimes(s):
    s = re.sub(r"for<[^<>]*> ", '', s)
    s = re.sub(r"&'\w+ ", '&', s)
    s = re.sub(r"<'\w+>", '', s)
    s = re.sub(r"<'\w+, ", '<', s)
    s = re.sub(r", '\w+>", '>', s)
    s = re.sub(r", '\w+,", ',', s)
    s = re.sub(r" \+ '\w+", '', s)
    return s

@lru_cache(maxsize=None)
def parse_type(s):
    s = strip_lifetimes(s.strip())
    if s.startswith('&'):
        r = s[1:].lstrip()
        m = r.startswith('mut ')
        return ('ref', m, parse_type(r[4:] if m else r))
    if s.startswith('*const '):
        return ('ptr', False, parse_type(s[7:]))
    if s.startswith('*mut '):
        return ('ptr', True, parse_type(s[5:]))
    if s == '!':
        return ('never',)
    if s.startswith('('):
        k = match_close(s, 0)
        if k == len(s) - 1:
            return ('tuple', tuple(parse_type(x) for x in split_top(s[1:-1])))
    if s.startswith('['):
        k = match_close(s, 0)
        if k == len(s) - 1:
            inner = s[1:-1]
            semi = find_top(inner, '; ')
            if semi >= 0:
                return ('array', parse_type(inner[:semi]), inner[semi+2:].strip())
            return ('slice', parse_type(inner))
    if s.startswith(('{', 'dyn ', 'impl ', 'fn(', 'unsafe fn(', 'extern ', 'fn ')):
        return ('opaque', s)
    if s.startswith('<'):
        k = match_close(s, 0)
        inner = s[1:k]
        rest = s[k+1:]
        a = find_top(inner, ' as ')
        if a >= 0 and rest.startswith('::'):
            return ('qpath', parse_type(inner[:a]), inner[a+4:].strip(), rest[2:])
        return ('opaque', s)
    # path with optional generic args on the last segment:  a::b::C<X, Y>  or a::b::C::<X, Y>
    if s.endswith('>'):
        # find the '<' matching the final '>'
        depth = 0
        j = len(s) - 1
        while j >= 0:
            c = s[j]
            if c == '>' and s[j-1] not in '-=':
                depth += 1
            elif c == '<':
                depth -= 1
                if depth == 0:
                    break
            elif c in ')]}':
                depth += 1
            elif c in '([{':
                depth -= 1
            j -= 1
        name = s[:j]
        if name.endswith('::'):
            name = name[:-2]
        args = tuple(parse_type(x) for x in split_top(s[j+1:-1]) if not x.startswith("'"))
        return ('path', name, args)
    return ('path', s, ())

def base_name(t):
    """last path segment of a path type (without generics), else a tag for builtin shapes"""
    if t[0] == 'path':
        n = t[1]
        # strip inner generics `Foo<..>::Bar`
        n = re.sub(r'<.*>', '', n)
        return n.split('::')[-1]
    if t[0] == 'ref':
        return '&' + base_name(t[2])
    if t[0] == 'slice':
        return '[]'
    if t[0] == 'tuple':
        return '()'
    if t[0] == 'array':
        return '[;]'
    return t[0]

def type_str(t):
    k = t[0]
    if k == 'ref':
        return '&' + ('mut ' if t[1] else '') + type_str(t[2])
    if k == 'ptr':
        return ('*mut ' if t[1] else '*const ') + type_str(t[2])
    if k == 'tuple':
        return '(' + ', '.join(type_str(x) for x in t[1]) + (',' if len(t[1]) == 1 else '') + ')'
    if k == 'slice':
        return '[' + type_str(t[1]) + ']'
    if k == 'array':
        return '[' + type_str(t[1]) + '; ' + t[2] + ']'
    if k == 'never':
        return '!'
    if k == 'path':
        return t[1] + ('<' + ', '.join(type_str(x) for x in t[2]) + '>' if t[2] else '')
    if k == 'qpath':
        return '<' + type_str(t[1]) + ' as ' + t[2] + '>::' + t[3]
    return t[1]

def subst(t, env):
    """replace type parameters by env (dict name -> type tree)"""
    if not env:
        return t
    k = t[0]
    if k == 'path':
        if not t[2] and t[1] in env:
            return env[t[1]]
        return ('path', t[1], tuple(subst(x, env) for x in t[2]))
    if k in ('ref', 'ptr'):
        return (k, t[1], subst(t[2], env))
    if k == 'tuple':
        return ('tuple', tuple(subst(x, env) for x in t[1]))
    if k == 'slice':
        return ('slice', subst(t[1], env))
    if k == 'array':
        return ('array', subst(t[1], env), t[2])
    if k == 'qpath':
        return ('qpath', subst(t[1], env), t[2], t[3])
    if k == 'opaque':
        # textual substitution of whole-word parameters inside opaque text (closures of generic fns etc.)
        txt = t[1]
        for name, val in env.items():
            if re.search(r'\b%s\b' % re.escape(name), txt):
                txt = re.sub(r'(?<![\w:])%s(?![\w:<])' % re.escape(name), type_str(val).replace('\\', '\\\\'), txt)
        return ('opaque', txt)
    return t

AMBIG = {}      # ADT name defined in several modules of the repository -> set of defining module names

def path_conflict(a, b):
    """two path names with the same last segment that name different definitions (different defining modules)"""
    n = base_name(('path', a, ()))
    mods = AMBIG.get(n)
    if not mods:
        return False
    sa = set(re.sub(r'<.*?>', '', a).split('::')[:-1]) & mods
    sb = set(re.sub(r'<.*?>', '', b).split('::')[:-1]) & mods
    return bool(sa) and bool(sb) and sa.isdisjoint(sb)

def unify(pat, t, params, env):
    """match pattern type `pat` (mentioning type parameters `params`) against concrete `t`.
    Path names are compared by last segment (MIR prints trimmed or full paths inconsistently)."""
    k = pat[0]
    if k == 'path' and not pat[2] and pat[1] in params:
        if pat[1] in env:
            return loosely_equal(env[pat[1]], t)
        env[pat[1]] = t
        return True
    if k != t[0]:
        return False
    if k == 'path':
        if base_name(pat) != base_name(t):
            return False
        if AMBIG and path_conflict(pat[1], t[1]):
            return False
        if len(pat[2]) != len(t[2]):
            # generic defaults (HashSet<T, S>) or elided args: accept when one side is unspecified
            return not pat[2] or not t[2]
        return all(unify(a, b, params, env) for a, b in zip(pat[2], t[2]))
    if k in ('ref', 'ptr'):
        return unify(pat[2], t[2], params, env)          # mutability ignored
    if k == 'tuple':
        return len(pat[1]) == len(t[1]) and all(unify(a, b, params, env) for a, b in zip(pat[1], t[1]))
    if k == 'slice':
        return unify(pat[1], t[1], params, env)
    if k == 'array':
        return unify(pat[1], t[1], params, env)
    if k == 'opaque':
        return True
    if k == 'qpath':
        return True
    return pat == t

def loosely_equal(a, b):
    return unify(a, b, (), {})

# --------------------------------------------------------------------------- callee paths
class Callee:
    """A parsed function path.
       qself/trait : for `<T as Trait<A>>::m`   (trait = (name, args))
       segs        : list of (name, targs) for the remaining `::`-separated segments; an `<impl X>` segment is
                     represented as ('<impl>', (X,))"""
    __slots__ = ('text', 'qself', 'trait', 'segs')
    def __init__(self, text, qself, trait, segs):
        self.text = text; self.qself = qself; self.trait = trait; self.segs = segs
    @property
    def name(self):
        return self.segs[-1][0]
    @property
    def targs(self):
        return self.segs[-1][1]
    def __repr__(self):
        return '<Callee %s>' % self.text

def split_path(s):
    """split `a::b::<T>::c` at top-level `::`"""
    out = []
    depth = 0
    cur = []
    j = 0
    n = len(s)
    while j < n:
        c = s[j]
        if c in '([{':
            depth += 1
        elif c in ')]}':
            depth -= 1
        elif c == '<':
            depth += 1
        elif c == '>' and s[j-1] not in '-=':
            depth -= 1
        if depth == 0 and c == ':' and s[j:j+2] == '::':
            out.append(''.join(cur)); cur = []; j += 2; continue
        cur.append(c)
        j += 1
    out.append(''.join(cur))
    return out

@lru_cache(maxsize=None)
def parse_callee(text):
    s = strip_lifetimes(text.strip())
    qself = None
    trait = None
    if s.startswith('<'):
        k = match_close(s, 0)
        inner = s[1:k]
        a = find_top(inner, ' as ')
        if a >= 0:
            qself = parse_type(inner[:a])
            tr = parse_type(inner[a+4:])
            trait = (tr[1], tr[2]) if tr[0] == 'path' else (inner[a+4:], ())
        else:
            qself = parse_type(inner)
        s = s[k+1:]
        if s.startswith('::'):
            s = s[2:]
    segs = []
    for part in split_path(s):
        if not part:
            continue
        if part.startswith('<impl '):
            segs.append(('<impl>', (parse_type(part[6:-1]),)))
        elif part.startswith('<') and part.endswith('>'):
            args = tuple(parse_type(x) for x in split_top(part[1:-1]) if not x.startswith("'"))
            if segs:
                segs[-1] = (segs[-1][0], args)
        elif part.endswith('>') and '<' in part and not part.startswith('{'):
            j = part.index('<')
            args = tuple(parse_type(x) for x in split_top(part[j+1:-1]) if not x.startswith("'"))
            segs.append((part[:j], args))
        else:
            segs.append((part, ()))
    return Callee(text, qself, trait, segs)

INT_TYPES = {'u8': (8, False), 'u16': (16, False), 'u32': (32, False), 'u64': (64, False), 'u128': (128, False),
             'usize': (64, False), 'i8': (8, True), 'i16': (16, True), 'i32': (32, True), 'i64': (64, True),
             'i128': (128, True), 'isize': (64, True), 'char': (32, False), 'bool': (1, False)}

def int_info(tystr):
    """(bits, signed) for an integer-like type string, else None"""
    if tystr is None:
        return None
    return INT_TYPES.get(tystr.strip())
