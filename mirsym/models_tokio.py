"""Library models: the part of tokio the client uses - unbounded mpsc, oneshot, time::timeout, spawn, and the
select! model of ws/shims/tokio (verif::choose).  Single-threaded and waker-free: the harness scheduler polls tasks
itself, `Pending` means "poll again later" (a lost wake-up cannot be observed; stated in the evidence).

Contracts (tokio docs):
  mpsc unbounded: FIFO; send fails iff the receiver was dropped/closed; recv yields None iff the queue is empty and
                  every sender was dropped; dropping the receiver closes the channel and drops the queued messages.
  oneshot       : send fails (returning the value) iff the receiver was dropped; the receiver resolves to Err(RecvError)
                  iff the sender was dropped without sending; Sender::is_closed iff the receiver was dropped.
  timeout       : polls the inner future first; Err(Elapsed) once the deadline (creation time + duration) has passed on the
                  logical millisecond clock of the world, which only the harness advances (tick = 150 ms, longtick = 60 s).
"""
import z3
from values import *
from interp import model, short
from models_core import deref
from models_io import PyFuture, PENDING, poll_value, CX

class World:
    """harness-visible state shared by the tokio models"""
    def __init__(self):
        self.clock = 0
        self.spawned = []
        self.log = []
W = [None]
def world(I):
    if I.world is None:
        I.world = World()
    return I.world

# ---------------------------------------------------------------------------- mpsc
class Chan:
    def __init__(self):
        self.queue = []; self.senders = 1; self.rx_closed = False; self.sent = 0

class USender:
    def __init__(self, ch): self.ch = ch; self.dropped = False
    def on_clone(self, I):
        self.ch.senders += 1
        return USender(self.ch)
    def on_drop(self, I):
        if not self.dropped:
            self.dropped = True
            self.ch.senders -= 1
    def __repr__(self): return '<mpsc::Sender %d queued>' % len(self.ch.queue)

class UReceiver:
    def __init__(self, ch): self.ch = ch; self.dropped = False
    def on_drop(self, I):
        if not self.dropped:
            self.dropped = True
            self.ch.rx_closed = True
            q = self.ch.queue
            self.ch.queue = []
            for v in q:
                I.drop_value(v)
    def __repr__(self): return '<mpsc::Receiver %d queued>' % len(self.ch.queue)

class RecvFut(PyFuture):
    def __init__(self, rx): self.rx = rx
    def poll(self, I):
        ch = self.rx.ch
        if ch.queue:
            return some(ch.queue.pop(0))
        if ch.senders <= 0 or ch.rx_closed:
            return none()
        return PENDING

@model('unbounded_channel', 'mpsc::unbounded_channel')
def m_unbounded_channel(I, c, args, fr):
    ch = Chan()
    return Tup([USender(ch), UReceiver(ch)])

@model('UnboundedSender::send')
def m_usend(I, c, args, fr):
    s = deref(args[0])
    if s.ch.rx_closed:
        return err(Adt('SendError', None, 0, [args[1]]))
    s.ch.queue.append(args[1])
    s.ch.sent += 1
    return ok(UNIT)

@model('UnboundedSender::is_closed')
def m_uis_closed(I, c, args, fr):
    return deref(args[0]).ch.rx_closed

@model('UnboundedReceiver::recv')
def m_urecv(I, c, args, fr):
    return RecvFut(deref(args[0]))

@model('UnboundedReceiver::close')
def m_uclose(I, c, args, fr):
    deref(args[0]).ch.rx_closed = True
    return UNIT

@model('UnboundedReceiver::try_recv')
def m_utry_recv(I, c, args, fr):
    ch = deref(args[0]).ch
    if ch.queue:
        return ok(ch.queue.pop(0))
    return err(Adt('TryRecvError', 'Disconnected' if ch.senders <= 0 else 'Empty', 1 if ch.senders <= 0 else 0, []))

# bounded channel (only what a plausible refactoring would use): capacity n, try_send fails when full
class BSender(USender):
    pass

@model('mpsc::channel', 'channel')
def m_bounded_channel(I, c, args, fr):
    if not args:
        return m_oneshot_channel(I, c, args, fr)
    ch = Chan()
    ch.capacity = args[0]
    return Tup([BSender(ch), UReceiver(ch)])

@model('Sender::try_send')
def m_try_send(I, c, args, fr):
    s = deref(args[0])
    if s.ch.rx_closed:
        return err(Adt('TrySendError', 'Closed', 1, [args[1]]))
    if len(s.ch.queue) >= getattr(s.ch, 'capacity', 1 << 60):
        I.drop_value(args[1]) if False else None
        return err(Adt('TrySendError', 'Full', 0, [args[1]]))
    s.ch.queue.append(args[1]); s.ch.sent += 1
    return ok(UNIT)

@model('Receiver::recv')
def m_brecv(I, c, args, fr):
    return RecvFut(deref(args[0]))

# ---------------------------------------------------------------------------- oneshot
class OneInner:
    def __init__(self):
        self.value = None; self.has = False; self.tx_dropped = False; self.rx_dropped = False; self.sent = False; self.taken = False

class OSender:
    def __init__(self, inner): self.inner = inner
    def on_drop(self, I):
        if not self.inner.sent:
            self.inner.tx_dropped = True
    def __repr__(self): return '<oneshot::Sender>'

class OReceiver(PyFuture):
    def __init__(self, inner): self.inner = inner
    def poll(self, I):
        i = self.inner
        if i.has:
            i.has = False; i.taken = True
            v = i.value; i.value = None
            return ok(v)
        if i.tx_dropped or i.taken:
            return err(Adt('RecvError', None, 0, []))
        return PENDING
    def on_drop(self, I):
        i = self.inner
        if not i.rx_dropped:
            i.rx_dropped = True
            if i.has:
                i.has = False
                I.drop_value(i.value)
                i.value = None
    def __repr__(self): return '<oneshot::Receiver>'

@model('oneshot::channel')
def m_oneshot_channel(I, c, args, fr):
    inner = OneInner()
    return Tup([OSender(inner), OReceiver(inner)])

class BSendFut(PyFuture):
    """bounded Sender::send: completes when there is room (or the receiver is gone)"""
    def __init__(self, s, v): self.s = s; self.v = v; self.done = False
    def poll(self, I):
        ch = self.s.ch
        if ch.rx_closed:
            self.done = True
            return err(Adt('SendError', None, 0, [self.v]))
        if len(ch.queue) >= getattr(ch, 'capacity', 1 << 60):
            return PENDING
        ch.queue.append(self.v); ch.sent += 1; self.done = True
        return ok(UNIT)
    def on_drop(self, I):
        if not self.done:
            I.drop_value(self.v)

class ClosedFut(PyFuture):
    def __init__(self, pred): self.pred = pred
    def poll(self, I):
        return UNIT if self.pred() else PENDING

@model('oneshot::Sender::send', 'Sender::send')
def m_osend(I, c, args, fr):
    s = deref(args[0])
    if isinstance(s, BSender):
        return BSendFut(s, args[1])
    if isinstance(s, USender):
        return m_usend(I, c, args, fr)
    i = s.inner
    if i.rx_dropped:
        i.sent = True
        return err(args[1])
    i.value = args[1]; i.has = True; i.sent = True
    return ok(UNIT)

@model('oneshot::Sender::is_closed', 'Sender::is_closed')
def m_ois_closed(I, c, args, fr):
    s = deref(args[0])
    if isinstance(s, USender):
        return s.ch.rx_closed
    return s.inner.rx_dropped

# ---------------------------------------------------------------------------- time
def duration_ms(d):
    """milliseconds of a Duration value (the logical clock of the world counts milliseconds)"""
    d = deref(d)
    if isinstance(d, Adt) and d.ty == 'Duration':
        secs, nanos = d.fields[0], d.fields[1]
        if is_sym(secs) or is_sym(nanos):
            raise Unsupported('symbolic timer duration')
        return secs * 1000 + -(-nanos // 1_000_000)          # tokio rounds timers up to its 1 ms granularity
    raise Unsupported('timer duration %r' % (d,))

class TimeoutFut(PyFuture):
    def __init__(self, I, fut, dur): self.fut = fut; self.deadline = world(I).clock + duration_ms(dur); self.done = False
    def poll(self, I):
        r = poll_value(I, self.fut, CX)
        if r.variant == 'Ready':
            self.done = True
            return ok(r.fields[0])
        if world(I).clock >= self.deadline:
            self.done = True
            return err(Adt('Elapsed', None, 0, []))
        return PENDING
    def on_drop(self, I):
        I.drop_value(self.fut)

@model('tokio::time::timeout', 'time::timeout', 'timeout')
def m_timeout(I, c, args, fr):
    return TimeoutFut(I, args[1], args[0])

class SleepFut(PyFuture):
    def __init__(self, I, dur): self.deadline = world(I).clock + duration_ms(dur)
    def poll(self, I):
        return UNIT if world(I).clock >= self.deadline else PENDING

@model('tokio::time::sleep', 'time::sleep', 'sleep')
def m_sleep(I, c, args, fr):
    return SleepFut(I, args[0])

# ---------------------------------------------------------------------------- tasks / select model
@model('tokio::spawn', 'spawn', 'task::spawn')
def m_spawn(I, c, args, fr):
    world(I).spawned.append(args[0])
    return Opaque('JoinHandle')

@model('tokio::verif::choose', 'verif::choose', 'choose')
def m_choose(I, c, args, fr):
    return I.ctx.choose(args[0], 'select_start')

@model('Instrument::instrument', 'Instrument::in_current_span')
def m_instrument(I, c, args, fr):
    return args[0]

@model('Span::none', 'Span::current', 'Span::clone')
def m_span(I, c, args, fr):
    return Adt('Span', None, 0, [])


# ---------------------------------------------------------------------------- std atomics (single-threaded: plain cells)
class AtomicCell:
    def __init__(self, v): self.v = v
    def __repr__(self): return '<atomic %r>' % (self.v,)

@model('Ordering::Relaxed')
def m_dummy_ordering(I, c, args, fr):
    return UNIT

@model('Atomic::new', 'AtomicBool::new', 'AtomicUsize::new', 'AtomicU64::new', 'AtomicU32::new', 'AtomicIsize::new')
def m_atomic_new(I, c, args, fr):
    return AtomicCell(args[0])

@model('Atomic::load', 'AtomicBool::load', 'AtomicUsize::load', 'AtomicU64::load', 'AtomicU32::load')
def m_atomic_load(I, c, args, fr):
    return deref(args[0]).v

@model('Atomic::store', 'AtomicBool::store', 'AtomicUsize::store', 'AtomicU64::store', 'AtomicU32::store')
def m_atomic_store(I, c, args, fr):
    deref(args[0]).v = args[1]
    return UNIT

@model('Atomic::swap', 'AtomicBool::swap', 'AtomicUsize::swap')
def m_atomic_swap(I, c, args, fr):
    a = deref(args[0]); old = a.v; a.v = args[1]
    return old

@model('Atomic::fetch_add', 'AtomicUsize::fetch_add', 'AtomicU64::fetch_add')
def m_atomic_fetch_add(I, c, args, fr):
    a = deref(args[0]); old = a.v; a.v = (old + args[1]) & ((1 << 64) - 1)
    return old

@model('Atomic::fetch_or', 'AtomicBool::fetch_or')
def m_atomic_fetch_or(I, c, args, fr):
    a = deref(args[0]); old = a.v; a.v = old or args[1]
    return old

@model('Atomic::fetch_and', 'AtomicBool::fetch_and')
def m_atomic_fetch_and(I, c, args, fr):
    a = deref(args[0]); old = a.v; a.v = old and args[1]
    return old


# ---------------------------------------------------------------------------- further tokio surface (declared in ws/shims/tokio)
@model('Sender::closed', 'UnboundedSender::closed', 'oneshot::Sender::closed')
def m_sender_closed(I, c, args, fr):
    s = deref(args[0])
    if isinstance(s, USender):
        return ClosedFut(lambda: s.ch.rx_closed)
    return ClosedFut(lambda: s.inner.rx_dropped)

@model('Sender::capacity')
def m_sender_capacity(I, c, args, fr):
    ch = deref(args[0]).ch
    return max(0, ch.capacity - len(ch.queue))

@model('Sender::max_capacity')
def m_sender_max_capacity(I, c, args, fr):
    return deref(args[0]).ch.capacity

@model('Receiver::try_recv')
def m_receiver_try_recv(I, c, args, fr):
    r = deref(args[0])
    if isinstance(r, UReceiver):
        return m_utry_recv(I, c, args, fr)
    i = r.inner
    if i.has:
        i.has = False; i.taken = True
        v = i.value; i.value = None
        return ok(v)
    return err(Adt('oneshot::error::TryRecvError', 'Closed' if (i.tx_dropped or i.taken) else 'Empty', 1 if (i.tx_dropped or i.taken) else 0, []))

@model('Receiver::close')
def m_receiver_close(I, c, args, fr):
    r = deref(args[0])
    if isinstance(r, UReceiver):
        r.ch.rx_closed = True
    else:
        r.inner.rx_dropped = True
    return UNIT

@model('Receiver::is_closed', 'UnboundedReceiver::is_closed')
def m_receiver_is_closed(I, c, args, fr):
    # tokio docs: closed when all senders have been dropped or when `close` was called (queued messages may still be there)
    ch = deref(args[0]).ch
    return ch.rx_closed or ch.senders <= 0

@model('Receiver::is_empty', 'UnboundedReceiver::is_empty')
def m_receiver_is_empty(I, c, args, fr):
    return len(deref(args[0]).ch.queue) == 0

@model('Receiver::len', 'UnboundedReceiver::len')
def m_receiver_len(I, c, args, fr):
    return len(deref(args[0]).ch.queue)

@model('UnboundedSender::same_channel', 'Sender::same_channel')
def m_same_channel(I, c, args, fr):
    return deref(args[0]).ch is deref(args[1]).ch

class YieldFut(PyFuture):
    def __init__(self): self.polled = False
    def poll(self, I):
        if self.polled:
            return UNIT
        self.polled = True
        return PENDING

@model('task::yield_now', 'yield_now')
def m_yield_now(I, c, args, fr):
    return YieldFut()
