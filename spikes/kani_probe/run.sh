#!/bin/bash
# usage: run.sh harness [extra args]
h=$1; shift
cd /var/tmp/probe
CARGO_NET_OFFLINE=true timeout ${TMO:-900} cargo kani --harness $h --target-dir /var/tmp/probe/t_$h "$@" > /var/tmp/probe/$h.log 2>&1
echo "exit=$?" >> /var/tmp/probe/$h.log
