//! Model of connection.rs at line granularity (contract of the real AsyncConnection).
#![allow(static_mut_refs)]
use std::io;
use std::future::poll_fn;
use std::task::Poll;

use bytes::{BufMut, BytesMut};
use tokio::io::{AsyncRead, AsyncWrite};

use crate::{
    MpdProtocolError,
    command::{Command, CommandList},
    parser::NET,
    response::{Response, ResponseBuilder, ResponseFieldCache},
};

#[derive(Debug)]
pub struct Connection<IO> { io: IO, field_cache: std::mem::ManuallyDrop<ResponseFieldCache> }
#[derive(Debug)]
pub struct AsyncConnection<IO>(Connection<IO>);

fn eof() -> MpdProtocolError { MpdProtocolError::Io(io::Error::from(io::ErrorKind::UnexpectedEof)) }

/// Next line from the transport: Some(()) = a line was moved into NET.cur, None = end of stream.
async fn next_line() -> Option<()> {
    poll_fn(|_cx| unsafe {
        if NET.taken < NET.avail { NET.cur = NET.lines[NET.taken]; NET.taken += 1; Poll::Ready(Some(())) }
        else if NET.eof { Poll::Ready(None) }
        else { Poll::Pending }
    }).await
}

impl<IO> AsyncConnection<IO> {
    pub async fn connect(io: IO) -> Result<AsyncConnection<IO>, MpdProtocolError>
    where IO: AsyncRead + Unpin {
        Ok(AsyncConnection(Connection { io, field_cache: std::mem::ManuallyDrop::new(ResponseFieldCache::new()) }))
    }
    pub async fn send(&mut self, command: Command) -> Result<(), MpdProtocolError>
    where IO: AsyncWrite + Unpin {
        unsafe { NET.sent_len[NET.sent] = command.0.len(); NET.sent += 1; }
        Ok(())
    }
    pub async fn send_list(&mut self, command_list: CommandList) -> Result<(), MpdProtocolError>
    where IO: AsyncWrite + Unpin {
        let buf = command_list.render();
        unsafe { NET.sent_len[NET.sent] = buf.len() - 1; NET.sent += 1; }
        Ok(())
    }
    pub async fn receive(&mut self) -> Result<Option<Response>, MpdProtocolError>
    where IO: AsyncRead + Unpin {
        let mut builder = ResponseBuilder::new(&mut self.0.field_cache);
        let mut consumed_any = false;
        loop {
            match next_line().await {
                None => {
                    return if consumed_any || builder.is_frame_in_progress() { Err(eof()) } else { Ok(None) };
                }
                Some(()) => {
                    consumed_any = true;
                    let mut one = BytesMut::new();
                    one.put_u8(0);
                    if let Some(r) = builder.parse(&mut one)? { return Ok(Some(r)); }
                }
            }
        }
    }
    pub fn protocol_version(&self) -> &str { "0.0.0" }
    pub fn into_inner(self) -> IO { self.0.io }
}
