//! Model of parser.rs + transport: the server's output is a queue of decoded lines supplied by
//! the harness; `avail` says how many of them have "arrived" at the client.
use std::sync::Arc;
use crate::response::{Error, ResponseFieldCache};

#[derive(Debug, PartialEq, Eq, Clone, Copy)]
pub enum Line {
    EndOfFrame,
    EndOfResponse,
    Error { code: u64, index: u64 },
    Field { key: &'static str, value: &'static str },
    Invalid,
}

pub const MAX_LINES: usize = 12;
pub struct Net {
    pub lines: [Line; MAX_LINES],
    pub produced: usize,   // lines the server has written
    pub avail: usize,      // lines that reached the client (<= produced)
    pub taken: usize,      // lines the client consumed
    pub eof: bool,
    pub cur: Line,
    // client -> server
    pub sent_len: [usize; MAX_LINES],
    pub sent: usize,
}
pub static mut NET: Net = Net { lines: [Line::Invalid; MAX_LINES], produced: 0, avail: 0, taken: 0, eof: false, cur: Line::Invalid, sent_len: [0; MAX_LINES], sent: 0 };

#[derive(Debug, PartialEq, Eq)]
pub(crate) enum ParsedComponent {
    EndOfFrame,
    EndOfResponse,
    Error(Error),
    Field { key: Arc<str>, value: String },
    BinaryField { data_length: usize },
}

pub struct PErr { incomplete: bool }
impl PErr { pub fn is_incomplete(&self) -> bool { self.incomplete } }

impl ParsedComponent {
    pub(crate) fn parse<'i>(i: &'i [u8], field_cache: &'_ mut ResponseFieldCache) -> Result<(&'i [u8], ParsedComponent), PErr> {
        if i.is_empty() { return Err(PErr { incomplete: true }); }
        #[allow(static_mut_refs)]
        let line = unsafe { NET.cur };
        let c = match line {
            Line::Invalid => return Err(PErr { incomplete: false }),
            Line::EndOfFrame => ParsedComponent::EndOfFrame,
            Line::EndOfResponse => ParsedComponent::EndOfResponse,
            Line::Error { code, index } => ParsedComponent::Error(Error { code, command_index: index, current_command: None, message: Box::from("") }),
            Line::Field { key, value } => { let _ = &field_cache; ParsedComponent::Field { key: Arc::from(key), value: String::from(value) } },
        };
        Ok((&i[1..], c))
    }
}
