//! mpd_protocol with the real command.rs, response/ and connection.rs, but a *model* of parser.rs:
//! one placeholder byte in the receive buffer stands for one protocol line whose decoded form the
//! harness supplies. (What the real parser.rs does with real bytes is checked separately.)
#![allow(dead_code, unused_imports)]

#[path = "/var/tmp/rs/mpd_protocol/src/command.rs"]
pub mod command;
#[path = "/var/tmp/rs/mpd_protocol/src/response/mod.rs"]
pub mod response;
mod connection;
pub mod parser;

use std::{error::Error, fmt, io};

#[cfg(feature = "async")]
pub use self::connection::AsyncConnection;
pub use self::{
    command::{Command, CommandList},
    connection::Connection,
};

#[derive(Debug)]
pub enum MpdProtocolError {
    Io(io::Error),
    InvalidMessage,
}
impl fmt::Display for MpdProtocolError {
    fn fmt(&self, f: &mut fmt::Formatter<'_>) -> fmt::Result { write!(f, "protocol error") }
}
impl From<io::Error> for MpdProtocolError {
    fn from(e: io::Error) -> Self { MpdProtocolError::Io(e) }
}
impl Error for MpdProtocolError {}
