#![allow(static_mut_refs)]
#[cfg(kani)]
mod proofs {
    use std::future::Future;
    use std::pin::Pin;
    use std::task::{Context, Poll, RawWaker, RawWakerVTable, Waker};
    use tokio::io::{AsyncRead, AsyncWrite, ReadBuf};
    use mpd_client::Client;
    use mpd_client::protocol::Command as RawCommand;
    use mpd_client::protocol::parser::{Line, NET};

    fn noop_raw() -> RawWaker {
        fn no(_: *const ()) {}
        fn clone(_: *const ()) -> RawWaker { noop_raw() }
        static VT: RawWakerVTable = RawWakerVTable::new(clone, no, no, no);
        RawWaker::new(std::ptr::null(), &VT)
    }
    fn waker() -> Waker { unsafe { Waker::from_raw(noop_raw()) } }

    struct Io;
    impl AsyncRead for Io {
        fn poll_read(self: Pin<&mut Self>, _cx: &mut Context<'_>, _buf: &mut ReadBuf<'_>) -> Poll<std::io::Result<()>> { Poll::Pending }
    }
    impl AsyncWrite for Io {
        fn poll_write(self: Pin<&mut Self>, _cx: &mut Context<'_>, buf: &[u8]) -> Poll<std::io::Result<usize>> { Poll::Ready(Ok(buf.len())) }
        fn poll_flush(self: Pin<&mut Self>, _cx: &mut Context<'_>) -> Poll<std::io::Result<()>> { Poll::Ready(Ok(())) }
        fn poll_shutdown(self: Pin<&mut Self>, _cx: &mut Context<'_>) -> Poll<std::io::Result<()>> { Poll::Ready(Ok(())) }
    }

    // abstract MPD server: consumes NET.sent_len entries, produces lines
    struct Server { seen: usize, idling: bool, violation: bool }
    fn emit(l: Line) { unsafe { NET.lines[NET.produced] = l; NET.produced += 1; } }
    fn server_step(s: &mut Server) {
        unsafe {
            while s.seen < NET.sent {
                let len = NET.sent_len[s.seen];
                s.seen += 1;
                if len == 4 { if s.idling { s.violation = true; } s.idling = true; }
                else if len == 6 { if s.idling { s.idling = false; emit(Line::EndOfResponse); } }
                else {
                    if s.idling { s.violation = true; }
                    emit(Line::Field { key: "foo", value: "bar" }); emit(Line::EndOfResponse);
                }
            }
        }
    }

    #[kani::proof]
    #[kani::unwind(4)]
    fn loop_model() {
        let wk = waker();
        let mut cx = Context::from_waker(&wk);
        let (client, events) = {
            let mut f = std::pin::pin!(Client::connect(Io));
            match f.as_mut().poll(&mut cx) { Poll::Ready(Ok(c)) => c, _ => unreachable!() }
        };
        let mut task = tokio::verif::take_spawned().unwrap();
        let mut srv = Server { seen: 0, idling: false, violation: false };
        assert!(task.as_mut().poll(&mut cx).is_pending());
        server_step(&mut srv);
        assert!(srv.idling);
        let mut req = std::pin::pin!(client.raw_command(RawCommand::new("hello")));
        assert!(req.as_mut().poll(&mut cx).is_pending());
        let mut done = false;
        let mut steps = 0;
        while steps < 3 && !done {
            let _ = task.as_mut().poll(&mut cx);
            server_step(&mut srv);
            // symbolic delivery: any number of produced lines may have arrived
            unsafe { let a: usize = kani::any(); kani::assume(a >= NET.avail && a <= NET.produced); NET.avail = a; }
            if let Poll::Ready(r) = req.as_mut().poll(&mut cx) {
                match r { Ok(f) => { assert!(f.find("foo") == Some("bar")); std::mem::forget(f); } Err(_) => unreachable!() }
                done = true;
            }
            steps += 1;
        }
        kani::cover!(done, "request completed");
        assert!(!srv.violation);
        std::mem::forget(task); std::mem::forget(events);
    }
}

#[cfg(kani)]
mod leaf2 {
    use std::sync::Arc;
    use mpd_client::protocol::response::Frame;
    use mpd_client::tag::Tag;
    use mpd_client::commands::{Command as _, Status, Stats, CommandList as _};

    fn f64_from_str_stub(_s: &str) -> Result<f64, std::num::ParseFloatError> {
        if kani::any() { Ok(kani::any()) } else { Err("x".parse::<f64>().unwrap_err()) }
    }

    #[kani::proof]
    #[kani::unwind(6)]
    #[kani::stub(<f64 as std::str::FromStr>::from_str, f64_from_str_stub)]
    fn stub_f64() {
        let r: Result<f64, _> = "1.5".parse::<f64>();
        kani::cover!(matches!(r, Ok(v) if v == 7.0), "stub active");
    }

    const KEYS: [&str; 3] = ["a", "A", "b"];
    fn key() -> Arc<str> {
        let b: u8 = kani::any(); kani::assume(b == b'a' || b == b'A' || b == b'b');
        let a = [b];
        Arc::from(unsafe { std::str::from_utf8_unchecked(&a) })
    }

    #[kani::proof]
    #[kani::unwind(5)]
    fn frame_ops() {
        let k0 = key(); let k1 = key(); let k2 = key();
        let m0 = k0.clone(); let m1 = k1.clone(); let m2 = k2.clone();
        let mut f = Frame::verif_from_parts(vec![(k0, String::from("0")), (k1, String::from("1")), (k2, String::from("2"))], None);
        let q = key();
        // model: first match
        let expect = if *m0 == *q { Some("0") } else if *m1 == *q { Some("1") } else if *m2 == *q { Some("2") } else { None };
        assert!(f.find(&*q) == expect);
        let got = f.get(&*q);
        assert!(got.as_deref() == expect);
        let n = f.fields_len();
        assert!(n == if expect.is_some() { 2 } else { 3 });
        std::mem::forget(got); std::mem::forget(f);
    }

    #[kani::proof]
    #[kani::unwind(8)]
    fn tag_parse_5() {
        let b: [u8; 5] = kani::any();
        for i in 0..5 { kani::assume(b[i] < 0x80); }
        let s = unsafe { std::str::from_utf8_unchecked(&b) };
        match Tag::try_from(s) {
            Ok(t) => {
                for i in 0..5 { assert!(b[i].is_ascii_alphabetic() || b[i] == b'_' || b[i] == b'-'); }
                kani::cover!(matches!(t, Tag::Album), "album");
                kani::cover!(matches!(t, Tag::Other(_)), "other");
                std::mem::forget(t);
            }
            Err(_) => {}
        }
    }
}

#[cfg(kani)]
mod tok {
    use mpd_client::protocol::command::Command;

    fn ws(b: u8) -> bool { b <= 0x20 }

    /// Single-pass port of MPD's request tokenizer fused with the comparison against the expected
    /// words: word 0 = `name`, word 1 = `arg`. True iff MPD would read exactly [name, arg].
    fn mpd_reads<const M: usize>(line: &[u8], name: &[u8], arg: &[u8]) -> bool {
        let n = line.len();
        let mut end = n;
        let mut k = 0;
        while k < M { if k < n && line[k] == 0 && end == n { end = k; } k += 1; }
        let mut k = M;
        while k > 0 { if k == end && ws(line[k - 1]) { end = k - 1; } k -= 1; }
        let mut st = 0u8; let mut word = 0usize; let mut pos = 0usize; let mut ok = true;
        let mut i = 0;
        while i < M {
            if i < end && ok {
                let b = line[i];
                match st {
                    0 => {
                        if ws(b) { if pos != name.len() { ok = false; } st = 1; }
                        else if !(b.is_ascii_alphanumeric() || b == b'_') || (pos == 0 && !b.is_ascii_alphabetic()) { ok = false; }
                        else { if pos >= name.len() || name[pos] != b { ok = false; } pos += 1; }
                    }
                    1 => {
                        if ws(b) {}
                        else {
                            word += 1; pos = 0;
                            if word > 1 { ok = false; }
                            else if b == b'"' { st = 3; }
                            else if b == b'\'' { ok = false; }
                            else { st = 2; if pos >= arg.len() || arg[pos] != b { ok = false; } pos += 1; }
                        }
                    }
                    2 => {
                        if ws(b) { if pos != arg.len() { ok = false; } st = 1; }
                        else if b == b'"' || b == b'\'' { ok = false; }
                        else { if pos >= arg.len() || arg[pos] != b { ok = false; } pos += 1; }
                    }
                    3 => {
                        if b == b'"' { if pos != arg.len() { ok = false; } st = 5; }
                        else if b == b'\\' { st = 4; }
                        else { if pos >= arg.len() || arg[pos] != b { ok = false; } pos += 1; }
                    }
                    4 => { if pos >= arg.len() || arg[pos] != b { ok = false; } pos += 1; st = 3; }
                    _ => { if ws(b) { st = 1; } else { ok = false; } }
                }
            }
            i += 1;
        }
        match st {
            1 | 5 => ok && word == 1,
            2 => ok && word == 1 && pos == arg.len(),
            _ => false,
        }
    }

    fn roundtrip<const N: usize, const M: usize>() {
        let a: [u8; N] = kani::any();
        let mut has_blank = false; let mut has_special = false; let mut has_ctl = false;
        for i in 0..N {
            kani::assume(a[i] < 0x80 && a[i] != b'\n' && a[i] != 0);
            if a[i] == b' ' || a[i] == b'\t' { has_blank = true; }
            else if a[i] <= 0x20 { has_ctl = true; }
            if a[i] == b'"' || a[i] == b'\'' || a[i] == b'\\' { has_special = true; }
        }
        kani::assume(N > 0 && (has_blank || (!has_special && !has_ctl)));
        let s = unsafe { std::str::from_utf8_unchecked(&a) };
        let mut c = Command::new("x");
        let r = c.add_argument(s);
        assert!(r.is_ok());
        let bytes: &bytes::BytesMut = unsafe { &*(&c as *const Command as *const bytes::BytesMut) };
        assert!(bytes.len() <= M);
        assert!(mpd_reads::<M>(&bytes[..], b"x", &a));
        kani::cover!(has_blank && has_special, "quoted with escapes");
        std::mem::forget(r); std::mem::forget(c);
    }
    #[kani::proof]
    #[kani::unwind(10)]
    fn rt_2() { roundtrip::<2, 8>() }
    #[kani::proof]
    #[kani::unwind(12)]
    fn rt_3() { roundtrip::<3, 10>() }
}

#[cfg(kani)]
mod esc {
    use mpd_client::protocol::command::escape_argument;
    fn ws(b: u8) -> bool { b <= 0x20 }
    /// MPD Tokenizer::NextParam on `p` (followed by end of line): true iff it yields exactly `arg`
    /// and consumes all of `p`.
    fn next_param_is<const M: usize>(p: &[u8], arg: &[u8]) -> bool {
        let n = p.len();
        if n == 0 { return false; }               // IsEnd(): no parameter at all
        let quoted = p[0] == b'"';
        let mut st: u8 = if quoted { 3 } else { 2 };
        let mut pos = 0usize; let mut ok = true;
        let mut i = 0;
        while i < M {
            if i < n && ok && !(quoted && i == 0) {
                let b = p[i];
                match st {
                    2 => { if b <= 0x20 || b == b'"' || b == b'\'' { ok = false; } else { if pos >= arg.len() || arg[pos] != b { ok = false; } pos += 1; } }
                    3 => { if b == b'"' { st = 5; } else if b == b'\\' { st = 4; } else if b == 0 { ok = false; } else { if pos >= arg.len() || arg[pos] != b { ok = false; } pos += 1; } }
                    4 => { if b == 0 { ok = false; } else { if pos >= arg.len() || arg[pos] != b { ok = false; } pos += 1; st = 3; } }
                    _ => { ok = false; }             // bytes after the closing quote
                }
            }
            i += 1;
        }
        ok && pos == arg.len() && (st == 2 || st == 5)
    }

    fn k1<const N: usize, const M: usize>() {
        let a: [u8; N] = kani::any();
        let mut has_blank = false; let mut has_special = false; let mut has_ctl = false;
        for i in 0..N {
            kani::assume(a[i] < 0x80 && a[i] != b'\n');
            if a[i] == b' ' || a[i] == b'\t' { has_blank = true; }
            else if a[i] <= 0x20 { has_ctl = true; }
            if a[i] == b'"' || a[i] == b'\'' || a[i] == b'\\' { has_special = true; }
        }
        let mut has_nul = false;
        for i in 0..N { if a[i] == 0 { has_nul = true; } }
        // known findings excluded
        kani::assume(N > 0 && !has_nul && (has_blank || (!has_special && !has_ctl)));
        let s = unsafe { std::str::from_utf8_unchecked(&a) };
        let e = escape_argument(s);
        assert!(e.len() <= M);
        assert!(next_param_is::<M>(e.as_bytes(), &a));
        kani::cover!(has_blank && has_special, "quoted with escapes");
        kani::cover!(!has_blank, "unquoted");
        std::mem::forget(e);
    }
    #[kani::proof]
    #[kani::unwind(10)]
    fn k1_3() { k1::<3, 8>() }
    #[kani::proof]
    #[kani::unwind(12)]
    fn k1_4() { k1::<4, 10>() }
}
