import sys, re, time, z3
sys.path.insert(0,'/var/tmp/mirspike')
import mirsym
from mirsym import *

fns=parse_mir('/var/tmp/mir_protocol.txt')
# closure location -> fn name
clos={}
for line in open('/var/tmp/mir_protocol.txt'):
    m=re.match(r'^fn (\S+::\{closure#\d+\})\(_1: &(?:mut )?\{closure@([^}]*)\}', line)
    if m: clos[m.group(2)]=m.group(1)

def m_filter(I, it, z):
    loc=re.search(r'\{closure@([^}]*)\}', z[1]).group(1)
    return (it, clos[loc])
mirsym.MODELS.insert(0,(r'<Chars<> as Iterator>::filter::<.*>', m_filter))
mirsym.MODELS.insert(0,(r'<Filter<Chars<>, .*> as Iterator>::count', m_filter_count))

def ws(I,b): return I.ctx.decide(z3.ULE(b,0x20) if is_sym(b) else b<=0x20)
def is_(I,b,c): return I.ctx.decide(eqv(b,c))

def next_param(I, p):
    """MPD Tokenizer::NextParam on p followed by end of line. Returns list of bytes or None (reject/absent)."""
    if len(p)==0: return None
    out=[]
    if is_(I,p[0],ord('"')):
        i=1
        while True:
            if i>=len(p): return None
            if is_(I,p[i],0): return None
            if is_(I,p[i],ord('"')): break
            if is_(I,p[i],ord('\\')):
                i+=1
                if i>=len(p) or is_(I,p[i],0): return None
            out.append(p[i]); i+=1
        i+=1
        if i<len(p): return None   # (a following word would be another parameter)
        return out
    for b in p:
        if ws(I,b) or is_(I,b,ord('"')) or is_(I,b,ord("'")): return None
        out.append(b)
    return out

def check(N, exclude_known):
    inp=[z3.BitVec('a%d'%i,8) for i in range(N)]
    base=[z3.ULT(b,0x80) for b in inp]+[b!=10 for b in inp]
    if exclude_known:
        blank=z3.Or(*[z3.Or(b==32,b==9) for b in inp]) if N else z3.BoolVal(False)
        special=z3.Or(*[z3.Or(b==34,b==39,b==92) for b in inp]) if N else z3.BoolVal(False)
        ctl=z3.Or(*[z3.And(z3.ULE(b,0x20),b!=32,b!=9) for b in inp]) if N else z3.BoolVal(False)
        nul=z3.Or(*[b==0 for b in inp]) if N else z3.BoolVal(False)
        base.append(z3.And(N>0, z3.Not(nul), z3.Or(blank, z3.And(z3.Not(special), z3.Not(ctl)))))
    work=[[]]; paths=0; viol=[]; q=0
    s0=z3.Solver(); s0.add(*base)
    if s0.check()!=z3.sat: return 0,[]
    while work:
        trace=work.pop()
        s=z3.Solver(); s.add(*base)
        ctx=Ctx(trace,s); I=Interp(fns,ctx)
        try:
            arg=Ref(lambda st=Str(inp): st)
            cow=I.call_fn(fns['escape_argument'],[arg])
            rendered=cow.fields[0].get().b if cow.variant=='Borrowed' else cow.fields[0].b
            dec=next_param(I, rendered)
            paths+=1
            ok = dec is not None and len(dec)==N and all(z3.is_true(z3.simplify(eqv(x,y))) if is_sym(eqv(x,y)) else eqv(x,y) for x,y in zip(dec,inp))
            if not ok:
                assert s.check()==z3.sat
                m=s.model(); viol.append(bytes(m.eval(b,model_completion=True).as_long() for b in inp))
        except PathEnd: pass
        work.extend(ctx.pending)
    return paths, viol

for N in range(0,5):
    t=time.time(); p,v=check(N, True)
    print('N=%d excl-known paths=%d violations=%d %.1fs'%(N,p,len(v),time.time()-t), v[:3])
for N in range(0,3):
    t=time.time(); p,v=check(N, False)
    print('N=%d all        paths=%d violations=%d %.1fs'%(N,p,len(v),time.time()-t), sorted(set(v))[:8])
