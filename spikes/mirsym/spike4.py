"""Spike 3: interpret the coroutine MIR of handle_idle_response against model futures/channels."""
import sys, re, time, z3
sys.path.insert(0,'/var/tmp/mirspike')
import mirsym
from mirsym import *

fns=parse_mir('/var/tmp/mir_client_shim.txt')

class Coroutine:
    def __init__(self, fn, upvars): self.fn=fn; self.up=list(upvars); self.state=0; self.var={}
class Struct:
    def __init__(self, **kw): self.f=dict(kw)
class ModelFuture:
    """A library future: poll(interp) -> Enum Ready/Pending"""
    def __init__(self, script): self.script=list(script)
    def poll(self): return self.script.pop(0)
class Pin:
    def __init__(self, r): self.r=r
UNINIT=('uninit',)

STD={'None':0,'Some':1,'Ok':0,'Err':1,'Ready':0,'Pending':1}

# ---- place resolver: returns (get, set)
def parse_place(s, i=0):
    """returns (node, next_index); node = ('local',name)|('deref',n)|('field',n,idx)|('down',n,name)"""
    if s[i]=='_':
        m=re.match(r'_\d+', s[i:]); return ('local',m.group(0)), i+len(m.group(0))
    assert s[i]=='(', s[i:]
    if s[i+1]=='*':
        n,j=parse_place(s,i+2); assert s[j]==')'; return ('deref',n), j+1
    n,j=parse_place(s,i+1)
    if s[j]=='.':
        m=re.match(r'\.(\d+): ', s[j:]); k=j+len(m.group(0)); depth=0
        while True:
            if s[k] in '([{<' : depth+=1
            elif s[k] in ')]}>' and s[k-1:k+1]!='->':
                if depth==0 and s[k]==')': break
                depth-=1
            k+=1
        return ('field',n,int(m.group(1))), k+1
    m=re.match(r' as ([\w#]+)\)', s[j:]); return ('down',n,m.group(1)), j+len(m.group(0))

def access(I, fr, node):
    kind=node[0]
    if kind=='local':
        return (lambda: fr[node[1]]), (lambda v: fr.__setitem__(node[1],v))
    if kind=='deref':
        g,_=access(I,fr,node[1])
        return (lambda: deref(g()).get()), (lambda v: deref(g()).set(v))
    if kind=='down':
        return access(I,fr,node[1])          # variant checked on field access
    if kind=='field':
        inner=node[1]; idx=node[2]
        g,_=access(I,fr,inner if inner[0]!='down' else inner[1])
        variant=inner[2] if inner[0]=='down' else None
        def get():
            b=g()
            if isinstance(b,Coroutine): return b.var[(variant,idx)] if variant else b.up[idx]
            if isinstance(b,Enum): return b.fields[idx]
            if isinstance(b,Pin): return b.r
            if isinstance(b,Struct): return list(b.f.values())[idx]
            return b[idx]
        def set_(v):
            b=g()
            if isinstance(b,Coroutine):
                if variant: b.var[(variant,idx)]=v
                else: b.up[idx]=v
            elif isinstance(b,Enum): b.fields[idx]=v
            elif isinstance(b,Struct): b.f[list(b.f.keys())[idx]]=v
            else: b[idx]=v
        return get,set_
def deref(x): return x.r if isinstance(x,Pin) else x

def place_get(self, fr, p):
    try: n,_=parse_place(p.strip())
    except Exception: raise Unsupported('place <<'+p+'>>')
    return access(self,fr,n)[0]()
def place_set(self, fr, p, v):
    n,_=parse_place(p.strip()); access(self,fr,n)[1](v)
Interp.place_get=place_get; Interp.place_set=place_set

orig_rvalue=Interp.rvalue
def rvalue(self, fr, rv, fn):
    rv=rv.strip()
    m=re.match(r'^discriminant\((.*)\)$', rv)
    if m:
        v=self.place_get(fr,m.group(1))
        return v.state if isinstance(v,Coroutine) else STD[v.variant]
    m=re.match(r'^&(mut )?(.*)$', rv)
    if m:
        n,_=parse_place(m.group(2).strip()); g,s=access(self,fr,n); return Ref(g,s)
    m=re.match(r'^no_retag (.*)$', rv)
    if m: return self.operand(fr,m.group(1),fn)
    m=re.match(r'^[\w:<>(), \'&]+::([A-Z]\w*)$', rv)
    if m: return Enum(m.group(1),[])
    if rv=='()': return ()
    if rv.endswith(')'):
        for m in reversed(list(re.finditer(r'::([A-Z]\w*)\(', rv))):
            depth=0; ok=False
            for k in range(m.end()-1, len(rv)):
                if rv[k]=='(': depth+=1
                elif rv[k]==')':
                    depth-=1
                    if depth==0: ok=(k==len(rv)-1); break
            if ok:
                return Enum(m.group(1), [self.operand(fr,x,fn) for x in self.split_args(rv[m.end():-1])])
    return orig_rvalue(self,fr,rv,fn)
Interp.rvalue=rvalue

# statement-level extension: `discriminant((*_51)) = 3`
orig_call_fn=Interp.call_fn
def call_fn(self, f, args):
    for bb,sts in f.blocks.items():
        for i,st in enumerate(sts):
            m=re.match(r'^discriminant\((.*)\) = (\d+);$', st)
            if m: sts[i]='_SETDISC_ = SetDisc(%s, %s);'%(m.group(1),m.group(2))
    return orig_call_fn(self,f,args)
Interp.call_fn=call_fn
orig_rvalue2=Interp.rvalue
def rvalue2(self, fr, rv, fn):
    m=re.match(r'^SetDisc\((.*), (\d+)\)$', rv.strip())
    if m: self.place_get(fr,m.group(1)).state=int(m.group(2)); return None
    return orig_rvalue2(self,fr,rv,fn)
Interp.rvalue=rvalue2

# ---- models for the library callees of this coroutine
EVENTS=[]; WRITES=[]
def m_poll(I, pin, cx):
    fut=deref(pin).get() if isinstance(deref(pin),Ref) else deref(pin)
    if isinstance(fut,ModelFuture): return fut.poll()
    if isinstance(fut,Coroutine): return I.call_fn(fns[fut.fn],[pin,cx])
    raise Unsupported('poll of %r'%fut)
def m_send_cmd(I, conn, cmd):
    WRITES.append(cmd)
    return ModelFuture([Enum('Pending',[]), Enum('Ready',[Enum('Ok',[()])])])   # write blocks once
mirsym.MODELS[:0]=[
 (r'Response::into_single_frame', lambda I,r: r['single']),
 (r'Subsystem::from_frame', lambda I,f: Enum('Some',[f['changed'][0]]) if f['changed'] else Enum('None',[])),
 (r'UnboundedSender::<ConnectionEvent>::send', lambda I,tx,ev: (EVENTS.append(ev), Enum('Ok',[()]))[1]),
 (r'mpd_protocol::Command::new', lambda I,s: bytes(s.get().b).decode()),
 (r'AsyncConnection::<C>::send', m_send_cmd),
 (r'<.* as IntoFuture>::into_future', lambda I,f: f),
 (r'Pin::<&mut .*>::new_unchecked', lambda I,r: Pin(r)),
 (r'<.* as Future>::poll', m_poll),
 (r'<MpdProtocolError as Into<ConnectionError>>::into', lambda I,e: Enum('Protocol',[e])),
]


STD.update({'Continue':0,'Break':1,'Idling':0,'WaitingForCommandReply':1,'A':0,'B':1})

class Closure:
    def __init__(self, fn, up): self.fn=fn; self.up=list(up)
# closure location -> MIR fn name
CLOS={}
for line in open('/var/tmp/mir_client_shim.txt'):
    m=re.match(r'^fn (\S+::\{closure#\d+\})\(_1: &(?:mut )?\{closure@([^}]*)\}', line)
    if m: CLOS[m.group(2)]=m.group(1)

prev_rvalue=Interp.rvalue
def rvalue3(self, fr, rv, fn):
    rv=rv.strip()
    m=re.match(r'^\{coroutine@[^}]*\} \{(.*)\}$', rv)
    if m:
        ups=[self.operand(fr,x.split(': ',1)[1],fn) for x in self.split_args(m.group(1))]
        return Coroutine(self.cur_fn+'::{closure#0}', ups)
    m=re.match(r'^\{closure@([^}]*)\} \{(.*)\}$', rv)
    if m:
        ups=[self.operand(fr,x.split(': ',1)[1],fn) for x in self.split_args(m.group(2))]
        return Closure(CLOS[m.group(1)], ups)
    m=re.match(r'^(move|copy) (.*) as .* \(Subtype\)$', rv)
    if m: return self.operand(fr, m.group(1)+' '+m.group(2), fn)
    return prev_rvalue(self, fr, rv, fn)
Interp.rvalue=rvalue3
prev_call_fn=Interp.call_fn
def call_fn3(self, f, args):
    old=getattr(self,'cur_fn',None); self.cur_fn=f.name
    try: return prev_call_fn(self,f,args)
    finally: self.cur_fn=old
Interp.call_fn=call_fn3
# closure upvar access: ((*_1).k: T) on a Closure
prev_access=access
def access2(I, fr, node):
    if node[0]=='field':
        inner=node[1]
        g,_=prev_access(I,fr,inner if inner[0]!='down' else inner[1])
        b=None
        try: b=g()
        except Exception: pass
        if isinstance(b,Closure):
            idx=node[2]
            return (lambda: b.up[idx]), (lambda v: b.up.__setitem__(idx,v))
    return prev_access(I,fr,node)
import builtins
globals()['access']=access2

# ---------------- world + model futures
class World:
    def __init__(self): self.lines=[]; self.avail=0; self.taken=0; self.queue=[]; self.written=[]; self.events=[]
W=None
class Receive:
    """model of AsyncConnection::receive(): local builder, lines consumed so far are lost on drop"""
    def __init__(self): self.changed=[]; self.any=False
    def poll(self):
        while W.taken<W.avail:
            l=W.lines[W.taken]; W.taken+=1
            if l=='OK': return Enum('Ready',[Enum('Ok',[Enum('Some',[{'single':Enum('Ok',[{'changed':self.changed}])}])])])
            self.changed.append(l)
        return Enum('Pending',[])
class Recv:
    def poll(self):
        if W.queue: return Enum('Ready',[Enum('Some',[W.queue.pop(0)])])
        return Enum('Pending',[])
class Write:
    def __init__(self,what): self.what=what
    def poll(self): W.written.append(self.what); return Enum('Ready',[Enum('Ok',[()])])
class Responder:
    def __init__(self,name): self.name=name; self.result=None

def m_poll2(I, pin, cx):
    r=pin.r if isinstance(pin,Pin) else pin
    fut=r.get() if isinstance(r,Ref) else r
    if isinstance(fut,Pin): fut=fut.r.get() if isinstance(fut.r,Ref) else fut.r
    if isinstance(fut,(Receive,Recv,Write,ModelFuture)): return fut.poll()
    if isinstance(fut,Coroutine): return I.call_fn(fns[fut.fn],[Pin(Ref(lambda: fut)),cx])
    if isinstance(fut,tuple) and fut[0]=='pollfn': return I.call_fn(fns[fut[1].fn],[Ref(lambda: fut[1]),cx])
    raise Unsupported('poll of %r'%(fut,))
NCH=[0]
def m_choose(I,n):
    v=z3.BitVec('choose%d'%NCH[0],32); NCH[0]+=1
    I.ctx.solver.add(z3.ULT(v,n)); return v
def m_from_frame(I,f): return Enum('Some',[f['changed'][0]]) if f['changed'] else Enum('None',[])
mirsym.MODELS[:0]=[
 (r'<.* as Future>::poll', m_poll2),
 (r'AsyncConnection::<C>::receive', lambda I,c: Receive()),
 (r'UnboundedReceiver::<.*>::recv', lambda I,rx: Recv()),
 (r'AsyncConnection::<C>::send_list', lambda I,c,cmd: Write(cmd)),
 (r'AsyncConnection::<C>::send', lambda I,c,cmd: Write(cmd)),
 (r'Pin::<.*>::as_mut', lambda I,p: p.get()),
 (r'choose', m_choose),
 (r'poll_fn::<.*>', lambda I,c: ('pollfn',c)),
 (r'UnboundedSender::<ConnectionEvent>::send', lambda I,tx,ev: (W.events.append(ev), Enum('Ok',[()]))[1]),
 (r'Subsystem::from_frame', m_from_frame),
 (r'Option::<.*>::ok_or::<\(\)>', lambda I,o,e: Enum('Ok',[o.fields[0]]) if o.variant=='Some' else Enum('Err',[e])),
 (r'<Result<.*> as Try>::branch', lambda I,r: Enum('Continue',[r.fields[0]]) if r.variant=='Ok' else Enum('Break',[Enum('Err',[r.fields[0]])])),
 (r'<Result<.*> as FromResidual<.*>>::from_residual', lambda I,r: Enum('Err',[r.fields[0]])),
 (r'tokio::sync::oneshot::Sender::<.*>::send', lambda I,tx,v: (setattr(tx,'result',v), Enum('Ok',[()]))[1]),
]

prev_call=Interp.call
def call3(self, callee, args):
    c=re.sub(r'::<[^<>]*(?:<[^<>]*>[^<>]*)*>$','',callee.strip())
    if c in fns and not any(re.match(k+'$', re.sub(r"'_|'\w+",'',callee).strip()) for k,_ in mirsym.MODELS): return self.call_fn(fns[c], args)
    return prev_call(self, callee, args)
Interp.call=call3

def scenario(trace):
    """idle reply 'changed: player' / 'OK' arrives in two segments; a request arrives in between."""
    global W
    W=World(); NCH[0]=0
    W.lines=['player','OK']
    s=z3.Solver(); ctx=Ctx(trace,s); I=Interp(fns,ctx)
    state=Struct(loop_state=Enum('Idling',[]), connection='CONN', commands='RX', events='TX')
    co=Coroutine('run_loop_iteration::{closure#0}', [state])
    log=[]
    def poll():
        r=I.call_fn(fns[co.fn],[Pin(Ref(lambda: co)),'CX']); log.append((r.variant, co.state)); return r
    poll()                      # nothing arrived
    W.avail=1; poll()           # first line arrives
    W.queue.append(('hello', Responder('r1')))   # a caller issues a request
    r=poll()
    W.avail=2
    for _ in range(4):
        if r.variant=='Ready': break
        r=poll()
    return ctx, s, log, [e.variant+':'+str(e.fields[0]) for e in W.events], W.written, r

work=[[]]; n=0
while work:
    t=work.pop()
    try:
        ctx,s,log,events,written,r=scenario(t)
        s.check(); m=s.model()
        ch=[m.eval(z3.BitVec('choose%d'%i,32),model_completion=True).as_long() for i in range(NCH[0])]
        st=r.fields[0].fields[0].f['loop_state'].variant if r.variant=='Ready' and r.fields[0].variant=='Ok' else None
        print('path',n,'select start',ch,'| polls',log,'| events',events,'| written',written,'| next state',st)
        n+=1
    except PathEnd: pass
    work.extend(ctx.pending)
