import sys, re, time, glob, z3
sys.path.insert(0,'/var/tmp/mirspike')
import mirsym
from mirsym import *

MIR='/var/tmp/mir_client.txt'
fns=parse_mir(MIR)
fns.update(parse_mir('/var/tmp/mir_protocol.txt'))

# ---- enum numbering from sources
ENUMS={}
for f in glob.glob('/var/tmp/rs/mpd_*/src/**/*.rs', recursive=True):
    src=open(f).read()
    for m in re.finditer(r'enum (\w+)(?:<[^>]*>)? \{(.*?)\n\}', src, re.S):
        body=re.sub(r'//[^\n]*','',m.group(2)); body=re.sub(r'#\[[^\]]*\]','',body)
        depth=0; cur=''; names=[]
        for ch in body:
            if ch in '({': depth+=1
            if ch in ')}': depth-=1
            if ch==',' and depth==0: names.append(cur); cur=''
            else: cur+=ch
        names.append(cur)
        names=[re.match(r'\s*(\w+)',n).group(1) for n in names if re.match(r'\s*(\w+)',n)]
        ENUMS[m.group(1)]=names
STD={'None':0,'Some':1,'Ok':0,'Err':1,'Borrowed':0,'Owned':1}
def variant_index(v):
    if v.variant in STD: return STD[v.variant]
    for e,names in ENUMS.items():
        if getattr(v,'enum',None)==e: return names.index(v.variant)
    cands=[names.index(v.variant) for names in ENUMS.values() if v.variant in names]
    assert len(set(cands))==1, (v.variant,cands); return cands[0]

# patch interpreter pieces ---------------------------------------------------
def bytes_lit(txt):
    out=[]; i=0
    while i<len(txt):
        c=txt[i]
        if c=='\\':
            n=txt[i+1]
            if n=='x': out.append(int(txt[i+2:i+4],16)); i+=4; continue
            out.append({'n':10,'t':9,'r':13,'0':0,'\\':92,'"':34,"'":39}[n]); i+=2; continue
        out.append(ord(c)); i+=1
    return out
orig_const=Interp.const
def const(self, txt, fn):
    txt=txt.strip()
    m=re.match(r'^b?"(.*)"$', txt, re.S)
    if m: 
        s=Str(bytes_lit(m.group(1))); return Ref(lambda s=s: s)
    m=re.match(r"^'(.*)'$", txt)
    if m: return bytes_lit(m.group(1))[0]
    m=re.match(r'^(\d+)_u8$', txt)
    if m: return int(m.group(1))
    return orig_const(self, txt, fn)
Interp.const=const
orig_rvalue=Interp.rvalue
def rvalue(self, fr, rv, fn):
    rv=rv.strip()
    m=re.match(r'^discriminant\((.*)\)$', rv)
    if m: return variant_index(self.place_get(fr,m.group(1)))
    m=re.match(r'^(\w+)::(\w+)$', rv)           # unit variant  ConnectionError::InvalidResponse
    if m and m.group(1) in ENUMS and m.group(2) in ENUMS[m.group(1)]:
        e=Enum(m.group(2),[]); e.enum=m.group(1); return e
    m=re.match(r'^(Ge|Gt|Lt|Le)\((.*)\)$', rv)
    if m:
        a,b=[self.operand(fr,x,fn) for x in self.split_args(m.group(2))]
        return {'Ge':a>=b,'Gt':a>b,'Lt':a<b,'Le':a<=b}[m.group(1)]
    m=re.match(r'^no_retag (.*)$', rv)
    if m: return self.operand(fr, m.group(1), fn)
    return orig_rvalue(self, fr, rv, fn)
Interp.rvalue=rvalue

class Box_:
    def __init__(self,v): self.v=v
    def get(self): return self.v
orig_place_get=Interp.place_get
def place_get(self, fr, p):
    p=p.strip()
    m=re.match(r'^\((.*) as variant#(\d+)\)$', p)
    if m: return self.place_get(fr,m.group(1))
    v=None
    m=re.match(r'^\((.*)\.(\d+): ([^()]*|.*)\)$', p)
    if m:
        base=self.place_get(fr, m.group(1))
        if isinstance(base, Box_): return base                 # Box.0 (Unique) .0 (NonNull) collapse
    return orig_place_get(self, fr, p)
Interp.place_get=place_get

# ---- models
def sref(s): return Ref(lambda s=s: s)
def m_contains_char(I,s,c):
    s=s.get(); conds=[eqv(b,c) for b in s.b]
    return z3.Or(*conds) if any(is_sym(x) for x in conds) else any(conds)
def m_replace_char(I,s,c,rep):
    out=[]
    for b in s.get().b:
        if I.ctx.decide(eqv(b,c)): out+=rep.get().b
        else: out.append(b)
    return Str(out)
def disp(v):
    v=v.get() if isinstance(v,Ref) else v
    if isinstance(v,Ref): v=v.get()
    if isinstance(v,Enum) and v.variant in('Borrowed','Owned'):
        x=v.fields[0]; x=x.get() if isinstance(x,Ref) else x; return x.b
    if isinstance(v,Str): return v.b
    raise Unsupported('display of '+repr(v))
def m_write_fmt(I,buf,args):
    tmpl,av=args; tmpl=tmpl.get().b; av=av.get(); out=buf.get().b; i=0; k=0
    while True:
        t=tmpl[i]
        if t==0: break
        if t<0x80: out+=tmpl[i+1:i+1+t]; i+=1+t
        elif t==0xC0: out+=disp(av[k][1]); k+=1; i+=1
        else: raise Unsupported('fmt template byte %#x'%t)
    return Enum('Ok',[()])
def m_put_slice(I,buf,s): buf.get().b+=s.get().b; return ()
def m_put_u8(I,buf,b): buf.get().b.append(b); return ()
mirsym.MODELS[:0]=[
 (r'core::str::<impl str>::contains::<char>', m_contains_char),
 (r'str::<impl str>::replace::<char>', m_replace_char),
 (r'<String as Deref>::deref', lambda I,s: sref(s.get())),
 (r'core::fmt::rt::Argument::<>::new_display::<.*>', lambda I,r: ('display',r)),
 (r'Arguments::<>::new::<\d+, \d+>', lambda I,t,a: (t,a)),
 (r'<BytesMut as std::fmt::Write>::write_fmt', m_write_fmt),
 (r'Result::<\(\), std::fmt::Error>::unwrap', lambda I,r: ()),
 (r'<BytesMut as BufMut>::put_slice', m_put_slice),
 (r'<BytesMut as BufMut>::put_u8', m_put_u8),
 (r'Vec::<FilterType>::len', lambda I,v: len(v.get())),
 (r'<&Vec<FilterType> as IntoIterator>::into_iter', lambda I,v: [0,v.get()]),
 (r'<std::slice::Iter<, FilterType> as Iterator>::next', lambda I,it: (lambda st: Enum('None',[]) if st[0]>=len(st[1]) else (st.__setitem__(0,st[0]+1), Enum('Some',[Ref(lambda x=st[1][st[0]-1]: x)]))[1])(it.get())),
 (r'<str as ToString>::to_string|<Box<str> as ToString>::to_string', lambda I,s: Str(s.get().b)),
]
# ---- resolve `Type::method` / `<Type as Trait>::method` to MIR fns of impl blocks
IMPL={}
for name in list(fns):
    m=re.match(r'^(?:.*::)?<impl at ([^:]+):(\d+):\d+: \d+:\d+>::(\w+)$', name)
    if not m: continue
    line=open('/var/tmp/rs/'+m.group(1)).read().split('\n')[int(m.group(2))-1]
    mm=re.match(r'\s*impl(?:<[^>]*>)?\s+(?:([\w:<>\', ]+?) for )?([\w&]+)', line)
    if mm: IMPL[(mm.group(2), mm.group(1), m.group(3))]=name
orig_call=Interp.call
def call(self, callee, args):
    c=re.sub(r"'_|'\w+", '', callee).strip()
    m=re.match(r'^(\w+)::(\w+)$', c)
    if m:
        for (ty,tr,meth),name in IMPL.items():
            if ty==m.group(1) and meth==m.group(2) and tr is None: return self.call_fn(fns[name], args)
    m=re.match(r'^<(\w+) as (\w+)>::(\w+)$', c)
    if m:
        for (ty,tr,meth),name in IMPL.items():
            if ty==m.group(1) and meth==m.group(3) and tr and tr.split('<')[0].split('::')[-1]==m.group(2): return self.call_fn(fns[name], args)
    return orig_call(self, callee, args)
Interp.call=call
RENDER='filter::<impl at mpd_client/src/filter.rs:118:1: 118:16>::render'
fns['FilterType::render']=fns[RENDER]

def E(enum,variant,fields=()):
    e=Enum(variant,list(fields)); e.enum=enum; return e
def leaf(tag, op, val): return E('FilterType','Tag',[E('Tag',tag), E('Operator',op), Str(val)])
def run(tree, base):
    work=[[]]; outs=[]
    while work:
        trace=work.pop(); s=z3.Solver(); s.add(*base); ctx=Ctx(trace,s); I=Interp(fns,ctx)
        buf=Str([])
        try:
            I.call_fn(fns[RENDER],[Ref(lambda: tree), Ref(lambda: buf)])
            outs.append((s,buf.b))
        except PathEnd: pass
        work.extend(ctx.pending)
    return outs

def show(bs,m=None):
    return bytes((m.eval(b,model_completion=True).as_long() if is_sym(b) else b) for b in bs)

# 1. concrete check against the repo's own unit tests
t=E('FilterType','And',[[leaf('Artist','Equal',b'hello'), leaf('Album','Equal',b'world'), E('FilterType','Not',[Box_(leaf('Title','Contain',b'foo'))])]])
for s,o in run(t,[]): print(show(o))
# 2. symbolic value of length 2
v=[z3.BitVec('v0',8),z3.BitVec('v1',8)]
t0=time.time(); outs=run(leaf('Artist','NotMatch',v),[z3.ULT(b,0x80) for b in v])
print(len(outs),'paths %.2fs'%(time.time()-t0))
for s,o in outs:
    s.check(); m=s.model(); print(show(v,m), '->', show(o,m))
