#!/usr/bin/env python3
"""Spike: interpret rustc MIR (-Zunpretty=mir) of mpd_protocol::command symbolically with z3."""
import re, sys, time
import z3

# ---------------------------------------------------------------- MIR parsing
class Fn:
    def __init__(self, name): self.name=name; self.blocks={}; self.nargs=0

def parse_mir(path):
    fns={}
    cur=None; bb=None
    for line in open(path):
        line=line.rstrip('\n')
        m=re.match(r'^(?:const |static )?(?:fn )?([^\s(][^(]*?)(\(.*\) -> .*|: .*= )\{$', line)
        if m and not line.startswith(' '):
            name=m.group(1).strip()
            cur=Fn(name); fns[name]=cur
            args=re.findall(r'_(\d+): ', m.group(2).split(' -> ')[0]) if m.group(2).startswith('(') else []
            cur.nargs=len(args); bb=None; continue
        if cur is None: continue
        if line=='}': cur=None; continue
        m=re.match(r'^    (bb\d+)(?: \(cleanup\))?: \{$', line)
        if m: bb=m.group(1); cur.blocks[bb]=[]; continue
        if line=='    }': bb=None; continue
        if bb is not None and line.startswith('        '):
            cur.blocks[bb].append(line.strip())
    return fns

# ---------------------------------------------------------------- values
class Str:            # str / String contents: list of byte values (int or z3 BitVec 8)
    def __init__(self, b): self.b=list(b)
class Ref:            # reference to a place
    def __init__(self, get, set_=None): self.get=get; self.set=set_
class Enum:
    def __init__(self, variant, fields): self.variant=variant; self.fields=list(fields)
class Chars:
    def __init__(self, s): self.s=s; self.i=0
class Unsupported(Exception): pass
class PathEnd(Exception): pass

def is_sym(v): return isinstance(v, z3.ExprRef)

class Ctx:
    """One path of the execution: replays recorded decisions, records new ones."""
    def __init__(self, trace, solver):
        self.trace=trace; self.pos=0; self.solver=solver; self.pending=[]
    def decide(self, cond):
        """cond: python bool or z3 Bool. Returns bool; forks if both sides feasible."""
        if isinstance(cond, bool): return cond
        cond=z3.simplify(cond)
        if z3.is_true(cond): return True
        if z3.is_false(cond): return False
        if self.pos < len(self.trace):
            d=self.trace[self.pos]; self.pos+=1
            self.solver.add(cond if d else z3.Not(cond)); return d
        # new decision point
        self.solver.push(); self.solver.add(cond); t=self.solver.check()==z3.sat; self.solver.pop()
        self.solver.push(); self.solver.add(z3.Not(cond)); f=self.solver.check()==z3.sat; self.solver.pop()
        if t and f:
            self.pending.append(self.trace[:self.pos]+[False]); d=True
        elif t: d=True
        elif f: d=False
        else: raise PathEnd()
        self.trace=self.trace[:self.pos]+[d]; self.pos+=1
        self.solver.add(cond if d else z3.Not(cond)); return d

def eqv(a,b):
    if is_sym(a) or is_sym(b):
        if not is_sym(a): a=z3.BitVecVal(a,b.size())
        if not is_sym(b): b=z3.BitVecVal(b,a.size())
        if a.size()!=b.size():
            n=max(a.size(),b.size()); a=z3.ZeroExt(n-a.size(),a); b=z3.ZeroExt(n-b.size(),b)
        return a==b
    return a==b

# ---------------------------------------------------------------- interpreter
class Interp:
    def __init__(self, fns, ctx): self.fns=fns; self.ctx=ctx; self.queries=0

    def const(self, txt, fn):
        txt=txt.strip()
        m=re.match(r"^'(.*)'$", txt)
        if m:
            s=m.group(1)
            esc={'\\\\':'\\',"\\'":"'",'\\"':'"','\\t':'\t','\\n':'\n'}
            s=esc.get(s,s); return ord(s)
        m=re.match(r'^(-?\d+)_[iu](\d+|size)$', txt)
        if m: return int(m.group(1))
        if txt in ('true','false'): return txt=='true'
        m=re.match(r'^"(.*)"$', txt)
        if m: return Ref(lambda s=Str(m.group(1).encode().decode('unicode_escape').encode('latin1')): s)
        if txt=='RangeFull' or txt.startswith('ZeroSized'): return ('zst',txt)
        if 'promoted[' in txt:
            name=txt
            for k in self.fns:
                if k.endswith(txt.split('::')[-2]+'::'+txt.split('::')[-1]) or k==txt: name=k
            return self.call_fn(self.fns[name], [])
        if txt=='()': return ()
        raise Unsupported('const '+txt)

    def place_get(self, fr, p):
        p=p.strip()
        m=re.match(r'^\((.*)\.(\d+): [^()]*\)$', p) or re.match(r'^\((.*)\.(\d+): .*\)$', p)
        if m:
            base=self.place_get(fr, m.group(1)); i=int(m.group(2))
            return base.fields[i] if isinstance(base, Enum) else base[i]
        m=re.match(r'^\((.*) as (\w+)\)$', p)
        if m:
            base=self.place_get(fr, m.group(1)); assert base.variant==m.group(2), (base.variant, p); return base
        m=re.match(r'^\(\*(.*)\)$', p)
        if m: return self.place_get(fr, m.group(1)).get()
        if re.match(r'^_\d+$', p): return fr[p]
        raise Unsupported('place '+p)

    def place_set(self, fr, p, v):
        p=p.strip()
        if re.match(r'^_\d+$', p): fr[p]=v; return
        m=re.match(r'^\(\*(.*)\)$', p)
        if m: self.place_get(fr, m.group(1)).set(v); return
        raise Unsupported('place_set '+p)

    def operand(self, fr, o, fn):
        o=o.strip()
        if o.startswith('const '): return self.const(o[6:], fn)
        if o.startswith('copy ') or o.startswith('move '): return self.place_get(fr, o[5:])
        return self.place_get(fr, o)

    def split_args(self, s):
        out=[]; depth=0; cur=''
        for ch in s:
            if ch in '([<{': depth+=1
            if ch in ')]>}': depth-=1
            if ch==',' and depth==0: out.append(cur); cur=''
            else: cur+=ch
        if cur.strip(): out.append(cur)
        return out

    def rvalue(self, fr, rv, fn):
        rv=rv.strip()
        m=re.match(r'^(Eq|Ne|Lt|Le|Gt|Ge|Add|Sub|AddWithOverflow|SubWithOverflow)\((.*)\)$', rv)
        if m:
            a,b=[self.operand(fr,x,fn) for x in self.split_args(m.group(2))]
            op=m.group(1)
            if op=='Eq': return eqv(a,b)
            if op=='Ne': r=eqv(a,b); return z3.Not(r) if is_sym(r) else (not r)
            if op in('AddWithOverflow','Add'):
                if is_sym(a) or is_sym(b): raise Unsupported('symbolic add')
                r=a+b; return (r%2**64, r>=2**64) if op=='AddWithOverflow' else r%2**64
            raise Unsupported(op)
        m=re.match(r'^&(mut )?(.*)$', rv)
        if m:
            p=m.group(2)
            return Ref(lambda p=p: self.place_get(fr,p), lambda v,p=p: self.place_set(fr,p,v))
        m=re.match(r'^discriminant\((.*)\)$', rv)
        if m:
            v=self.place_get(fr,m.group(1)); return {'None':0,'Some':1,'Ok':0,'Err':1,'Borrowed':0,'Owned':1}[v.variant]
        m=re.match(r'^\[(.*)\]$', rv)
        if m: return [self.operand(fr,x,fn) for x in self.split_args(m.group(1))]
        m=re.match(r'^\((.*)\)$', rv)
        if m and not rv.startswith('(_') and not rv.startswith('(*'):
            return tuple(self.operand(fr,x,fn) for x in self.split_args(m.group(1)))
        m=re.match(r'^([\w:<>\', ]+)::(\w+)\((.*)\)$', rv)      # enum constructor  Cow::<'_, str>::Borrowed(copy _1)
        if m and m.group(2)[0].isupper():
            return Enum(m.group(2), [self.operand(fr,x,fn) for x in self.split_args(m.group(3))])
        m=re.match(r'^(.*) as [^()]* \((?:Transmute|Subtype|IntToInt|PtrToPtr|PointerCoercion\([^()]*\)|PointerCoercion\(.*\))\)$', rv)
        if m: return self.operand(fr, m.group(1), fn)
        return self.operand(fr, rv, fn)

    def call_fn(self, f, args):
        fr={'_%d'%(i+1):a for i,a in enumerate(args)}
        bb='bb0'
        while True:
            for st in f.blocks[bb]:
                st=st.rstrip(';')
                if st.startswith(('StorageLive','StorageDead','nop','debug ','FakeRead','PlaceMention','Retag')): continue
                if st=='return': return fr.get('_0', ())
                if st.startswith('goto -> '): bb=st[8:]; break
                if st in('unreachable','resume'): raise Unsupported('reached '+st)
                m=re.match(r'^switchInt\((.*)\) -> \[(.*)\]$', st)
                if m:
                    v=self.operand(fr,m.group(1),f); tg=[t.strip().split(': ') for t in m.group(2).split(',')]
                    nxt=None
                    for val,t in tg:
                        if val=='otherwise': nxt=t; break
                        if isinstance(v,bool) or z3.is_bool(v) if is_sym(v) else isinstance(v,bool):
                            c=(z3.Not(v) if is_sym(v) else (not v)) if int(val)==0 else v
                        else: c=eqv(v,int(val))
                        if self.ctx.decide(c): nxt=t; break
                    bb=nxt; break
                m=re.match(r'^assert\((!?)(.*?), ".*\) -> \[success: (bb\d+).*\]$', st)
                if m:
                    v=self.operand(fr,m.group(2),f); ok=(not v) if m.group(1) else v
                    if not self.ctx.decide(ok): raise Unsupported('MIR assert failed (panic)')
                    bb=m.group(3); break
                m=re.match(r'^drop\((.*)\) -> \[return: (bb\d+).*\]$', st)
                if m: bb=m.group(2); break
                m=re.match(r'^(.*)\) -> \[return: (bb\d+).*\]$', st)
                sp=self.split_assign(m.group(1)) if m else None
                if m and sp and '(' in sp[1]:
                    m=[None,sp[0],sp[1],m.group(2)]
                    class _M:
                        def __init__(s,l): s.l=l
                        def group(s,i): return s.l[i]
                    m=_M(m)
                    dst=m.group(1); call=m.group(2); i=self.find_call_paren(call)
                    callee=call[:i]; args=[self.operand(fr,a,f) for a in self.split_args(call[i+1:])]
                    self.place_set(fr,dst,self.call(callee,args)); bb=m.group(3); break
                sp=self.split_assign(st)
                if sp:
                    v=self.rvalue(fr,sp[1],f)
                    if sp[0]!='_SETDISC_': self.place_set(fr,sp[0],v)
                    continue
                raise Unsupported('stmt '+st)
            else:
                raise Unsupported('fell off block '+bb)

    def split_assign(self, st):
        depth=0
        for i,ch in enumerate(st):
            if ch in '([{': depth+=1
            elif ch in ')]}': depth-=1
            elif depth==0 and st[i:i+3]==' = ': return st[:i], st[i+3:]
        return None

    def find_call_paren(self, call):
        depth=0
        for i,ch in enumerate(call):
            if ch in '<[{': depth+=1
            elif ch in '>]}' and not call[i-1:i+1]=='->': depth-=1
            elif ch=='(' and depth==0: return i
        raise Unsupported('call '+call)

    # ------------------------------------------------------------ library models
    def call(self, callee, args):
        c=re.sub(r"'_|'\w+", '', callee)
        c=re.sub(r'\s+',' ',c).strip()
        if c in self.fns: return self.call_fn(self.fns[c], args)
        for k,fn in MODELS:
            if re.match(k+'$', c): return fn(self,*args)
        raise Unsupported('no model for '+c)

def m_contains(I, s, pat):      # str::contains::<&[char]>
    s=s.get(); chars=pat.get() if isinstance(pat,Ref) else pat
    conds=[eqv(b,c) for b in s.b for c in chars]
    return z3.Or(*conds) if any(is_sym(x) for x in conds) else any(conds)
def m_chars_next(I, it):
    it=it.get()
    if it.i>=len(it.s.b): return Enum('None',[])
    b=it.s.b[it.i]; it.i+=1
    return Enum('Some',[z3.ZeroExt(24,b) if is_sym(b) else b])
def m_filter_count(I, flt):
    chars,clos=flt; n=0
    while True:
        o=m_chars_next(I, Ref(lambda: chars))
        if o.variant=='None': return n
        cell=[o.fields[0]]
        r=I.call(clos, [Ref(lambda: None), Ref(lambda: cell[0])])
        if I.ctx.decide(r if is_sym(r) else bool(r)): n+=1
def m_push(I, s, c):
    s=s.get()
    if is_sym(c):
        if not I.ctx.decide(z3.ULT(c, 0x80)): raise Unsupported('non-ASCII char')
        s.b.append(z3.Extract(7,0,c))
    else:
        assert c<0x80; s.b.append(c)
    return ()

MODELS=[
 (r'<\[char; 2\] as Index<RangeFull>>::index', lambda I,a,_: a),
 (r'core::str::<impl str>::contains::<&\[char\]>', m_contains),
 (r'core::str::<impl str>::chars', lambda I,s: Chars(s.get())),
 (r'<Chars<> as Iterator>::filter::<(.*)>', lambda I,it,clos: None),
 (r'core::str::<impl str>::len', lambda I,s: len(s.get().b)),
 (r'String::with_capacity', lambda I,n: Str([])),
 (r'String::push', m_push),
 (r'<Chars<> as IntoIterator>::into_iter', lambda I,it: it),
 (r'<Chars<> as Iterator>::next', m_chars_next),
]
