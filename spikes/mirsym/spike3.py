"""Spike 3: interpret the coroutine MIR of handle_idle_response against model futures/channels."""
import sys, re, time, z3
sys.path.insert(0,'/var/tmp/mirspike')
import mirsym
from mirsym import *

fns=parse_mir('/var/tmp/mir_client_shim.txt')

class Coroutine:
    def __init__(self, fn, upvars): self.fn=fn; self.up=list(upvars); self.state=0; self.var={}
class Struct:
    def __init__(self, **kw): self.f=dict(kw)
class ModelFuture:
    """A library future: poll(interp) -> Enum Ready/Pending"""
    def __init__(self, script): self.script=list(script)
    def poll(self): return self.script.pop(0)
class Pin:
    def __init__(self, r): self.r=r
UNINIT=('uninit',)

STD={'None':0,'Some':1,'Ok':0,'Err':1,'Ready':0,'Pending':1}

# ---- place resolver: returns (get, set)
def parse_place(s, i=0):
    """returns (node, next_index); node = ('local',name)|('deref',n)|('field',n,idx)|('down',n,name)"""
    if s[i]=='_':
        m=re.match(r'_\d+', s[i:]); return ('local',m.group(0)), i+len(m.group(0))
    assert s[i]=='(', s[i:]
    if s[i+1]=='*':
        n,j=parse_place(s,i+2); assert s[j]==')'; return ('deref',n), j+1
    n,j=parse_place(s,i+1)
    if s[j]=='.':
        m=re.match(r'\.(\d+): ', s[j:]); k=j+len(m.group(0)); depth=0
        while True:
            if s[k] in '([{<' : depth+=1
            elif s[k] in ')]}>' and s[k-1:k+1]!='->':
                if depth==0 and s[k]==')': break
                depth-=1
            k+=1
        return ('field',n,int(m.group(1))), k+1
    m=re.match(r' as ([\w#]+)\)', s[j:]); return ('down',n,m.group(1)), j+len(m.group(0))

def access(I, fr, node):
    kind=node[0]
    if kind=='local':
        return (lambda: fr[node[1]]), (lambda v: fr.__setitem__(node[1],v))
    if kind=='deref':
        g,_=access(I,fr,node[1])
        return (lambda: deref(g()).get()), (lambda v: deref(g()).set(v))
    if kind=='down':
        return access(I,fr,node[1])          # variant checked on field access
    if kind=='field':
        inner=node[1]; idx=node[2]
        g,_=access(I,fr,inner if inner[0]!='down' else inner[1])
        variant=inner[2] if inner[0]=='down' else None
        def get():
            b=g()
            if isinstance(b,Coroutine): return b.var[(variant,idx)] if variant else b.up[idx]
            if isinstance(b,Enum): return b.fields[idx]
            if isinstance(b,Pin): return b.r
            if isinstance(b,Struct): return list(b.f.values())[idx]
            return b[idx]
        def set_(v):
            b=g()
            if isinstance(b,Coroutine):
                if variant: b.var[(variant,idx)]=v
                else: b.up[idx]=v
            elif isinstance(b,Enum): b.fields[idx]=v
            elif isinstance(b,Struct): b.f[list(b.f.keys())[idx]]=v
            else: b[idx]=v
        return get,set_
def deref(x): return x.r if isinstance(x,Pin) else x

def place_get(self, fr, p):
    n,_=parse_place(p.strip()); return access(self,fr,n)[0]()
def place_set(self, fr, p, v):
    n,_=parse_place(p.strip()); access(self,fr,n)[1](v)
Interp.place_get=place_get; Interp.place_set=place_set

orig_rvalue=Interp.rvalue
def rvalue(self, fr, rv, fn):
    rv=rv.strip()
    m=re.match(r'^discriminant\((.*)\)$', rv)
    if m:
        v=self.place_get(fr,m.group(1))
        return v.state if isinstance(v,Coroutine) else STD[v.variant]
    m=re.match(r'^&(mut )?(.*)$', rv)
    if m:
        n,_=parse_place(m.group(2).strip()); g,s=access(self,fr,n); return Ref(g,s)
    m=re.match(r'^no_retag (.*)$', rv)
    if m: return self.operand(fr,m.group(1),fn)
    m=re.match(r'^[\w:<>(), \'&]+::([A-Z]\w*)$', rv)
    if m: return Enum(m.group(1),[])
    if rv=='()': return ()
    if rv.endswith(')'):
        for m in reversed(list(re.finditer(r'::([A-Z]\w*)\(', rv))):
            depth=0; ok=False
            for k in range(m.end()-1, len(rv)):
                if rv[k]=='(': depth+=1
                elif rv[k]==')':
                    depth-=1
                    if depth==0: ok=(k==len(rv)-1); break
            if ok:
                return Enum(m.group(1), [self.operand(fr,x,fn) for x in self.split_args(rv[m.end():-1])])
    return orig_rvalue(self,fr,rv,fn)
Interp.rvalue=rvalue

# statement-level extension: `discriminant((*_51)) = 3`
orig_call_fn=Interp.call_fn
def call_fn(self, f, args):
    for bb,sts in f.blocks.items():
        for i,st in enumerate(sts):
            m=re.match(r'^discriminant\((.*)\) = (\d+);$', st)
            if m: sts[i]='_SETDISC_ = SetDisc(%s, %s);'%(m.group(1),m.group(2))
    return orig_call_fn(self,f,args)
Interp.call_fn=call_fn
orig_rvalue2=Interp.rvalue
def rvalue2(self, fr, rv, fn):
    m=re.match(r'^SetDisc\((.*), (\d+)\)$', rv.strip())
    if m: self.place_get(fr,m.group(1)).state=int(m.group(2)); return None
    return orig_rvalue2(self,fr,rv,fn)
Interp.rvalue=rvalue2

# ---- models for the library callees of this coroutine
EVENTS=[]; WRITES=[]
def m_poll(I, pin, cx):
    fut=deref(pin).get() if isinstance(deref(pin),Ref) else deref(pin)
    if isinstance(fut,ModelFuture): return fut.poll()
    if isinstance(fut,Coroutine): return I.call_fn(fns[fut.fn],[pin,cx])
    raise Unsupported('poll of %r'%fut)
def m_send_cmd(I, conn, cmd):
    WRITES.append(cmd)
    return ModelFuture([Enum('Pending',[]), Enum('Ready',[Enum('Ok',[()])])])   # write blocks once
mirsym.MODELS[:0]=[
 (r'Response::into_single_frame', lambda I,r: r['single']),
 (r'Subsystem::from_frame', lambda I,f: Enum('Some',[f['changed'][0]]) if f['changed'] else Enum('None',[])),
 (r'UnboundedSender::<ConnectionEvent>::send', lambda I,tx,ev: (EVENTS.append(ev), Enum('Ok',[()]))[1]),
 (r'mpd_protocol::Command::new', lambda I,s: bytes(s.get().b).decode()),
 (r'AsyncConnection::<C>::send', m_send_cmd),
 (r'<.* as IntoFuture>::into_future', lambda I,f: f),
 (r'Pin::<&mut .*>::new_unchecked', lambda I,r: Pin(r)),
 (r'<.* as Future>::poll', m_poll),
 (r'<MpdProtocolError as Into<ConnectionError>>::into', lambda I,e: Enum('Protocol',[e])),
]

def run(resp):
    global EVENTS, WRITES
    EVENTS=[]; WRITES=[]
    state=Struct(loop_state=Enum('Idling',[]), connection='CONN', commands='RX', events='TX')
    co=Coroutine('handle_idle_response::{closure#0}', [Ref(lambda: state), resp])
    s=z3.Solver(); I=Interp(fns,Ctx([],s))
    polls=[]
    for k in range(3):
        r=I.call_fn(fns[co.fn],[Pin(Ref(lambda: co)), 'CX'])
        polls.append((r.variant, r.fields[0].variant if r.fields else None, co.state))
        if r.variant=='Ready': break
    return polls, [ (e.variant, e.fields) for e in EVENTS], WRITES

frame1={'changed':['player']}
print(run(Enum('Ok',[Enum('Some',[{'single':Enum('Ok',[frame1])}])])))
print(run(Enum('Ok',[Enum('Some',[{'single':Enum('Ok',[{'changed':[]}])}])])))
print(run(Enum('Ok',[Enum('None',[])])))
print(run(Enum('Err',['EOF-ERR'])))
print(run(Enum('Ok',[Enum('Some',[{'single':Enum('Err',['ACK'])}])])))
