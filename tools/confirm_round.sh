#!/bin/bash
# confirm_round.sh <round-dir> [ids...] : confirms every patch<k>.diff of the sub-agent outputs under <round-dir>/<id>/out
# (tools/confirm_change.sh) and writes <round-dir>/confirm/<id>_<k>.txt ; 4 at a time.
root=$1; shift
here="$(cd "$(dirname "$0")" && pwd)"
mkdir -p $root/confirm
ids=${@:-$(ls $root | grep '^C[0-9][0-9]$')}
for id in $ids; do
  for p in $root/$id/out/patch[0-9].diff; do
    [ -f "$p" ] || continue
    k=$(basename $p .diff | sed 's/patch//')
    [ -s $root/confirm/${id}_$k.txt ] && continue
    echo "$id $k"
  done
done | xargs -P 4 -L 1 bash -c "$here/confirm_change.sh $root/\$0/out \$1 > $root/confirm/\$0_\$1.txt 2>&1"
grep -L "SUITE_WITH_PATCH=pass" $root/confirm/*.txt 2>/dev/null
