#!/bin/bash
# try_patch.sh <patch.diff> <PROP>...   : checks a changed tree WITHOUT touching /repo (scratch worktree + private mount namespace)
# prints one line per property: <patch> <prop> exit=<rc> <first counterexample / inconclusive line>
patch=$(readlink -f "$1"); shift
here=$(cd "$(dirname "$0")/.." && pwd)
id=$(echo "$patch" | md5sum | cut -c1-8)
wt=/tmp/tw/wt-$id
export VERIF_SCRATCH=/tmp/tw/scratch-$id
mkdir -p /tmp/tw
git -C /repo worktree prune
rm -rf "$wt"; git -C /repo worktree add -q --detach "$wt" HEAD || exit 3
if ! git -C "$wt" apply "$patch"; then echo "$patch: does not apply"; git -C /repo worktree remove --force "$wt"; exit 3; fi
for p in "$@"; do
  log=/tmp/tw/log-$id-$p.txt
  "$here/tools/in_tree.sh" "$wt" ./check "$p" --tier ${TIER:-quick} > "$log" 2>&1
  rc=$?
  echo "$(echo $patch | sed "s#.*/\(C[0-9][0-9][^/]*\)/\(out/\)\?#\1/#") $p exit=$rc $(grep -m1 '^counterexample:\|^INCONCLUSIVE' "$log" | cut -c1-${WIDTH:-220})"
done
git -C /repo worktree remove --force "$wt"
rm -rf "$VERIF_SCRATCH"
