#!/bin/bash
# runs every claimed check of the given tier sequentially; prints id, exit code, wall seconds
tier=${1:-quick}
cd "$(dirname "$0")/.."
for i in $(python3 -c "import json;print(' '.join(c['property_id'] for c in json.load(open('MANIFEST.json'))['checks']))"); do
  s=$(date +%s)
  ./check $i --tier $tier > .scratch/run_$i.log 2>&1
  rc=$?
  echo "$i rc=$rc $(( $(date +%s) - s ))s $(grep -c KNOWN-FINDING .scratch/run_$i.log) known"
done
