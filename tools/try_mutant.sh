#!/bin/bash
# tools/try_mutant.sh <patch.diff> <property>... : apply the patch to /repo, run the quick checks, undo the patch.
patch="$1"; shift
cd /repo || exit 2
if ! git diff --quiet; then echo "/repo has uncommitted changes"; exit 2; fi
git apply "$patch" || exit 2
trap 'git -C /repo checkout -- . ; git -C /repo clean -fdq' EXIT
for p in "$@"; do
  echo "=== $p on $(basename $(dirname $(dirname $patch)))/$(basename $patch)"
  (cd /verif && timeout ${TMO:-900} ./check "$p" --tier ${TIER:-quick} 2>&1 | tail -${TAIL:-6}; echo "exit=${PIPESTATUS[0]}")
done
