#!/usr/bin/env python3
"""Runs, for every behaviour-preserving refactoring in refactors/<id>/patch.diff, the checks of all properties whose
anchor files the patch touches (tools/try_patch.sh: scratch worktree + private mount namespace; /repo is not touched).
Requirement: every run exits 0 - a VIOLATION or an INCONCLUSIVE on a refactoring is a false alarm of the machinery.
usage: sweep_refactors.py [-j N] [id ...]     env TIER=quick|thorough ; writes refactors/results.json"""
import os, sys, json, glob, subprocess, re, time
from concurrent.futures import ThreadPoolExecutor
V = os.path.dirname(os.path.dirname(os.path.abspath(__file__)))
PROPS = [json.loads(l) for l in open(os.path.join(V, 'properties.jsonl'))]
# the client-level properties run the protocol crate underneath; typed layers sit on the frame/parser code
ALSO = {'mpd_protocol/src/connection.rs': ['C01', 'C04', 'C05', 'C08', 'C13', 'C17', 'C18'],
        'mpd_protocol/src/parser.rs': ['C01', 'C02', 'C03', 'C09', 'C10', 'C12', 'C13', 'C18'],
        'mpd_protocol/src/response/mod.rs': ['C01', 'C02', 'C03', 'C04', 'C09', 'C10', 'C13', 'C14', 'C19'],
        'mpd_protocol/src/response/frame.rs': ['C04', 'C12', 'C14', 'C16', 'C19', 'C17'],
        'mpd_protocol/src/command.rs': ['C06', 'C07', 'C11', 'C13', 'C15', 'C18'],
        'mpd_client/src/tag.rs': ['C11', 'C12', 'C14', 'C15', 'C16', 'C20'],
        'mpd_client/src/filter.rs': ['C11', 'C15'],
        'mpd_client/src/client/connection.rs': ['C01', 'C04', 'C05', 'C08', 'C13', 'C17'],
        'mpd_client/src/client/mod.rs': ['C01', 'C04', 'C05', 'C08', 'C13', 'C17', 'C18', 'C20'],
        'mpd_client/src/commands/definitions.rs': ['C12', 'C13', 'C14', 'C15', 'C16', 'C17'],
        'mpd_client/src/commands/command_list.rs': ['C12', 'C13'],
        'mpd_client/src/commands/mod.rs': ['C12', 'C13', 'C15']}

def props_for(patch):
    files = sorted(set(re.findall(r'^\+\+\+ b/(\S+)', open(patch).read(), re.M)))
    out = set()
    for f in files:
        for p in PROPS:
            if f in p['anchors'].get('files', []):
                out.add(p['id'])
        out.update(ALSO.get(f, []))
        if f.startswith('mpd_client/src/responses/'):
            out.update(['C12', 'C14', 'C16', 'C17'])
    return files, sorted(out)

def one(rid):
    patch = os.path.join(V, 'refactors', rid, 'patch.diff')
    files, props = props_for(patch)
    t0 = time.time()
    r = subprocess.run([os.path.join(V, 'tools', 'try_patch.sh'), patch] + props, stdout=subprocess.PIPE, stderr=subprocess.STDOUT, text=True,
                       env=dict(os.environ, WIDTH='300'))
    det = {}
    for line in r.stdout.splitlines():
        m = re.match(r'^\S+ (C\d\d) exit=(\d+) ?(.*)$', line)
        if m:
            det[m.group(1)] = {'exit': int(m.group(2)), 'first_line': m.group(3) or None}
    return rid, files, det, r.stdout if len(det) != len(props) else ''

def main():
    args = sys.argv[1:]
    jobs = 5
    if args and args[0] == '-j':
        jobs = int(args[1]); args = args[2:]
    ids = args or sorted(os.path.basename(os.path.dirname(p)) for p in glob.glob(os.path.join(V, 'refactors', '*', 'patch.diff')))
    resf = os.path.join(V, 'refactors', 'results.json')
    results = json.load(open(resf)) if os.path.exists(resf) else {}
    with ThreadPoolExecutor(jobs) as ex:
        for rid, files, det, err in ex.map(one, ids):
            results[rid] = {'files': files, 'tier': os.environ.get('TIER', 'quick'), 'checks': det}
            bad = {p: v for p, v in det.items() if v['exit'] != 0}
            print(rid, 'ok' if not bad and not err else 'ATTENTION', ' '.join('%s:%s' % (p, v['exit']) for p, v in det.items()), err[:300], flush=True)
            for p, v in bad.items():
                print('    ', p, (v['first_line'] or '')[:260], flush=True)
            json.dump(results, open(resf, 'w'), indent=1, sort_keys=True)
main()
