#!/usr/bin/env python3
"""developer tool: run every instance of a property sequentially with a per-instance time limit"""
import sys, os, time
sys.path.insert(0, os.path.join(os.path.dirname(os.path.dirname(os.path.abspath(__file__))), 'mirsym'))
os.environ['VERIF_JOBS'] = '1'
import engine, json, importlib, signal
mod = importlib.import_module('props.' + sys.argv[1])
tier = sys.argv[3] if len(sys.argv) > 3 else 'quick'
insts = mod.instances(tier, 0)
class TO(Exception): pass
def h(*a): raise TO()
signal.signal(signal.SIGALRM, h)
only = int(sys.argv[4]) if len(sys.argv) > 4 else None
for i, inst in enumerate(insts):
    if only is not None and i != only: continue
    t = time.time()
    signal.alarm(int(sys.argv[2]) if len(sys.argv) > 2 else 20)
    try:
        r = mod.run_instance(inst)
        print(i, inst, 'paths', r['paths'], 'viol', len(r['violations']), '%.1fs' % (time.time() - t), r['classes'], flush=True)
        if only is not None:
            print(json.dumps(r['violations'][:3], default=str)[:1500]); print(json.dumps(r['known'], default=str)[:800])
    except TO:
        print(i, inst, 'TIMEOUT', flush=True)
    except Exception as e:
        import traceback
        print(i, inst, 'EXC', type(e).__name__, str(e)[:300], flush=True)
        if only is not None: traceback.print_exc()
    signal.alarm(0)
