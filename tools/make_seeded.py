#!/usr/bin/env python3
"""Builds /verif/seeded/<Cxx-k>/ from the sub-agent outputs in /tmp/mut (run once per mutation round; the result is
committed, /tmp/mut is not needed afterwards).  meta.json: property, title, what the change needs to manifest (taken
from the author's notes), what was run to confirm it, and - filled by tools/sweep_seeded.py - which checks report it."""
import os, re, json, shutil, glob, sys
SRC = os.environ.get('SEED_SRC', '/tmp/mut')
OFFSET = int(os.environ.get('SEED_OFFSET', '0'))
ROUND = int(os.environ.get('SEED_ROUND', '1'))
DST = os.path.join(os.path.dirname(os.path.dirname(os.path.abspath(__file__))), 'seeded')

def sections(readme):
    """{k: (title, text)} for the `## Change k` sections"""
    out = {}
    heads = [(m.start(), int(m.group(1)), m.group(0)) for m in re.finditer(r'^##+ Change (\d)\b.*$', readme, re.M)]
    ends = [m.start() for m in re.finditer(r'^## ', readme, re.M)] + [len(readme)]
    for pos, k, line in heads:
        end = min(e for e in ends if e > pos)
        title = re.sub(r'^##+ Change \d\s*[-—:]*\s*', '', line).strip()
        out[k] = (title, readme[pos:end])
    return out

def needs(text):
    m = re.search(r'^.*(?:needed (?:for it )?to manifest|needs to manifest|required to manifest|to manifest)', text, re.I | re.M)
    if not m:
        return ''
    rest = text[m.start():]
    if rest.startswith('#'):
        rest = rest[rest.index('\n'):].lstrip('\n')
    end = re.search(r'\n\s*\n|\n\s*[*-] \*\*|\n\*?\*?Demo', rest[20:])
    t = rest[:20 + end.start()] if end else rest
    return re.sub(r'\s+', ' ', t.strip(' *\n'))[:1200]

def main():
    for d in sorted(glob.glob(SRC + '/C??')):
        pid = os.path.basename(d)
        out = os.path.join(d, 'out')
        readme = open(os.path.join(out, 'README.md')).read() if os.path.exists(os.path.join(out, 'README.md')) else ''
        secs = sections(readme)
        for k in (1, 2):
            patch = os.path.join(out, 'patch%d_rebased.diff' % k)
            rebased = os.path.exists(patch)
            if not rebased:
                patch = os.path.join(out, 'patch%d.diff' % k)
            if not os.path.exists(patch):
                continue
            sid = '%s-%d' % (pid, k + OFFSET)
            dst = os.path.join(DST, sid)
            os.makedirs(os.path.join(dst, 'demo'), exist_ok=True)
            shutil.copy(patch, os.path.join(dst, 'patch.diff'))
            demos = sorted(glob.glob(os.path.join(out, 'demo%d*.rs' % k)))
            for f in demos:
                shutil.copy(f, os.path.join(dst, 'demo', os.path.basename(f)))
            title, text = secs.get(k, ('', ''))
            with open(os.path.join(dst, 'demo', 'NOTES.md'), 'w') as fh:
                fh.write('Author notes for this change (written by the sub-agent that made it; it saw only the property text and its own scratch worktree).\n\n' + (text or readme))
            conf_file = os.path.join(SRC, 'confirm', '%s_%d%s.txt' % (pid, k, '_rebased' if rebased else ''))
            conf = open(conf_file).read() if os.path.exists(conf_file) else ''
            demo_crate = 'mpd_client' if any('mpd_client' in open(f).read() for f in demos) else 'mpd_protocol'
            meta_path = os.path.join(dst, 'meta.json')
            old = json.load(open(meta_path)) if os.path.exists(meta_path) else {}
            meta = {
                'id': sid, 'property': pid, 'round': ROUND, 'title': title,
                'files_touched': sorted(set(re.findall(r'^\+\+\+ b/(\S+)', open(patch).read(), re.M))),
                'needs_to_manifest': needs(text),
                'rebased_after_fix_commits': rebased,
                'demonstration': {'files': [os.path.basename(f) for f in demos],
                                  'how': 'copy into %s/tests/ of a scratch worktree; cargo test -p %s %s--offline --test <name>' % (demo_crate, demo_crate, '--features async ' if demo_crate == 'mpd_protocol' else '')},
                'confirmed_by_me': {
                    'what_i_ran': 'tools/confirm_change.sh (round 1: tools/confirm_mutants.sh) in a scratch worktree of /repo with its own target directory: git apply; cargo test --workspace --offline (unedited suite); demo with the patch; demo without the patch',
                    'patch_applies': 'APPLY=ok' in conf, 'existing_suite_passes_with_patch': 'SUITE_WITH_PATCH=pass' in conf,
                    'demo_fails_with_patch': bool(re.search(r'DEMO_WITH_PATCH\([^)]*\)=fail', conf)),
                    'demo_passes_without_patch': bool(re.search(r'DEMO_WITHOUT_PATCH\([^)]*\)=pass', conf)) and not re.search(r'DEMO_WITHOUT_PATCH\([^)]*\)=fail', conf),
                    'log': [l for l in conf.strip().splitlines() if ' exit=' not in l]},
                'detection': old.get('detection', {}),
            }
            json.dump(meta, open(meta_path, 'w'), indent=1)
            print(sid, 'ok' if all(meta['confirmed_by_me'][x] for x in ('patch_applies', 'existing_suite_passes_with_patch', 'demo_fails_with_patch', 'demo_passes_without_patch')) else 'NOT CONFIRMED', title[:80])
main()
