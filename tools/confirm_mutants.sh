#!/bin/bash
# Confirms every sub-agent mutant in a scratch worktree: patch applies, the unedited suite passes with it, the
# demonstration fails with it and passes without it.  Writes /tmp/mut/confirm/<id>_<k>.txt
mkdir -p /tmp/mut/confirm
cd /repo
for id in "$@"; do
  out=/tmp/mut/$id/out
  for patch in $out/patch*.diff; do
    k=$(basename $patch .diff | sed 's/patch//')
    res=/tmp/mut/confirm/${id}_$k.txt
    [ -s "$res" ] && continue
    wt=/tmp/mut/confirm/wt_${id}_$k
    rm -rf $wt; git worktree prune; git worktree add -q --detach $wt HEAD || continue
    (
      cd $wt
      export CARGO_TARGET_DIR=/tmp/mut/$id/wt/target CARGO_NET_OFFLINE=true
      demos=$(ls $out/demo${k}*.rs 2>/dev/null)
      echo "patch=$patch demos=$demos"
      git apply $patch && echo APPLY=ok || echo APPLY=fail
      cargo test --workspace --offline >/tmp/mut/confirm/log_${id}_${k}_suite.txt 2>&1 && echo SUITE_WITH_PATCH=pass || echo SUITE_WITH_PATCH=FAIL
      for d in $demos; do
        name=$(basename $d .rs)
        crate=mpd_client
        grep -qi "mpd_protocol/tests" $out/README.md && ! grep -qi "mpd_client/tests" $out/README.md && crate=mpd_protocol
        # decide crate per demo from README lines mentioning the demo
        if grep -q "$name" $out/README.md; then
          if grep "$name" $out/README.md | grep -q "mpd_protocol"; then crate=mpd_protocol; fi
          if grep "$name" $out/README.md | grep -q "mpd_client"; then crate=mpd_client; fi
        fi
        if grep -q "use mpd_client\|mpd_client::" $d; then crate=mpd_client; else crate=mpd_protocol; fi
        mkdir -p $crate/tests; cp $d $crate/tests/$name.rs
        feat=""; [ $crate = mpd_protocol ] && feat="--features async"
        timeout 600 cargo test -p $crate $feat --offline --test $name >/tmp/mut/confirm/log_${id}_${k}_demo_with.txt 2>&1 && echo "DEMO_WITH_PATCH($name)=pass" || echo "DEMO_WITH_PATCH($name)=fail"
        git apply -R $patch
        timeout 600 cargo test -p $crate $feat --offline --test $name >/tmp/mut/confirm/log_${id}_${k}_demo_without.txt 2>&1 && echo "DEMO_WITHOUT_PATCH($name)=pass" || echo "DEMO_WITHOUT_PATCH($name)=fail"
        git apply $patch
        echo "crate=$crate"
      done
    ) > $res 2>&1
    git worktree remove --force $wt
  done
done
echo ALLDONE
