#!/usr/bin/env python3
"""setup_round.py <dir> : prepares a mutation round under <dir> (e.g. /tmp/mut4): one scratch worktree of /repo and one
prompt per property.  The prompt contains ONLY the property text and the titles of the changes earlier rounds produced
(so that new sites / mechanisms are found) - nothing about how /verif checks anything."""
import json, os, subprocess, sys, glob
root = sys.argv[1]
here = os.path.dirname(os.path.abspath(__file__))
props = {json.loads(l)['id']: json.loads(l) for l in open(os.path.join(here, '..', 'properties.jsonl'))}
tmpl = open(os.path.join(here, 'mutation_prompt.tmpl')).read()
for pid, p in props.items():
    d = f'{root}/{pid}'
    os.makedirs(d + '/out', exist_ok=True)
    if not os.path.exists(d + '/wt'):
        subprocess.run(['git', '-C', '/repo', 'worktree', 'add', '-q', '--detach', d + '/wt', 'HEAD'], check=True)
    prior = []
    for mp in sorted(glob.glob(os.path.join(here, '..', 'seeded', pid + '-*', 'meta.json'))):
        m = json.load(open(mp))
        prior.append(f"- {m['title']} (touching {', '.join(m.get('files_touched', []))})")
    text = f"{p['title']}\n\n{p['statement']}\n\nQuantified over: {p['quantifier']['text']}\n\nMechanisms involved: " + '; '.join(f"{m['name']} ({m['where']})" for m in p['anchors']['mechanism'])
    t = tmpl.replace('/tmp/mut/', root + '/').replace('@ID@', pid).replace('@PROPERTY@', text).replace('@K@', '<k>')
    t = t.replace("Procedure you must follow", "Earlier rounds already produced the following changes for this property; yours must be DIFFERENT in site and mechanism (do not re-do them or close variants). Prefer parts of the property's statement and quantifier that none of them exercises (other entry points of the public API, other argument/response types, other states of the connection or run loop, other boundary values, interactions between two features, code paths in OTHER source files that the property's behaviour also depends on):\n" + '\n'.join(prior) + f"\n\nUse `export CARGO_TARGET_DIR={root}/{pid}/target` for all cargo commands.\n\nProcedure you must follow")
    t += "\n\nREADME format: one section per change headed by a line `## Change <k> — <short title>`, containing a paragraph that starts with `What is needed to manifest:`."
    open(d + '/prompt.txt', 'w').write(t)
print(len(os.listdir(root)), 'prepared under', root)
