#!/bin/bash
# confirm_change.sh <out-dir> <k> [result-file]
# Confirms an adversarial change in a scratch worktree of /repo: the patch applies, the unedited suite passes with it,
# every demonstration demo<k>*.rs fails with it and passes without it.  Prints the result lines.
out=$(readlink -f "$1"); k=$2
patch=$out/patch$k.diff
id=$(echo "$out-$k" | md5sum | cut -c1-8)
wt=/tmp/tw/confirm-$id
export CARGO_TARGET_DIR=/tmp/tw/confirm-target-$id CARGO_NET_OFFLINE=true      # own target dir: shared ones gave stale results
mkdir -p /tmp/tw
git -C /repo worktree prune
rm -rf $wt; git -C /repo worktree add -q --detach $wt HEAD || exit 1
cd $wt
demos=$(ls $out/demo${k}*.rs 2>/dev/null)
echo "head=$(git rev-parse --short HEAD) patch=$patch demos=$(echo $demos)"
git apply $patch && echo APPLY=ok || echo APPLY=fail
cargo test --workspace --offline >/tmp/tw/confirm-$id-suite.log 2>&1 && echo SUITE_WITH_PATCH=pass || echo SUITE_WITH_PATCH=FAIL
for d in $demos; do
  name=$(basename $d .rs)
  if grep -q "use mpd_client\|mpd_client::" $d; then crate=mpd_client; else crate=mpd_protocol; fi
  mkdir -p $crate/tests; cp $d $crate/tests/$name.rs
  feat=""; [ $crate = mpd_protocol ] && feat="--features async"
  # a demonstration that needs an optional feature says so in its first lines: `// features: chrono`
  f2=$(head -5 $d | grep -o "features: [a-z,]*" | head -1 | sed 's/features: //'); [ -n "$f2" ] && feat="--features $f2"
  timeout 900 cargo test -p $crate $feat --offline --test $name >/tmp/tw/confirm-$id-with.log 2>&1 && echo "DEMO_WITH_PATCH($name)=pass" || echo "DEMO_WITH_PATCH($name)=fail"
  git apply -R $patch
  timeout 900 cargo test -p $crate $feat --offline --test $name >/tmp/tw/confirm-$id-without.log 2>&1 && echo "DEMO_WITHOUT_PATCH($name)=pass" || echo "DEMO_WITHOUT_PATCH($name)=fail"
  git apply $patch
  echo "crate=$crate"
done
cd /; git -C /repo worktree remove --force $wt; rm -rf $CARGO_TARGET_DIR
