#!/bin/bash
# in_tree.sh <tree> <command...>
# Runs <command> (e.g. ./check C04) with <tree> (a scratch worktree/copy of the repository) bind-mounted over /repo in a
# private mount namespace and with its own scratch directory, so that changed trees can be checked in parallel without
# touching /repo.  Development aid only; the registered commands always check /repo itself.
tree=$(readlink -f "$1"); shift
here=$(cd "$(dirname "$0")/.." && pwd)
scratch=${VERIF_SCRATCH:-/tmp/verif-scratch-$(echo "$tree" | md5sum | cut -c1-8)}
if [ ! -d "$scratch/ws-target" ]; then
  mkdir -p "$scratch"
  for d in ws-target replay-target replay-target-small replay-target-chrono; do [ -d "$here/.scratch/$d" ] && cp -a "$here/.scratch/$d" "$scratch/$d"; done
fi
export VERIF_SCRATCH="$scratch" VERIF_EVIDENCE_DIR="$scratch/evidence" VERIF_REPLAY_DIR="$scratch/replays"
exec unshare -m bash -c 'mount --bind "$0" /repo && cd "$1" && shift && exec "$@"' "$tree" "$here" "$@"
