#!/usr/bin/env python3
"""Regenerates MANIFEST.json from the table below (claimed checks) - everything else is listed not_applicable."""
import json, os
V = os.path.dirname(os.path.dirname(os.path.abspath(__file__)))
TECH = ('bounded symbolic execution of the rustc MIR of the real functions (mirsym) + z3: every feasible path within the bounds, the property decided by the solver; '
        'counterexamples replayed natively; one solver-chosen input per path class cross-validated on the native build')
NOTE = ('trusted: rustc MIR dump, the interpreter core, the library models listed in the evidence (validated by native replay / '
        'concrete differential runs), z3; bounds as stated in the evidence file; nothing outside the bounds is claimed')
CLAIMED = {
 'C01': ('schedules of the real client coroutines against a simulated MPD server: every completed request carries exactly the server reply for it, per-caller order, list error split, cancellation', '4 C01'),
 'C04': ('same schedules: events delivered == changed: lines the server wrote; the two recorded defects are attributed by class and re-confirmed natively', '4 C04'),
 'C05': ('same schedules judged by the protocol monitor of the simulated server (idle/noidle discipline, one outstanding request) plus re-idle after the timer', '4 C05'),
 'C08': ('schedules with one fault (EOF, read/write error, garbage, last handle dropped) at a symbolic step: every request resolves, closed flag, event stream end, surfacing, transport release', '4 C08'),
 'C17': ('Client::album_art coroutine against a simulated picture store for all sizes/limits/sources within the bounds, with shrinking chunk limits and payload/terminator delivered separately: bytes, MIME, increasing offsets, fallback, absence, error propagation', '4 C17'),

 'C03': ('stream templates with free bytes decoded by both real connections and compared with an independent reference decoder of the response grammar on every path (plus the field-name alphabet lemma)', '4 C03'),
 'C02': ('one symbolic stream run under every two-way split, byte-wise and further segmentations on both connections, results compared pairwise by z3; prefix stability of the line and greeting grammars', '4 C02'),
 'C09': ('free byte strings, magnitude templates and pipelined well-formed data through both connections: no feasible path panics (dev profile: debug assertions and overflow checks on), also when receive is called again after an error; reads are bounded, malformed input yields InvalidMessage', '4 C09'),
 'C10': ('every cut position of the stream templates followed by EOF on both connections under several read segmentations: clean close iff response boundary, else UnexpectedEof, complete responses delivered first; a read failing once with ErrorKind::Interrupted surfaces as that I/O error, never as an end of stream', '4 C10'),
 'C18': ('free first lines under several segmentations through both connect functions against the greeting grammar (connected / InvalidMessage / UnexpectedEof, version verbatim); the password exchange through the real do_connect coroutine against a simulated server (OK / ACK / close / garbage)', '4 C18'),

 'C07': ('command names of every stated length and add_argument sequences with a fresh-bytes renderer: acceptance, rollback and one-line framing decided by z3 on every path', '4 C07'),
 'C13': ('list building, rendering and sending (short writes) for 1..N commands with symbolic command bytes; typed list impls (Vec, tuples 1..8) with symbolically failing conversions; list replies decoded end to end by both real connections; typed lists (also empty, also on a closed connection) through the real Client::command_list under symbolic schedules; framing and positional pairing asserted on every path', '4 C13'),
 'C15': ('every constructor/builder path of every predefined command with full-width symbolic integers and Bound pairs: the rendered request is tokenised by the port of MPD\'s tokenizer and compared word by word with an expectation table (numbers numerically, ranges as position sets via a probe position, durations against exact decimal arithmetic)', '4 C15'),
 'C20': ('every tag and subsystem variant against Other(symbolic name): ==, cmp, hash feed; Tag::try_from on all strings within the bounds and on every known name in every letter case; subsystem names through from_frame/as_str', '4 C20'),
 'C11': ('filter trees of every shape within the bounds, rendered inside a real find command and decoded by ports of MPD\'s tokenizer and filter parser; equality with the mirror tree decided by z3 on every path', '4 C11'),
 'C19': ('frames with symbolic keys under symbolic operation sequences and iteration patterns, responses under symbolic next/next_back/nth patterns, each observation compared with a list model on every path', '4 C19'),
 'C12': ('every typed response conversion and result accessor on frames with symbolic field names, order, presence and values (numbers of any magnitude, any f64); with and without the chrono feature; a feasible path reaching a panic is the counterexample', '4 C12'),
 'C14': ('abstract song listings under symbolic entry/attribute choices encoded into frames and decoded by the real listing decoders; the result is compared with a reference decoder on every path; plus a listing decoded end to end as second/third reply of a real connection that interned the same field names in other letter cases', '4 C14'),
 'C16': ('abstract status/stats/count/list/playlist/sticker/channel/tagtype/update/replay-gain replies under symbolic presence, domains and order; every member compared with the value sent on every path', '4 C16'),
 'C06': ('every feasible path of Command::build/add_argument/escape_argument/CommandList::render for all argument byte vectors within '
         'the bounds is decided by z3 against a port of MPD\'s tokenizer; known escaping defects are excluded by class and re-confirmed', '4 C06'),
}
REASONS = {}
def main():
    props = [json.loads(l) for l in open(os.path.join(V, 'properties.jsonl'))]
    m = {
     'version': 1,
     'setup_cmd': './setup.sh',
     'hooks': {'guard': 'cargo feature mpd_protocol/verif-small-buffer (off by default)',
               'enable': 'the native replay executor is built a second time with `--features small` (ws/replay: small = ["mpd_protocol/verif-small-buffer"]) on the symbolic side the interpreter substitutes the same constant value (const_override in props/conn_common.py), so the native replay of a small-buffer counterexample runs the hooked build; '
                         'the only effect is DEFAULT_BUFFER_CAPACITY = 8 instead of 4096 so that receive-buffer growth and compaction are reached with short streams; no other hook exists (MIR ignores privacy)',
               'baseline_off_cmd': 'cd /repo && cargo test --workspace --no-fail-fast --offline', 'source_commits': ['9e45100'], 'add_only': True},
     'engines': [{'name': 'mirsym', 'path': 'mirsym/', 'serves_properties': sorted(CLAIMED),
                  'kind_free_text': 'symbolic interpreter for rustc MIR (dumped from /repo on every run) with z3; library calls answered by contract models; native replay executor ws/replay'}],
     'checks': [], 'not_applicable': [],
     'notes': 'exit 0 = held within bounds, 1 = VIOLATION (natively reproduced), 2 = inconclusive (unsupported construct, solver unknown, non-reproducing counterexample); see DESIGN.md',
    }
    for p in props:
        i = p['id']
        if i in CLAIMED:
            text, ref = CLAIMED[i]
            m['checks'].append({'property_id': i, 'quick_cmd': './check %s --tier quick' % i, 'thorough_cmd': './check %s --tier thorough' % i,
                                'evidence_file': 'evidence/%s.json' % i, 'replay_cmd_template': './check %s --replay {path}' % i, 'engine': 'mirsym',
                                'level_claimed': {'category': 'other', 'text': 'bounded, path-complete symbolic execution of the real MIR, SMT-decided: ' + text, 'design_ref': ref},
                                'level_note': NOTE, 'technique': TECH})
        else:
            m['not_applicable'].append({'property_id': i, 'reason': REASONS.get(i, 'check not built yet (framework under construction, DESIGN.md 3.6)')})
    json.dump(m, open(os.path.join(V, 'MANIFEST.json'), 'w'), indent=1)
main()
