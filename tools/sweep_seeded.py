#!/usr/bin/env python3
"""Runs, for every seeded change (seeded/<id>/patch.diff), the check of its property (and the related checks listed in
EXTRA) on a scratch worktree with the patch applied (tools/try_patch.sh: private mount namespace, /repo is not touched)
and records exit code and first counterexample line in seeded/<id>/meta.json ("detection").

usage: sweep_seeded.py [-j N] [id ...]          (default: all)   env TIER=quick|thorough
"""
import os, sys, json, glob, subprocess, time, re
from concurrent.futures import ThreadPoolExecutor
V = os.path.dirname(os.path.dirname(os.path.abspath(__file__)))
EXTRA = {'C13-1': ['C01'], 'C12-1': ['C03'], 'C04-2': ['C08'], 'C01-2': ['C03'], 'C10-1': ['C08'], 'C08-1': ['C10'],
         'C02-6': ['C01'], 'C03-5': ['C01'], 'C06-5': ['C13', 'C07'], 'C06-6': ['C18'], 'C10-6': ['C08'], 'C13-6': ['C01'], 'C17-5': ['C01'], 'C02-4': ['C18'], 'C09-4': ['C02'], 'C10-3': ['C02'],
         'C03-7': ['C19', 'C04'], 'C05-7': ['C07'], 'C06-7': ['C15'], 'C06-8': ['C05', 'C01'], 'C07-7': ['C13'], 'C10-8': ['C08', 'C17'], 'C11-7': ['C15'],
         'C14-7': ['C03'], 'C14-8': ['C13', 'C01'], 'C16-7': ['C03'], 'C19-7': ['C14', 'C03'], 'C19-8': ['C03'], 'C13-7': ['C02', 'C03'],
         'C03-9': ['C19'], 'C03-10': ['C17'], 'C05-9': ['C02', 'C17'], 'C06-9': ['C07'], 'C06-10': ['C07'], 'C08-10': ['C09', 'C03'], 'C10-9': ['C04', 'C01'],
         'C11-9': ['C15'], 'C11-10': ['C01', 'C05'], 'C12-9': ['C17'], 'C13-10': ['C07'], 'C14-10': ['C03'], 'C17-10': ['C02'], 'C19-10': ['C03', 'C17'], 'C09-9': ['C10'], 'C17-9': ['C01']}
TIER = os.environ.get('TIER', 'quick')
VERDICT = {0: 'missed (check passes)', 1: 'detected (VIOLATION, natively replayed)', 2: 'inconclusive (no verdict)'}

def one(sid):
    d = os.path.join(V, 'seeded', sid)
    meta = json.load(open(os.path.join(d, 'meta.json')))
    props = [meta['property']] + EXTRA.get(sid, [])
    t0 = time.time()
    r = subprocess.run([os.path.join(V, 'tools', 'try_patch.sh'), os.path.join(d, 'patch.diff')] + props,
                       stdout=subprocess.PIPE, stderr=subprocess.STDOUT, text=True, env=dict(os.environ, WIDTH='400'))
    det = {}
    for line in r.stdout.splitlines():
        m = re.match(r'^\S+ (C\d\d) exit=(\d+) ?(.*)$', line)
        if m:
            rc = int(m.group(2))
            det[m.group(1)] = {'tier': TIER, 'exit': rc, 'verdict': VERDICT.get(rc, 'error'), 'first_line': m.group(3) or None}
    meta['detection'] = det
    meta['detection_run'] = {'tool': 'tools/sweep_seeded.py', 'tier': TIER, 'wall_s': round(time.time() - t0, 1)}
    json.dump(meta, open(os.path.join(d, 'meta.json'), 'w'), indent=1)
    return sid, det, r.stdout if not det else ''

def main():
    args = sys.argv[1:]
    jobs = 6
    if args and args[0] == '-j':
        jobs = int(args[1]); args = args[2:]
    ids = args or sorted(os.path.basename(d) for d in glob.glob(os.path.join(V, 'seeded', 'C*')))
    with ThreadPoolExecutor(jobs) as ex:
        for sid, det, err in ex.map(one, ids):
            print(sid, ' '.join('%s:%s' % (p, v['exit']) for p, v in det.items()), err[:300], flush=True)
            for p, v in det.items():
                if v['exit'] != 1 and v['first_line']:
                    print('    ', p, v['first_line'][:200])
main()
