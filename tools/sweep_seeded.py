#!/usr/bin/env python3
"""Applies every seeded change (seeded/<id>/patch.diff) to /repo in turn, runs the check of its property (and the
related checks listed in EXTRA) at the quick tier, records exit code and first VIOLATION line in seeded/<id>/meta.json
("detection") and restores /repo with `git checkout -- .`.  /repo must be clean and otherwise unused while this runs.

usage: sweep_seeded.py [id ...]          (default: all)   env TIER=quick|thorough
"""
import os, sys, json, glob, subprocess, time
V = os.path.dirname(os.path.dirname(os.path.abspath(__file__)))
EXTRA = {'C13-1': ['C01'], 'C12-1': ['C03'], 'C04-2': ['C08'], 'C01-2': ['C03'], 'C10-1': ['C08'], 'C08-1': ['C10']}
TIER = os.environ.get('TIER', 'quick')

def sh(cmd, **kw):
    return subprocess.run(cmd, shell=True, stdout=subprocess.PIPE, stderr=subprocess.STDOUT, text=True, **kw)

def main():
    ids = sys.argv[1:] or sorted(os.path.basename(d) for d in glob.glob(os.path.join(V, 'seeded', 'C*')))
    if sh('git -C /repo status --porcelain').stdout.strip():
        print('refusing: /repo has local changes'); return 2
    for sid in ids:
        d = os.path.join(V, 'seeded', sid)
        meta = json.load(open(os.path.join(d, 'meta.json')))
        r = sh('git -C /repo apply %s' % os.path.join(d, 'patch.diff'))
        if r.returncode:
            print(sid, 'patch does not apply:', r.stdout[:200]); continue
        try:
            det = {}
            for prop in [meta['property']] + EXTRA.get(sid, []):
                t0 = time.time()
                r = sh('%s/check %s --tier %s' % (V, prop, TIER))
                lines = r.stdout.splitlines()
                vio = [l for l in lines if l.startswith('VIOLATION')]
                cex = [l for l in lines if l.startswith('counterexample:')]
                inc = [l for l in lines if l.startswith('INCONCLUSIVE')]
                det[prop] = {'tier': TIER, 'exit': r.returncode, 'wall_s': round(time.time() - t0, 1),
                             'verdict': {0: 'missed (check passes)', 1: 'detected (VIOLATION, natively replayed)', 2: 'inconclusive (no verdict)'}.get(r.returncode, 'error'),
                             'first_counterexample': (cex[0][:400] if cex else None), 'violations': len(vio),
                             'inconclusive': (inc[-1][:300] if inc and r.returncode == 2 else None)}
                print(sid, prop, 'exit', r.returncode, (cex[0][:150] if cex else (inc[-1][:150] if inc else '')), flush=True)
            meta['detection'] = det
            json.dump(meta, open(os.path.join(d, 'meta.json'), 'w'), indent=1)
        finally:
            sh('git -C /repo checkout -- .')
            sh('git -C /repo clean -fdq -- mpd_client mpd_protocol')
    return 0
sys.exit(main())
