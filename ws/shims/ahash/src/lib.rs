//! Verification shim for `ahash`: a `BuildHasher` whose hasher is a fixed function (constant 0).
//! Any function is a legal hash function; map/set behaviour does not depend on it.
use std::hash::{BuildHasher, Hasher};
#[derive(Clone, Copy, Debug, Default)]
pub struct RandomState;
impl RandomState { pub fn new() -> Self { RandomState } }
#[derive(Clone, Copy, Debug, Default)]
pub struct AHasher;
impl Hasher for AHasher {
    fn finish(&self) -> u64 { 0 }
    fn write(&mut self, _bytes: &[u8]) {}
}
impl BuildHasher for RandomState {
    type Hasher = AHasher;
    fn build_hasher(&self) -> AHasher { AHasher }
}
