//! Verification shim: `#[instrument]` leaves the item untouched.
use proc_macro::TokenStream;
#[proc_macro_attribute]
pub fn instrument(_args: TokenStream, item: TokenStream) -> TokenStream { item }
