//! Verification model of the part of `tokio` that mpd_client / mpd_protocol use.
//!
//! Single-threaded, waker-free: the harness polls every task itself, so `Poll::Pending` simply
//! means "poll me again later". Every primitive follows tokio's documented contract; the points of
//! nondeterminism (select! start branch, timer expiry) are resolved by `verif::choose` /
//! `verif::World`, which the harness controls.

pub mod verif {
    //! Harness-facing control surface.
    use std::cell::Cell;
    use std::future::Future;
    use std::pin::Pin;

    thread_local! {
        /// Logical clock: timers armed at epoch `e` have elapsed once `EPOCH > e`.
        pub static EPOCH: Cell<u64> = const { Cell::new(0) };
    }

    pub fn epoch() -> u64 { EPOCH.with(|e| e.get()) }
    /// Let (at least) one re-idle timeout period pass.
    pub fn advance_time() { EPOCH.with(|e| e.set(e.get() + 1)) }

    /// Nondeterministic choice in `0..n`.
    #[cfg(kani)]
    pub fn choose(n: u32) -> u32 { let x: u32 = kani::any(); kani::assume(x < n); x }
    #[cfg(not(kani))]
    pub fn choose(_n: u32) -> u32 { 0 }

    pub type Task = Pin<Box<dyn Future<Output = ()>>>;
    static mut SPAWNED: Option<Task> = None;

    /// The future most recently passed to `tokio::spawn`.
    pub fn take_spawned() -> Option<Task> {
        #[allow(static_mut_refs)]
        unsafe { SPAWNED.take() }
    }
    pub(crate) fn put_spawned(t: Task) {
        #[allow(static_mut_refs)]
        unsafe { SPAWNED = Some(t) }
    }
}

pub mod task {
    pub struct JoinHandle<T>(pub(crate) std::marker::PhantomData<T>);
    /// Model of `tokio::task::yield_now`: pending exactly once.
    pub struct YieldNow(bool);
    pub fn yield_now() -> YieldNow { YieldNow(false) }
    impl std::future::Future for YieldNow {
        type Output = ();
        fn poll(mut self: std::pin::Pin<&mut Self>, _cx: &mut std::task::Context<'_>) -> std::task::Poll<()> {
            if self.0 { std::task::Poll::Ready(()) } else { self.0 = true; std::task::Poll::Pending }
        }
    }
}

/// Model of `tokio::spawn`: the task is parked where the harness can take and poll it.
pub fn spawn<F>(future: F) -> task::JoinHandle<()>
where
    F: std::future::Future<Output = ()> + 'static,
{
    verif::put_spawned(Box::pin(future));
    task::JoinHandle(std::marker::PhantomData)
}

pub mod io {
    use std::future::Future;
    use std::io;
    use std::pin::Pin;
    use std::task::{Context, Poll};

    pub struct ReadBuf<'a> { buf: &'a mut [u8], filled: usize }
    impl<'a> ReadBuf<'a> {
        pub fn new(buf: &'a mut [u8]) -> Self { ReadBuf { buf, filled: 0 } }
        pub fn filled(&self) -> &[u8] { &self.buf[..self.filled] }
        pub fn remaining(&self) -> usize { self.buf.len() - self.filled }
        pub fn capacity(&self) -> usize { self.buf.len() }
        pub fn put_slice(&mut self, src: &[u8]) {
            assert!(src.len() <= self.remaining());
            self.buf[self.filled..self.filled + src.len()].copy_from_slice(src);
            self.filled += src.len();
        }
        pub fn initialize_unfilled(&mut self) -> &mut [u8] { &mut self.buf[self.filled..] }
        pub fn advance(&mut self, n: usize) { assert!(n <= self.remaining()); self.filled += n; }
    }

    pub trait AsyncRead {
        fn poll_read(self: Pin<&mut Self>, cx: &mut Context<'_>, buf: &mut ReadBuf<'_>) -> Poll<io::Result<()>>;
    }
    pub trait AsyncWrite {
        fn poll_write(self: Pin<&mut Self>, cx: &mut Context<'_>, buf: &[u8]) -> Poll<io::Result<usize>>;
        fn poll_flush(self: Pin<&mut Self>, cx: &mut Context<'_>) -> Poll<io::Result<()>>;
        fn poll_shutdown(self: Pin<&mut Self>, cx: &mut Context<'_>) -> Poll<io::Result<()>>;
    }
    impl<T: ?Sized + AsyncRead + Unpin> AsyncRead for &mut T {
        fn poll_read(mut self: Pin<&mut Self>, cx: &mut Context<'_>, buf: &mut ReadBuf<'_>) -> Poll<io::Result<()>> {
            Pin::new(&mut **self).poll_read(cx, buf)
        }
    }
    impl<T: ?Sized + AsyncWrite + Unpin> AsyncWrite for &mut T {
        fn poll_write(mut self: Pin<&mut Self>, cx: &mut Context<'_>, buf: &[u8]) -> Poll<io::Result<usize>> {
            Pin::new(&mut **self).poll_write(cx, buf)
        }
        fn poll_flush(mut self: Pin<&mut Self>, cx: &mut Context<'_>) -> Poll<io::Result<()>> {
            Pin::new(&mut **self).poll_flush(cx)
        }
        fn poll_shutdown(mut self: Pin<&mut Self>, cx: &mut Context<'_>) -> Poll<io::Result<()>> {
            Pin::new(&mut **self).poll_shutdown(cx)
        }
    }

    /// Largest number of bytes one `read_buf` call hands to the caller (tokio: the buffer's spare
    /// capacity; any positive bound is a legal segmentation of the stream).
    pub const READ_CHUNK: usize = 16;

    pub struct ReadBufFut<'a, R: ?Sized, B> { reader: &'a mut R, buf: &'a mut B }
    impl<R: AsyncRead + Unpin + ?Sized, B: bytes::BufMut> Future for ReadBufFut<'_, R, B> {
        type Output = io::Result<usize>;
        fn poll(mut self: Pin<&mut Self>, cx: &mut Context<'_>) -> Poll<io::Result<usize>> {
            let me = &mut *self;
            if !me.buf.has_remaining_mut() { return Poll::Ready(Ok(0)); }
            let mut tmp = [0u8; READ_CHUNK];
            let mut rb = ReadBuf::new(&mut tmp);
            match Pin::new(&mut *me.reader).poll_read(cx, &mut rb) {
                Poll::Pending => Poll::Pending,
                Poll::Ready(Err(e)) => Poll::Ready(Err(e)),
                Poll::Ready(Ok(())) => {
                    let n = rb.filled().len();
                    me.buf.put_slice(&tmp[..n]);
                    Poll::Ready(Ok(n))
                }
            }
        }
    }
    pub trait AsyncReadExt: AsyncRead {
        fn read_buf<'a, B: bytes::BufMut>(&'a mut self, buf: &'a mut B) -> ReadBufFut<'a, Self, B> where Self: Unpin {
            ReadBufFut { reader: self, buf }
        }
    }
    impl<R: AsyncRead + ?Sized> AsyncReadExt for R {}

    pub struct WriteAll<'a, W: ?Sized> { writer: &'a mut W, buf: &'a [u8] }
    impl<W: AsyncWrite + Unpin + ?Sized> Future for WriteAll<'_, W> {
        type Output = io::Result<()>;
        fn poll(mut self: Pin<&mut Self>, cx: &mut Context<'_>) -> Poll<io::Result<()>> {
            let me = &mut *self;
            while !me.buf.is_empty() {
                match Pin::new(&mut *me.writer).poll_write(cx, me.buf) {
                    Poll::Pending => return Poll::Pending,
                    Poll::Ready(Err(e)) => return Poll::Ready(Err(e)),
                    Poll::Ready(Ok(0)) => return Poll::Ready(Err(io::ErrorKind::WriteZero.into())),
                    Poll::Ready(Ok(n)) => { me.buf = &me.buf[n..]; }
                }
            }
            Poll::Ready(Ok(()))
        }
    }
    pub struct Write<'a, W: ?Sized> { writer: &'a mut W, buf: &'a [u8] }
    impl<W: AsyncWrite + Unpin + ?Sized> Future for Write<'_, W> {
        type Output = io::Result<usize>;
        fn poll(mut self: Pin<&mut Self>, cx: &mut Context<'_>) -> Poll<io::Result<usize>> {
            let me = &mut *self;
            Pin::new(&mut *me.writer).poll_write(cx, me.buf)
        }
    }
    pub struct Flush<'a, W: ?Sized> { writer: &'a mut W }
    impl<W: AsyncWrite + Unpin + ?Sized> Future for Flush<'_, W> {
        type Output = io::Result<()>;
        fn poll(mut self: Pin<&mut Self>, cx: &mut Context<'_>) -> Poll<io::Result<()>> {
            let me = &mut *self;
            Pin::new(&mut *me.writer).poll_flush(cx)
        }
    }
    pub trait AsyncWriteExt: AsyncWrite {
        fn write_all<'a>(&'a mut self, src: &'a [u8]) -> WriteAll<'a, Self> where Self: Unpin {
            WriteAll { writer: self, buf: src }
        }
        fn write<'a>(&'a mut self, src: &'a [u8]) -> Write<'a, Self> where Self: Unpin {
            Write { writer: self, buf: src }
        }
        fn flush(&mut self) -> Flush<'_, Self> where Self: Unpin {
            Flush { writer: self }
        }
        fn shutdown(&mut self) -> Flush<'_, Self> where Self: Unpin {
            Flush { writer: self }
        }
        /// one `poll_write` with the remaining bytes of the buffer, which is advanced by what was written (declaration: the interpreter models it)
        fn write_buf<'a, B: bytes::Buf>(&'a mut self, src: &'a mut B) -> WriteBufFut<'a, Self, B> where Self: Unpin {
            WriteBufFut { writer: self, buf: src, all: false }
        }
        /// `poll_write` until the buffer is empty
        fn write_all_buf<'a, B: bytes::Buf>(&'a mut self, src: &'a mut B) -> WriteBufFut<'a, Self, B> where Self: Unpin {
            WriteBufFut { writer: self, buf: src, all: true }
        }
        fn write_u8(&mut self, n: u8) -> WriteByte<'_, Self> where Self: Unpin {
            WriteByte { writer: self, byte: [n], done: false }
        }
    }
    impl<W: AsyncWrite + ?Sized> AsyncWriteExt for W {}

    pub struct WriteBufFut<'a, W: ?Sized, B> { writer: &'a mut W, buf: &'a mut B, all: bool }
    impl<W: AsyncWrite + Unpin + ?Sized, B: bytes::Buf> Future for WriteBufFut<'_, W, B> {
        type Output = std::io::Result<usize>;
        fn poll(self: Pin<&mut Self>, cx: &mut Context<'_>) -> Poll<Self::Output> {
            let me = self.get_mut();
            let mut total = 0;
            loop {
                if !me.buf.has_remaining() { return Poll::Ready(Ok(total)); }
                match Pin::new(&mut *me.writer).poll_write(cx, me.buf.chunk()) {
                    Poll::Ready(Ok(n)) => { me.buf.advance(n); total += n; if !me.all { return Poll::Ready(Ok(n)); } if n == 0 { return Poll::Ready(Err(std::io::ErrorKind::WriteZero.into())); } }
                    Poll::Ready(Err(e)) => return Poll::Ready(Err(e)),
                    Poll::Pending => return Poll::Pending,
                }
            }
        }
    }
    pub struct WriteByte<'a, W: ?Sized> { writer: &'a mut W, byte: [u8; 1], done: bool }
    impl<W: AsyncWrite + Unpin + ?Sized> Future for WriteByte<'_, W> {
        type Output = std::io::Result<()>;
        fn poll(self: Pin<&mut Self>, cx: &mut Context<'_>) -> Poll<Self::Output> {
            let me = self.get_mut();
            if me.done { return Poll::Ready(Ok(())); }
            match Pin::new(&mut *me.writer).poll_write(cx, &me.byte) {
                Poll::Ready(Ok(_)) => { me.done = true; Poll::Ready(Ok(())) }
                Poll::Ready(Err(e)) => Poll::Ready(Err(e)),
                Poll::Pending => Poll::Pending,
            }
        }
    }
}

pub mod sync {
    pub mod mpsc {
        use std::cell::RefCell;
        use std::collections::VecDeque;
        use std::future::Future;
        use std::pin::Pin;
        use std::rc::Rc;
        use std::task::{Context, Poll};

        struct Chan<T> { queue: VecDeque<T>, senders: usize, rx_closed: bool }
        pub struct UnboundedSender<T>(Rc<RefCell<Chan<T>>>);
        pub struct UnboundedReceiver<T>(Rc<RefCell<Chan<T>>>);
        pub mod error {
            #[derive(Debug, PartialEq, Eq)]
            pub struct SendError<T>(pub T);
            #[derive(Debug, PartialEq, Eq)]
            pub enum TrySendError<T> { Full(T), Closed(T) }
            #[derive(Debug, PartialEq, Eq, Clone, Copy)]
            pub enum TryRecvError { Empty, Disconnected }
        }

        // ---- bounded channel (declarations for the MIR dump; the interpreter answers the calls with its own model)
        pub struct Sender<T>(Rc<RefCell<Chan<T>>>, usize);
        pub struct Receiver<T>(Rc<RefCell<Chan<T>>>);
        pub fn channel<T>(buffer: usize) -> (Sender<T>, Receiver<T>) {
            assert!(buffer > 0, "mpsc bounded channel requires buffer > 0");
            let c = Rc::new(RefCell::new(Chan { queue: VecDeque::new(), senders: 1, rx_closed: false }));
            (Sender(c.clone(), buffer), Receiver(c))
        }
        pub struct SendFut<'a, T>(&'a Sender<T>, Option<T>);
        impl<T> Future for SendFut<'_, T> {
            type Output = Result<(), error::SendError<T>>;
            fn poll(self: Pin<&mut Self>, _cx: &mut Context<'_>) -> Poll<Self::Output> {
                // SAFETY: nothing is moved out of the pinned value except the Option's content
                let me = unsafe { self.get_unchecked_mut() };
                let mut c = (me.0).0.borrow_mut();
                if c.rx_closed { return Poll::Ready(Err(error::SendError(me.1.take().unwrap()))); }
                if c.queue.len() >= (me.0).1 { return Poll::Pending; }
                c.queue.push_back(me.1.take().unwrap());
                Poll::Ready(Ok(()))
            }
        }
        pub struct ClosedFut<'a, T>(&'a Rc<RefCell<Chan<T>>>);
        impl<T> Future for ClosedFut<'_, T> {
            type Output = ();
            fn poll(self: Pin<&mut Self>, _cx: &mut Context<'_>) -> Poll<()> {
                if self.0.borrow().rx_closed { Poll::Ready(()) } else { Poll::Pending }
            }
        }
        impl<T> Sender<T> {
            pub fn send(&self, value: T) -> SendFut<'_, T> { SendFut(self, Some(value)) }
            pub fn try_send(&self, value: T) -> Result<(), error::TrySendError<T>> {
                let mut c = self.0.borrow_mut();
                if c.rx_closed { return Err(error::TrySendError::Closed(value)); }
                if c.queue.len() >= self.1 { return Err(error::TrySendError::Full(value)); }
                c.queue.push_back(value);
                Ok(())
            }
            pub fn is_closed(&self) -> bool { self.0.borrow().rx_closed }
            pub fn closed(&self) -> ClosedFut<'_, T> { ClosedFut(&self.0) }
            pub fn capacity(&self) -> usize { self.1 - self.0.borrow().queue.len().min(self.1) }
            pub fn max_capacity(&self) -> usize { self.1 }
        }
        impl<T> Clone for Sender<T> {
            fn clone(&self) -> Self { self.0.borrow_mut().senders += 1; Sender(self.0.clone(), self.1) }
        }
        impl<T> Drop for Sender<T> {
            fn drop(&mut self) { self.0.borrow_mut().senders -= 1; }
        }
        impl<T> std::fmt::Debug for Sender<T> {
            fn fmt(&self, f: &mut std::fmt::Formatter<'_>) -> std::fmt::Result { f.write_str("Sender") }
        }
        impl<T> std::fmt::Debug for Receiver<T> {
            fn fmt(&self, f: &mut std::fmt::Formatter<'_>) -> std::fmt::Result { f.write_str("Receiver") }
        }
        pub struct BRecv<'a, T>(&'a mut Receiver<T>);
        impl<T> Future for BRecv<'_, T> {
            type Output = Option<T>;
            fn poll(self: Pin<&mut Self>, _cx: &mut Context<'_>) -> Poll<Option<T>> {
                let mut c = (self.0).0.borrow_mut();
                if let Some(v) = c.queue.pop_front() { return Poll::Ready(Some(v)); }
                if c.senders == 0 || c.rx_closed { Poll::Ready(None) } else { Poll::Pending }
            }
        }
        impl<T> Receiver<T> {
            pub fn recv(&mut self) -> BRecv<'_, T> { BRecv(self) }
            pub fn try_recv(&mut self) -> Result<T, error::TryRecvError> {
                let mut c = self.0.borrow_mut();
                match c.queue.pop_front() { Some(v) => Ok(v), None => Err(if c.senders == 0 { error::TryRecvError::Disconnected } else { error::TryRecvError::Empty }) }
            }
            pub fn close(&mut self) { self.0.borrow_mut().rx_closed = true; }
            pub fn is_closed(&self) -> bool { self.0.borrow().rx_closed }
            pub fn is_empty(&self) -> bool { self.0.borrow().queue.is_empty() }
            pub fn len(&self) -> usize { self.0.borrow().queue.len() }
        }
        impl<T> Drop for Receiver<T> {
            fn drop(&mut self) {
                let drained: VecDeque<T> = { let mut c = self.0.borrow_mut(); c.rx_closed = true; std::mem::take(&mut c.queue) };
                drop(drained);
            }
        }

        pub fn unbounded_channel<T>() -> (UnboundedSender<T>, UnboundedReceiver<T>) {
            let c = Rc::new(RefCell::new(Chan { queue: VecDeque::new(), senders: 1, rx_closed: false }));
            (UnboundedSender(c.clone()), UnboundedReceiver(c))
        }
        impl<T> UnboundedSender<T> {
            pub fn send(&self, value: T) -> Result<(), error::SendError<T>> {
                let mut c = self.0.borrow_mut();
                if c.rx_closed { return Err(error::SendError(value)); }
                c.queue.push_back(value);
                Ok(())
            }
            pub fn is_closed(&self) -> bool { self.0.borrow().rx_closed }
            pub fn closed(&self) -> ClosedFut<'_, T> { ClosedFut(&self.0) }
            pub fn same_channel(&self, other: &Self) -> bool { Rc::ptr_eq(&self.0, &other.0) }
        }
        impl<T> Clone for UnboundedSender<T> {
            fn clone(&self) -> Self { self.0.borrow_mut().senders += 1; UnboundedSender(self.0.clone()) }
        }
        impl<T> Drop for UnboundedSender<T> {
            fn drop(&mut self) { self.0.borrow_mut().senders -= 1; }
        }
        impl<T> std::fmt::Debug for UnboundedSender<T> {
            fn fmt(&self, f: &mut std::fmt::Formatter<'_>) -> std::fmt::Result { f.write_str("UnboundedSender") }
        }
        impl<T> std::fmt::Debug for UnboundedReceiver<T> {
            fn fmt(&self, f: &mut std::fmt::Formatter<'_>) -> std::fmt::Result { f.write_str("UnboundedReceiver") }
        }
        pub struct Recv<'a, T>(&'a mut UnboundedReceiver<T>);
        impl<T> Future for Recv<'_, T> {
            type Output = Option<T>;
            fn poll(self: Pin<&mut Self>, _cx: &mut Context<'_>) -> Poll<Option<T>> {
                let mut c = (self.0).0.borrow_mut();
                if let Some(v) = c.queue.pop_front() { return Poll::Ready(Some(v)); }
                if c.senders == 0 || c.rx_closed { Poll::Ready(None) } else { Poll::Pending }
            }
        }
        impl<T> UnboundedReceiver<T> {
            pub fn recv(&mut self) -> Recv<'_, T> { Recv(self) }
            pub fn close(&mut self) { self.0.borrow_mut().rx_closed = true; }
            pub fn try_recv(&mut self) -> Result<T, error::TryRecvError> {
                let mut c = self.0.borrow_mut();
                match c.queue.pop_front() { Some(v) => Ok(v), None => Err(if c.senders == 0 { error::TryRecvError::Disconnected } else { error::TryRecvError::Empty }) }
            }
            pub fn is_closed(&self) -> bool { self.0.borrow().rx_closed }
            pub fn is_empty(&self) -> bool { self.0.borrow().queue.is_empty() }
            pub fn len(&self) -> usize { self.0.borrow().queue.len() }
        }
        impl<T> Drop for UnboundedReceiver<T> {
            fn drop(&mut self) {
                // closing the channel drops every queued message (tokio does the same)
                let drained: VecDeque<T> = {
                    let mut c = self.0.borrow_mut();
                    c.rx_closed = true;
                    std::mem::take(&mut c.queue)
                };
                drop(drained);
            }
        }
    }

    pub mod oneshot {
        use std::cell::RefCell;
        use std::future::Future;
        use std::pin::Pin;
        use std::rc::Rc;
        use std::task::{Context, Poll};

        struct Inner<T> { value: Option<T>, tx_dropped: bool, rx_dropped: bool }
        pub struct Sender<T>(Rc<RefCell<Inner<T>>>);
        pub struct Receiver<T>(Rc<RefCell<Inner<T>>>);
        pub mod error {
            #[derive(Debug, PartialEq, Eq, Clone)]
            pub struct RecvError(pub(crate) ());
            #[derive(Debug, PartialEq, Eq, Clone)]
            pub enum TryRecvError { Empty, Closed }
        }
        pub fn channel<T>() -> (Sender<T>, Receiver<T>) {
            let i = Rc::new(RefCell::new(Inner { value: None, tx_dropped: false, rx_dropped: false }));
            (Sender(i.clone()), Receiver(i))
        }
        impl<T> Sender<T> {
            pub fn send(self, t: T) -> Result<(), T> {
                let mut i = self.0.borrow_mut();
                if i.rx_dropped { return Err(t); }
                i.value = Some(t);
                Ok(())
            }
            pub fn is_closed(&self) -> bool { self.0.borrow().rx_dropped }
            pub fn closed(&mut self) -> Closed<'_, T> { Closed(self) }
        }
        pub struct Closed<'a, T>(&'a mut Sender<T>);
        impl<T> Future for Closed<'_, T> {
            type Output = ();
            fn poll(self: Pin<&mut Self>, _cx: &mut Context<'_>) -> Poll<()> {
                if (self.0).0.borrow().rx_dropped { Poll::Ready(()) } else { Poll::Pending }
            }
        }
        impl<T> Receiver<T> {
            pub fn close(&mut self) { self.0.borrow_mut().rx_dropped = true; }
            pub fn try_recv(&mut self) -> Result<T, error::TryRecvError> {
                let mut i = self.0.borrow_mut();
                if let Some(v) = i.value.take() { return Ok(v); }
                Err(if i.tx_dropped { error::TryRecvError::Closed } else { error::TryRecvError::Empty })
            }
        }
        impl<T> Drop for Sender<T> { fn drop(&mut self) { self.0.borrow_mut().tx_dropped = true; } }
        impl<T> Drop for Receiver<T> { fn drop(&mut self) { self.0.borrow_mut().rx_dropped = true; } }
        impl<T> Future for Receiver<T> {
            type Output = Result<T, error::RecvError>;
            fn poll(self: Pin<&mut Self>, _cx: &mut Context<'_>) -> Poll<Self::Output> {
                let mut i = self.0.borrow_mut();
                if let Some(v) = i.value.take() { return Poll::Ready(Ok(v)); }
                if i.tx_dropped { Poll::Ready(Err(error::RecvError(()))) } else { Poll::Pending }
            }
        }
        impl<T> std::fmt::Debug for Sender<T> {
            fn fmt(&self, f: &mut std::fmt::Formatter<'_>) -> std::fmt::Result { f.write_str("oneshot::Sender") }
        }
        impl<T> std::fmt::Debug for Receiver<T> {
            fn fmt(&self, f: &mut std::fmt::Formatter<'_>) -> std::fmt::Result { f.write_str("oneshot::Receiver") }
        }
    }
}

pub mod time {
    use std::future::Future;
    use std::pin::Pin;
    use std::task::{Context, Poll};
    use std::time::Duration;

    pub mod error {
        #[derive(Debug, PartialEq, Eq)]
        pub struct Elapsed(pub(crate) ());
    }
    /// Model of `tokio::time::sleep`: ready once the harness advanced the logical clock after creation.
    pub struct Sleep { armed_at: u64 }
    pub fn sleep(_d: Duration) -> Sleep { Sleep { armed_at: crate::verif::epoch() } }
    impl Future for Sleep {
        type Output = ();
        fn poll(self: Pin<&mut Self>, _cx: &mut Context<'_>) -> Poll<()> {
            if crate::verif::epoch() > self.armed_at { Poll::Ready(()) } else { Poll::Pending }
        }
    }
    pub use std::time::Duration as StdDuration;
    /// Model of `tokio::time::timeout`: the inner future is polled first; the deadline has
    /// passed once the harness advanced the logical clock after the timeout was created.
    pub struct Timeout<F> { fut: F, armed_at: u64 }
    pub fn timeout<F: Future>(_d: Duration, fut: F) -> Timeout<F> {
        Timeout { fut, armed_at: crate::verif::epoch() }
    }
    impl<F: Future> Future for Timeout<F> {
        type Output = Result<F::Output, error::Elapsed>;
        fn poll(self: Pin<&mut Self>, cx: &mut Context<'_>) -> Poll<Self::Output> {
            // SAFETY: `fut` is never moved out of the pinned struct.
            let me = unsafe { self.get_unchecked_mut() };
            let fut = unsafe { Pin::new_unchecked(&mut me.fut) };
            if let Poll::Ready(v) = fut.poll(cx) { return Poll::Ready(Ok(v)); }
            if crate::verif::epoch() > me.armed_at { Poll::Ready(Err(error::Elapsed(()))) } else { Poll::Pending }
        }
    }
}

pub mod time_ext {}
#[doc(hidden)]
pub mod macros_support {
    pub use std::future::{poll_fn, Future};
    pub use std::pin::Pin;
    pub use std::task::Poll;
    pub enum Out2<A, B> { A(A), B(B), Disabled }
    pub enum Out3<A, B, C> { A(A), B(B), C(C), Disabled }
}

/// Model of `tokio::select!` with two or three branches, optional preconditions (`, if cond`) and an optional `else` branch:
/// the preconditions are evaluated first (a false one disables its branch), then all futures are created, polled starting
/// from a nondeterministically chosen branch (`biased;`: from the first), the first ready one whose pattern matches wins
/// (a ready branch whose pattern does not match is disabled, as in tokio), and all futures are dropped before the winning
/// handler runs; when every branch is disabled the `else` handler runs (without one: panic, as in tokio).
/// Handlers may be blocks or expressions.
#[macro_export]
macro_rules! select {
    // ---- normalisation: one branch at a time into `{ pat = fut , if cond => { handler } }` groups; else handler kept aside
    (@norm $s:tt $e:tt [$($acc:tt)*] else => $h:block $(,)?) => { $crate::select!(@norm $s ($h) [$($acc)*]) };
    (@norm $s:tt $e:tt [$($acc:tt)*] else => $h:expr $(,)?) => { $crate::select!(@norm $s ({ $h }) [$($acc)*]) };
    (@norm $s:tt $e:tt [$($acc:tt)*] $p:pat = $f:expr , if $c:expr => $h:block , $($rest:tt)*) => { $crate::select!(@norm $s $e [$($acc)* { $p = $f , if $c => $h }] $($rest)*) };
    (@norm $s:tt $e:tt [$($acc:tt)*] $p:pat = $f:expr , if $c:expr => $h:block $($rest:tt)*) => { $crate::select!(@norm $s $e [$($acc)* { $p = $f , if $c => $h }] $($rest)*) };
    (@norm $s:tt $e:tt [$($acc:tt)*] $p:pat = $f:expr , if $c:expr => $h:expr , $($rest:tt)*) => { $crate::select!(@norm $s $e [$($acc)* { $p = $f , if $c => { $h } }] $($rest)*) };
    (@norm $s:tt $e:tt [$($acc:tt)*] $p:pat = $f:expr , if $c:expr => $h:expr) => { $crate::select!(@norm $s $e [$($acc)* { $p = $f , if $c => { $h } }]) };
    (@norm $s:tt $e:tt [$($acc:tt)*] $p:pat = $f:expr => $h:block , $($rest:tt)*) => { $crate::select!(@norm $s $e [$($acc)* { $p = $f , if true => $h }] $($rest)*) };
    (@norm $s:tt $e:tt [$($acc:tt)*] $p:pat = $f:expr => $h:block $($rest:tt)*) => { $crate::select!(@norm $s $e [$($acc)* { $p = $f , if true => $h }] $($rest)*) };
    (@norm $s:tt $e:tt [$($acc:tt)*] $p:pat = $f:expr => $h:expr , $($rest:tt)*) => { $crate::select!(@norm $s $e [$($acc)* { $p = $f , if true => { $h } }] $($rest)*) };
    (@norm $s:tt $e:tt [$($acc:tt)*] $p:pat = $f:expr => $h:expr) => { $crate::select!(@norm $s $e [$($acc)* { $p = $f , if true => { $h } }]) };
    (@norm (biased) ($e:block) [{ $p0:pat = $f0:expr , if $c0:expr => $h0:block } { $p1:pat = $f1:expr , if $c1:expr => $h1:block }]) => { $crate::select!(@go2 (0u32) $e ; $p0 = $f0 , $c0 => $h0 ; $p1 = $f1 , $c1 => $h1) };
    (@norm (random) ($e:block) [{ $p0:pat = $f0:expr , if $c0:expr => $h0:block } { $p1:pat = $f1:expr , if $c1:expr => $h1:block }]) => { $crate::select!(@go2 ($crate::verif::choose(2)) $e ; $p0 = $f0 , $c0 => $h0 ; $p1 = $f1 , $c1 => $h1) };
    (@norm (biased) ($e:block) [{ $p0:pat = $f0:expr , if $c0:expr => $h0:block } { $p1:pat = $f1:expr , if $c1:expr => $h1:block } { $p2:pat = $f2:expr , if $c2:expr => $h2:block }]) => { $crate::select!(@go3 (0u32) $e ; $p0 = $f0 , $c0 => $h0 ; $p1 = $f1 , $c1 => $h1 ; $p2 = $f2 , $c2 => $h2) };
    (@norm (random) ($e:block) [{ $p0:pat = $f0:expr , if $c0:expr => $h0:block } { $p1:pat = $f1:expr , if $c1:expr => $h1:block } { $p2:pat = $f2:expr , if $c2:expr => $h2:block }]) => { $crate::select!(@go3 ($crate::verif::choose(3)) $e ; $p0 = $f0 , $c0 => $h0 ; $p1 = $f1 , $c1 => $h1 ; $p2 = $f2 , $c2 => $h2) };
    // ---- two branches
    ( @go2 ($start:expr) $e:block ; $p0:pat = $f0:expr , $c0:expr => $h0:block ; $p1:pat = $f1:expr , $c1:expr => $h1:block ) => {{
        let __out = {
            let mut __dis0 = !($c0);
            let mut __dis1 = !($c1);
            let mut __f0 = $f0;
            let mut __f1 = $f1;
            // SAFETY: the futures are not moved after being pinned; they are dropped in place.
            let mut __f0 = unsafe { $crate::macros_support::Pin::new_unchecked(&mut __f0) };
            let mut __f1 = unsafe { $crate::macros_support::Pin::new_unchecked(&mut __f1) };
            let __start: u32 = $start;
            $crate::macros_support::poll_fn(|cx| {
                use $crate::macros_support::{Future, Out2, Poll};
                for __k in 0..2u32 {
                    if (__start + __k) % 2 == 0 {
                        if !__dis0 {
                            if let Poll::Ready(v) = __f0.as_mut().poll(cx) {
                                #[allow(irrefutable_let_patterns, unused_variables)]
                                if let $p0 = &v { return Poll::Ready(Out2::A(v)); } else { __dis0 = true; }
                            }
                        }
                    } else if !__dis1 {
                        if let Poll::Ready(v) = __f1.as_mut().poll(cx) {
                            #[allow(irrefutable_let_patterns, unused_variables)]
                            if let $p1 = &v { return Poll::Ready(Out2::B(v)); } else { __dis1 = true; }
                        }
                    }
                }
                if __dis0 && __dis1 { return Poll::Ready(Out2::Disabled); }
                Poll::Pending
            }).await
        };
        #[allow(unreachable_patterns, unreachable_code)]
        match __out {
            $crate::macros_support::Out2::A($p0) => $h0,
            $crate::macros_support::Out2::B($p1) => $h1,
            $crate::macros_support::Out2::Disabled => $e,
            _ => unreachable!(),
        }
    }};
    // ---- three branches
    ( @go3 ($start:expr) $e:block ; $p0:pat = $f0:expr , $c0:expr => $h0:block ; $p1:pat = $f1:expr , $c1:expr => $h1:block ; $p2:pat = $f2:expr , $c2:expr => $h2:block ) => {{
        let __out = {
            let mut __dis0 = !($c0);
            let mut __dis1 = !($c1);
            let mut __dis2 = !($c2);
            let mut __f0 = $f0;
            let mut __f1 = $f1;
            let mut __f2 = $f2;
            // SAFETY: the futures are not moved after being pinned; they are dropped in place.
            let mut __f0 = unsafe { $crate::macros_support::Pin::new_unchecked(&mut __f0) };
            let mut __f1 = unsafe { $crate::macros_support::Pin::new_unchecked(&mut __f1) };
            let mut __f2 = unsafe { $crate::macros_support::Pin::new_unchecked(&mut __f2) };
            let __start: u32 = $start;
            $crate::macros_support::poll_fn(|cx| {
                use $crate::macros_support::{Future, Out3, Poll};
                for __k in 0..3u32 {
                    let __b = (__start + __k) % 3;
                    if __b == 0 {
                        if !__dis0 {
                            if let Poll::Ready(v) = __f0.as_mut().poll(cx) {
                                #[allow(irrefutable_let_patterns, unused_variables)]
                                if let $p0 = &v { return Poll::Ready(Out3::A(v)); } else { __dis0 = true; }
                            }
                        }
                    } else if __b == 1 {
                        if !__dis1 {
                            if let Poll::Ready(v) = __f1.as_mut().poll(cx) {
                                #[allow(irrefutable_let_patterns, unused_variables)]
                                if let $p1 = &v { return Poll::Ready(Out3::B(v)); } else { __dis1 = true; }
                            }
                        }
                    } else if !__dis2 {
                        if let Poll::Ready(v) = __f2.as_mut().poll(cx) {
                            #[allow(irrefutable_let_patterns, unused_variables)]
                            if let $p2 = &v { return Poll::Ready(Out3::C(v)); } else { __dis2 = true; }
                        }
                    }
                }
                if __dis0 && __dis1 && __dis2 { return Poll::Ready(Out3::Disabled); }
                Poll::Pending
            }).await
        };
        #[allow(unreachable_patterns, unreachable_code)]
        match __out {
            $crate::macros_support::Out3::A($p0) => $h0,
            $crate::macros_support::Out3::B($p1) => $h1,
            $crate::macros_support::Out3::C($p2) => $h2,
            $crate::macros_support::Out3::Disabled => $e,
            _ => unreachable!(),
        }
    }};
    // ---- entry points
    ( biased; $($t:tt)* ) => { $crate::select!(@norm (biased) ({ panic!("all branches are disabled and there is no else branch") }) [] $($t)*) };
    ( $($t:tt)* ) => { $crate::select!(@norm (random) ({ panic!("all branches are disabled and there is no else branch") }) [] $($t)*) };
}

/// `tokio::pin!`: pins a value on the stack.
#[macro_export]
macro_rules! pin {
    ($($x:ident),* $(,)?) => { $(
        let mut $x = $x;
        #[allow(unused_mut)]
        // SAFETY: the original binding is shadowed, the value cannot be moved any more
        let mut $x = unsafe { $crate::macros_support::Pin::new_unchecked(&mut $x) };
    )* };
}
