//! Verification shim for `tracing`: every macro expands to nothing, spans are unit values and
//! `Instrument::instrument` returns the future unchanged (logging is not the subject of any
//! property; the real crate is semantically transparent).
pub use tracing_attributes::instrument;

#[derive(Clone, Copy, Debug, PartialEq, Eq, PartialOrd, Ord)]
pub struct Level(u8);
impl Level {
    pub const ERROR: Level = Level(1);
    pub const WARN: Level = Level(2);
    pub const INFO: Level = Level(3);
    pub const DEBUG: Level = Level(4);
    pub const TRACE: Level = Level(5);
}

#[derive(Clone, Debug, Default)]
pub struct Span;
impl Span {
    pub fn none() -> Span { Span }
    pub fn current() -> Span { Span }
    pub fn enter(&self) -> Entered { Entered }
    pub fn in_scope<F: FnOnce() -> T, T>(&self, f: F) -> T { f() }
}
pub struct Entered;

pub trait Instrument: Sized {
    fn instrument(self, _span: Span) -> Self { self }
    fn in_current_span(self) -> Self { self }
}
impl<T: Sized> Instrument for T {}

#[macro_export] macro_rules! trace { ($($t:tt)*) => {{}}; }
#[macro_export] macro_rules! debug { ($($t:tt)*) => {{}}; }
#[macro_export] macro_rules! info { ($($t:tt)*) => {{}}; }
#[macro_export] macro_rules! warn { ($($t:tt)*) => {{}}; }
#[macro_export] macro_rules! error { ($($t:tt)*) => {{}}; }
#[macro_export] macro_rules! event { ($($t:tt)*) => {{}}; }
#[macro_export] macro_rules! span { ($($t:tt)*) => {{ $crate::Span }}; }
#[macro_export] macro_rules! trace_span { ($($t:tt)*) => {{ $crate::Span }}; }
#[macro_export] macro_rules! debug_span { ($($t:tt)*) => {{ $crate::Span }}; }
