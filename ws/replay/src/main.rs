//! replay <scenario> <args...>   — all byte strings are hex encoded; output is `key=value` lines.
use std::io::{self, Read, Write};

mod data;
mod names;
mod coll;
mod conn;
mod client;
mod resp;
mod cmds;

fn unhex(s: &str) -> Vec<u8> {
    let s = s.trim();
    if s == "-" { return Vec::new(); }
    (0..s.len() / 2).map(|i| u8::from_str_radix(&s[2 * i..2 * i + 2], 16).expect("hex")).collect()
}
pub fn hex(b: &[u8]) -> String {
    if b.is_empty() { return "-".into(); }
    b.iter().map(|x| format!("{:02x}", x)).collect()
}

/// Read+Write transport for the blocking connection: scripted read segments, captured writes.
pub struct Pipe { pub segs: Vec<Vec<u8>>, pub next: usize, pub out: Vec<u8>, pub reads: usize }
/// index of the read call (0-based, counted per process) that fails once with ErrorKind::Interrupted; usize::MAX = never
pub static INTERRUPT_AT: std::sync::atomic::AtomicUsize = std::sync::atomic::AtomicUsize::new(usize::MAX);
pub static READ_CALLS: std::sync::atomic::AtomicUsize = std::sync::atomic::AtomicUsize::new(0);
pub fn interrupted_now() -> bool {
    use std::sync::atomic::Ordering::SeqCst;
    let k = READ_CALLS.fetch_add(1, SeqCst);
    k == INTERRUPT_AT.load(SeqCst)
}
impl Read for Pipe {
    fn read(&mut self, buf: &mut [u8]) -> io::Result<usize> {
        if interrupted_now() { return Err(io::Error::new(io::ErrorKind::Interrupted, "interrupted system call")); }
        self.reads += 1;
        if self.next >= self.segs.len() { return Ok(0); }
        let seg = &mut self.segs[self.next];
        let n = seg.len().min(buf.len());
        buf[..n].copy_from_slice(&seg[..n]);
        seg.drain(..n);
        if seg.is_empty() { self.next += 1; }
        Ok(n)
    }
}
impl Write for Pipe {
    fn write(&mut self, b: &[u8]) -> io::Result<usize> { self.out.extend_from_slice(b); Ok(b.len()) }
    fn flush(&mut self) -> io::Result<()> { Ok(()) }
}

fn main() {
    let args: Vec<String> = std::env::args().skip(1).collect();
    if args.is_empty() { eprintln!("usage: replay <scenario> ..."); std::process::exit(2); }
    let r = std::panic::catch_unwind(|| match args[0].as_str() {
        "chartable" => chartable(&args[1..]),
        "line" => data::line(&args[1..]),
        "linety" => data::linety(&args[1..]),
        "list" => data::list(&args[1..]),
        "seq" => data::seq(&args[1..]),
        "typed" => data::typed(&args[1..]),
        "tag" => names::tag(&args[1..]),
        "recv" => conn::recv(&args[1..]),
        "sendlist" => conn::sendlist(&args[1..]),
        "shorthand" => conn::shorthand(&args[1..]),
        "client" => client::client(&args[1..]),
        "resp" => resp::resp(&args[1..]),
        "cmd" => cmds::cmd(&args[1..]),
        "typedcount" => resp::typedcount(&args[1..]),
        "frame" => coll::frame(&args[1..]),
        "response" => coll::response(&args[1..]),
        "filter" => names::filter(&args[1..]),
        "subsys" => names::subsys(&args[1..]),
        other => { eprintln!("unknown scenario {other}"); std::process::exit(2); }
    });
    if let Err(e) = r {
        let msg = e.downcast_ref::<String>().cloned().or_else(|| e.downcast_ref::<&str>().map(|s| s.to_string())).unwrap_or_default();
        println!("panic={}", hex(msg.as_bytes()));
    }
}

pub fn args_bytes(a: &[String]) -> Vec<Vec<u8>> { a.iter().map(|s| unhex(s)).collect() }


/// chartable : ranges (inclusive, hex) of the scalar values below U+10000 for which std's char predicates hold - the
/// interpreter's model of `char::is_alphabetic` etc. is generated from this, so it is exactly what the compiled code does.
fn chartable(_a: &[String]) {
    type P = fn(&char) -> bool;
    let preds: [(&str, P); 7] = [("alphabetic", |c| c.is_alphabetic()), ("alphanumeric", |c| c.is_alphanumeric()), ("numeric", |c| c.is_numeric()),
        ("whitespace", |c| c.is_whitespace()), ("uppercase", |c| c.is_uppercase()), ("lowercase", |c| c.is_lowercase()), ("control", |c| c.is_control())];
    for (name, p) in preds {
        let mut out = Vec::new();
        let mut start: Option<u32> = None;
        for cp in 0u32..=0x10000 {
            let holds = cp < 0x10000 && char::from_u32(cp).map(|c| p(&c)).unwrap_or(false);
            match (holds, start) {
                (true, None) => start = Some(cp),
                (false, Some(s)) => { out.push(format!("{:x}-{:x}", s, cp - 1)); start = None; }
                _ => {}
            }
        }
        println!("{}={}", name, out.join(","));
    }
}
