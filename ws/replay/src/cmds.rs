//! Predefined commands (C15): `cmd <entry> <params...>` builds the command through the same public constructors the
//! symbolic check drives (mirsym/props/c15.py, same entry names, same parameter order) and prints the request bytes.
use crate::{args_bytes, hex, Pipe};
use mpd_client::commands::{self as c, Command, Song, SongId, SongPosition, SingleMode, ReplayGainMode, SeekMode};
use mpd_client::{filter::Filter, tag::Tag};
use mpd_protocol::Connection;
use std::ops::Bound;
use std::time::Duration;

struct P<'a> { a: &'a [String], i: usize }
impl<'a> P<'a> {
    fn next(&mut self) -> &'a str { let s = &self.a[self.i]; self.i += 1; s }
    fn u8(&mut self) -> u8 { self.next().parse().unwrap() }
    fn u64(&mut self) -> u64 { self.next().parse().unwrap() }
    fn usize(&mut self) -> usize { self.next().parse().unwrap() }
    fn string(&mut self) -> String { String::from_utf8(args_bytes(&[self.next().to_string()])[0].clone()).unwrap() }
    fn boolean(&mut self) -> bool { self.next() == "1" }
    fn bound_usize(&mut self) -> Bound<usize> {
        let s = self.next();
        if s == "u" { return Bound::Unbounded; }
        let v: usize = s[2..].parse().unwrap();
        if s.starts_with('i') { Bound::Included(v) } else { Bound::Excluded(v) }
    }
    fn bound(&mut self) -> Bound<SongPosition> {
        match self.bound_usize() { Bound::Included(v) => Bound::Included(SongPosition(v)), Bound::Excluded(v) => Bound::Excluded(SongPosition(v)), Bound::Unbounded => Bound::Unbounded }
    }
    fn rng(&mut self) -> (Bound<SongPosition>, Bound<SongPosition>) { let a = self.bound(); let b = self.bound(); (a, b) }
    fn rng_usize(&mut self) -> (Bound<usize>, Bound<usize>) { let a = self.bound_usize(); let b = self.bound_usize(); (a, b) }
    fn dur(&mut self) -> Duration { let (s, n) = self.next().split_once(',').unwrap(); Duration::new(s.parse().unwrap(), n.parse().unwrap()) }
    fn tag(&mut self) -> Tag { crate::names::tag_of(self.next()) }
    fn choice(&mut self) -> &'a str { self.next() }
    fn song(&mut self) -> Song {
        let (k, n) = self.next().split_once(':').unwrap();
        if k == "id" { Song::Id(SongId(n.parse().unwrap())) } else { Song::Position(SongPosition(n.parse().unwrap())) }
    }
}

fn emit<C: Command>(cmd: C) {
    let raw = cmd.command();
    let mut conn = Connection::connect(Pipe { segs: vec![b"OK MPD 0.23.5\n".to_vec()], next: 0, out: Vec::new(), reads: 0 }).expect("greeting");
    conn.send(raw).expect("send");
    println!("wire={}", hex(&conn.into_inner().out));
}
fn filt() -> Filter { Filter::tag(Tag::Artist, "x") }
fn filt2() -> Filter { Filter::tag(Tag::Album, "y") }

pub fn cmd(a: &[String]) {
    let mut p = P { a, i: 1 };
    match a[0].as_str() {
        "ClearQueue" => emit(c::ClearQueue), "Next" => emit(c::Next), "Ping" => emit(c::Ping), "Previous" => emit(c::Previous), "Stop" => emit(c::Stop),
        "ReplayGainStatus" => emit(c::ReplayGainStatus), "Status" => emit(c::Status), "Stats" => emit(c::Stats), "Queue" => emit(c::Queue),
        "CurrentSong" => emit(c::CurrentSong), "GetPlaylists" => emit(c::GetPlaylists), "GetEnabledTagTypes" => emit(c::GetEnabledTagTypes),
        "ReadChannelMessages" => emit(c::ReadChannelMessages), "ListChannels" => emit(c::ListChannels),
        "ClearPlaylist" => { let s = p.string(); emit(c::ClearPlaylist(&s)) }
        "DeletePlaylist" => { let s = p.string(); emit(c::DeletePlaylist(&s)) }
        "SaveQueueAsPlaylist" => { let s = p.string(); emit(c::SaveQueueAsPlaylist(&s)) }
        "SubscribeToChannel" => { let s = p.string(); emit(c::SubscribeToChannel(&s)) }
        "UnsubscribeFromChannel" => { let s = p.string(); emit(c::UnsubscribeFromChannel(&s)) }
        "GetPlaylist" => { let s = p.string(); emit(c::GetPlaylist(&s)) }
        "SetConsume" => emit(c::SetConsume(p.boolean())), "SetPause" => emit(c::SetPause(p.boolean())),
        "SetRandom" => emit(c::SetRandom(p.boolean())), "SetRepeat" => emit(c::SetRepeat(p.boolean())),
        "Queue::song" => emit(c::Queue::song(p.song())),
        "Queue::range" => emit(c::Queue::range(p.rng())),
        "QueueRange::range" => emit(c::QueueRange::range(p.rng())),
        "SetVolume" => emit(c::SetVolume(p.u8())),
        "SetSingle" => emit(c::SetSingle(match p.choice() { "Enabled" => SingleMode::Enabled, "Disabled" => SingleMode::Disabled, _ => SingleMode::Oneshot })),
        "SetReplayGainMode" => emit(c::SetReplayGainMode(match p.choice() { "Off" => ReplayGainMode::Off, "Track" => ReplayGainMode::Track, "Album" => ReplayGainMode::Album, _ => ReplayGainMode::Auto })),
        "Crossfade" => emit(c::Crossfade(p.dur())),
        "SeekTo" => { let s = p.song(); emit(c::SeekTo(s, p.dur())) }
        "Seek" => { let k = p.choice(); let d = p.dur(); emit(c::Seek(match k { "Forward" => SeekMode::Forward(d), "Backward" => SeekMode::Backward(d), _ => SeekMode::Absolute(d) })) }
        "Shuffle::all" => emit(c::Shuffle::all()),
        "Shuffle::range" => emit(c::Shuffle::range(p.rng())),
        "Play::current" => emit(c::Play::current()),
        "Play::song" => emit(c::Play::song(p.song())),
        "Add" => {
            let s = p.string();
            let mut x = c::Add::uri(&s);
            match p.choice() { "at" => x = x.at(SongPosition(p.usize())), "before" => x = x.before_current(p.usize()), "after" => x = x.after_current(p.usize()), _ => {} }
            emit(x)
        }
        "Delete" => match p.choice() {
            "id" => emit(c::Delete::id(SongId(p.u64()))),
            "position" => emit(c::Delete::position(SongPosition(p.usize()))),
            _ => emit(c::Delete::range(p.rng())),
        },
        "Move" => {
            let mb = match p.choice() {
                "id" => c::Move::id(SongId(p.u64())),
                "position" => c::Move::position(SongPosition(p.usize())),
                _ => c::Move::range(p.rng()),
            };
            let j = p.choice();
            let w = p.usize();
            emit(match j { "to" => mb.to_position(SongPosition(w)), "after" => mb.after_current(w), _ => mb.before_current(w) })
        }
        "Find" => {
            let mut x = c::Find::new(filt());
            if p.boolean() { if p.boolean() { x = x.sort(Tag::Album); } x = x.sort(p.tag()); }
            if p.boolean() { x = x.window(p.rng_usize()); }
            emit(x)
        }
        "List" => {
            let mut x = c::List::new(p.tag());
            if p.boolean() { if p.boolean() { x = x.filter(filt2()); } x = x.filter(filt()); }
            if p.boolean() { emit(x.group_by([p.tag()])) } else { emit(x) }
        }
        "Count" => emit(c::Count::new(filt())),
        "CountGrouped" => {
            let t = p.tag();
            if p.boolean() { emit(c::Count::new(filt()).group_by(t)); return; }
            let mut x = c::CountGrouped::new(t);
            if p.boolean() { if p.boolean() { x = x.filter(filt2()); } x = x.filter(filt()); }
            emit(x)
        }
        "RenamePlaylist" => { let (x, y) = (p.string(), p.string()); emit(c::RenamePlaylist::new(&x, &y)) }
        "LoadPlaylist" => {
            let s = p.string();
            let mut x = c::LoadPlaylist::name(&s);
            if p.boolean() { x = x.range(p.rng_usize()); }
            emit(x)
        }
        "AddToPlaylist" => {
            let (s, t) = (p.string(), p.string());
            let mut x = c::AddToPlaylist::new(&s, &t);
            if p.boolean() { x = x.at(SongPosition(p.usize())); }
            emit(x)
        }
        "RemoveFromPlaylist" => {
            let s = p.string();
            if p.boolean() { emit(c::RemoveFromPlaylist::position(&s, p.usize())) } else { emit(c::RemoveFromPlaylist::range(&s, p.rng())) }
        }
        "MoveInPlaylist" => { let s = p.string(); let f = p.usize(); let t = p.usize(); emit(c::MoveInPlaylist::new(&s, f, t)) }
        "ListAllIn" => { if p.boolean() { emit(c::ListAllIn::root()) } else { let s = p.string(); emit(c::ListAllIn::directory(&s)) } }
        "SetBinaryLimit" => emit(c::SetBinaryLimit(p.usize())),
        "AlbumArt" => { let s = p.string(); let mut x = c::AlbumArt::new(&s); if p.boolean() { x = x.offset(p.usize()); } emit(x) }
        "AlbumArtEmbedded" => { let s = p.string(); let mut x = c::AlbumArtEmbedded::new(&s); if p.boolean() { x = x.offset(p.usize()); } emit(x) }
        "TagTypes" => match p.choice() {
            "enable_all" => emit(c::TagTypes::enable_all()),
            "disable_all" => emit(c::TagTypes::disable_all()),
            k => { let t = [p.tag(), p.tag()]; if k == "disable" { emit(c::TagTypes::disable(&t)) } else { emit(c::TagTypes::enable(&t)) } }
        },
        "StickerList" => { let u = p.string(); emit(c::StickerList::new(&u)) }
        "StickerGet" => { let (u, n) = (p.string(), p.string()); emit(c::StickerGet::new(&u, &n)) }
        "StickerDelete" => { let (u, n) = (p.string(), p.string()); emit(c::StickerDelete::new(&u, &n)) }
        "StickerSet" => { let (u, n, v) = (p.string(), p.string(), p.string()); emit(c::StickerSet::new(&u, &n, &v)) }
        "StickerFind" => {
            let (u, n) = (p.string(), p.string());
            let x = c::StickerFind::new(&u, &n);
            match p.choice() {
                "none" => emit(x),
                k => { let v = p.string(); emit(match k { "eq" => x.where_eq(&v), "gt" => x.where_gt(&v), _ => x.where_lt(&v) }) }
            }
        }
        "Update" => { let x = c::Update::new(); if p.boolean() { let u = p.string(); emit(x.uri(&u)) } else { emit(x) } }
        "Rescan" => { let x = c::Rescan::new(); if p.boolean() { let u = p.string(); emit(x.uri(&u)) } else { emit(x) } }
        "SendChannelMessage" => { let (x, y) = (p.string(), p.string()); emit(c::SendChannelMessage::new(&x, &y)) }
        other => { eprintln!("no entry {other}"); std::process::exit(2); }
    }
}
