//! Frames and responses as ordered collections (C19).
use crate::{hex, Pipe};
use mpd_protocol::{response::{Frame, Response}, Connection};

pub fn receive_all(wire: Vec<u8>) -> Vec<Result<Option<Response>, String>> {
    let mut c = Connection::connect(Pipe { segs: vec![b"OK MPD 0.23.5\n".to_vec(), wire], next: 0, out: Vec::new(), reads: 0 }).unwrap();
    let mut out = Vec::new();
    loop {
        match c.receive() {
            Ok(Some(r)) => out.push(Ok(Some(r))),
            Ok(None) => { out.push(Ok(None)); break; }
            Err(e) => { out.push(Err(format!("{e:?}"))); break; }
        }
    }
    out
}

fn opt(v: Option<impl AsRef<str>>) -> String { v.map(|s| s.as_ref().to_string()).unwrap_or_else(|| "none".into()) }

/// frame <keys e.g. aAb> <binary 0|1> <op>...   ops: f:<k> find, g:<k> get, t take_binary, l fields_len, e is_empty, h has_binary,
/// b binary, F:<pattern of n/b> borrowed iterator steps, I:<pattern of n/b/t> owned iterator steps (consumes the frame: last op)
pub fn frame(a: &[String]) {
    let mut wire = Vec::new();
    for (i, k) in a[0].chars().enumerate() { if k != '-' { wire.extend_from_slice(format!("{k}: v{i}\n").as_bytes()); } }
    if a[1] == "1" { wire.extend_from_slice(b"binary: 3\nB\nN\nOK\n"); } else { wire.extend_from_slice(b"OK\n"); }
    let r = receive_all(wire).remove(0).unwrap().unwrap();
    let mut f: Frame = r.into_single_frame().unwrap();
    for op in &a[2..] {
        let (o, arg) = op.split_once(':').unwrap_or((op.as_str(), ""));
        match o {
            "f" => println!("obs=find {}", opt(f.find(arg))),
            "g" => println!("obs=get {}", opt(f.get(arg))),
            "t" => println!("obs=take {}", f.take_binary().map(|b| hex(&b)).unwrap_or_else(|| "none".into())),
            "l" => println!("obs=len {}", f.fields_len()),
            "e" => println!("obs=empty {}", f.is_empty()),
            "h" => println!("obs=hasbin {}", f.has_binary()),
            "b" => println!("obs=bin {}", f.binary().map(hex).unwrap_or_else(|| "none".into())),
            "F" => { let mut it = f.fields(); for c in arg.chars() {
                        let x = if c == 'n' { it.next() } else { it.next_back() };
                        println!("obs=it {}", x.map(|(k, v)| format!("{k}={v}")).unwrap_or_else(|| "end".into())); } }
            "I" => { let mut it = f.into_iter(); for c in arg.chars() {
                        match c { 't' => println!("obs=ittake {}", it.take_binary().map(|b| hex(&b)).unwrap_or_else(|| "none".into())),
                                  _ => { let x = if c == 'n' { it.next() } else { it.next_back() };
                                         println!("obs=it {}", x.map(|(k, v)| format!("{k}={v}")).unwrap_or_else(|| "end".into())); } } }
                     return; }
            _ => panic!("frame op"),
        }
    }
}

/// response <nframes> <error 0|1> <kind ref|owned> <op>...  ops: n next, b next_back, s size_hint, l len, N:<k> nth(k), c count, L last
pub fn response(a: &[String]) {
    let n: usize = a[0].parse().unwrap();
    let mut wire = Vec::new();
    for i in 0..n { wire.extend_from_slice(format!("id: {i}\nlist_OK\n").as_bytes()); }
    if a[1] == "1" { wire.extend_from_slice(format!("ACK [5@{n}] {{x}} msg\n").as_bytes()); } else { wire.extend_from_slice(b"OK\n"); }
    let r = receive_all(wire).remove(0).unwrap().unwrap();
    println!("obs=frames {} error {} success {}", r.successful_frames(), r.is_error(), r.is_success());
    fn item<F: std::borrow::Borrow<Frame>, E: std::borrow::Borrow<mpd_protocol::response::Error>>(x: Option<Result<F, E>>) -> String {
        match x { None => "end".into(), Some(Ok(f)) => format!("frame {}", f.borrow().find("id").unwrap_or("?")), Some(Err(e)) => format!("error {}", e.borrow().code) }
    }
    macro_rules! drive { ($it:expr) => {{ let mut it = $it; for op in &a[3..] {
        let (o, arg) = op.split_once(':').unwrap_or((op.as_str(), ""));
        match o {
            "n" => println!("obs={}", item(it.next())),
            "b" => println!("obs={}", item(it.next_back())),
            "s" => println!("obs=hint {:?}", it.size_hint()),
            "l" => println!("obs=len {}", it.len()),
            "N" => println!("obs={}", item(it.nth(arg.parse().unwrap()))),
            "c" => { println!("obs=count {}", it.count()); return; }
            "L" => { println!("obs=last {}", item(it.last())); return; }
            _ => panic!("response op"),
        } } }} }
    match a[2].as_str() {
        "ref" => drive!(r.frames()),
        "owned" => drive!(r.into_iter()),
        "single" => println!("obs=single {}", item(Some(r.into_single_frame()))),
        _ => panic!("kind"),
    }
}
